"""C02.packer-symmetry: abstract run of every Packer.pack / Packer.unpack (offset arithmetic, layout agreement)."""
from __future__ import annotations

import ast
import builtins
import collections
import functools
import itertools
import operator
import re
import struct

from ..core import Ctx
from ..match import arg, call_name, calls, local_defs, rchain, resolve, single_def
from ..model import NOCONST, AnalysisError, ClassInfo, FuncInfo, ancestors, chain, clone, const_value, enclosing_stmt, norm, set_parents, strip_cast, walk_no_nested

SER = "ipv8/messaging/serialization.py"


# ------------------------------------------------------------------------------------------ linear forms
class Lin:
    """Integer linear form  const + sum coeff*symbol  (symbols are strings)."""

    def __init__(self, const: int = 0, terms: dict[str, int] | None = None) -> None:
        self.c = const
        self.t = {k: v for k, v in (terms or {}).items() if v}

    @staticmethod
    def sym(s: str) -> "Lin":
        return Lin(0, {s: 1})

    def __add__(self, o: "Lin") -> "Lin":
        t = dict(self.t)
        for k, v in o.t.items():
            t[k] = t.get(k, 0) + v
        return Lin(self.c + o.c, t)

    def __sub__(self, o: "Lin") -> "Lin":
        return self + o.scale(-1)

    def scale(self, k: int) -> "Lin":
        return Lin(self.c * k, {s: v * k for s, v in self.t.items()})

    def __eq__(self, o) -> bool:
        return isinstance(o, Lin) and self.c == o.c and self.t == o.t

    def __hash__(self) -> int:
        return hash((self.c, frozenset(self.t.items())))

    def __str__(self) -> str:
        parts = [f"{v}*{k}" if v != 1 else k for k, v in sorted(self.t.items())]
        if self.c or not parts:
            parts.append(str(self.c))
        return " + ".join(parts)


class Unknown(Exception):
    pass


class _Infeasible(Exception):
    """The path cannot be taken under the assumed tag value / the selected entry of a constant table."""


_WRAPPERS = ("MappingProxyType", "types.MappingProxyType", "dict", "tuple", "list", "frozenset")


_NOTAG = object()


def const_display(repo, fi: FuncInfo, k: ClassInfo | None, e: ast.AST) -> ast.AST | None:
    """The literal (tuple / list / dict / set display) that e denotes when e is such a display or names a module-level / class-level constant."""
    def is_local(name: str) -> bool:
        return name in fi.params() or bool(local_defs(fi, name))
    e = strip_cast(e)
    for _ in range(7):
        if isinstance(e, ast.Call) and chain(e.func) in _WRAPPERS and len(e.args) == 1 and not e.keywords:
            e = strip_cast(e.args[0])
            continue
        if isinstance(e, (ast.Tuple, ast.List, ast.Dict, ast.Set)):
            return e
        if isinstance(e, (ast.DictComp, ast.ListComp, ast.GeneratorExp, ast.SetComp)):
            # a table DERIVED from another constant table: `{f.type_byte: f for f in _FAMILIES}`, `tuple(1 << s for s in range(7, -1, -1))`
            cache = repo.__dict__.setdefault("_c02_comprehension_tables", {})
            if id(e) not in cache:
                cache[id(e)] = (e, _expand_comprehension(repo, fi, k, e, is_local))       # (the node is kept alive with its result)
            return cache[id(e)][1]
        if isinstance(e, ast.Name) and not is_local(e.id):
            r = repo.resolve_name(fi.module, e.id)
            if isinstance(r, tuple) and r[0] == "const":
                e = strip_cast(r[2])
                continue
            a = k.lookup_attr(e.id) if k is not None else None      # a name used inside a class-level table
            if a is not None:
                e = strip_cast(a)
                continue
            return None
        if isinstance(e, ast.Attribute) and isinstance(e.value, ast.Name):
            kk = k if e.value.id in ("self", "cls") else repo.resolve_class_expr(fi.module, e.value)
            a = kk.lookup_attr(e.attr) if kk is not None else None
            if a is not None and not any(isinstance(st, ast.Assign) and chain(st.targets[0]) == f"self.{e.attr}"
                                         for m in kk.methods.values() for st in walk_no_nested(m.node)):
                e = strip_cast(a)
                continue
            return None
        return None
    return None


def table_entries(const_expr, it: ast.AST) -> list[ast.AST] | None:
    it = strip_cast(it)
    if isinstance(it, ast.Call) and isinstance(it.func, ast.Attribute) and it.func.attr in ("items", "keys", "values") and not it.args and not it.keywords:
        d = const_expr(it.func.value)
        if isinstance(d, ast.Dict) and d.keys and all(k is not None for k in d.keys):
            if it.func.attr == "items":
                return [ast.Tuple(elts=[k, v], ctx=ast.Load()) for k, v in zip(d.keys, d.values)]
            return list(d.keys if it.func.attr == "keys" else d.values)
        return None
    t = const_expr(it)
    if isinstance(t, (ast.Tuple, ast.List)) and t.elts and not any(isinstance(x, ast.Starred) for x in t.elts):
        return list(t.elts)
    if isinstance(t, ast.Dict) and t.keys and all(k is not None for k in t.keys):
        return list(t.keys)
    return None


# ------------------------------------------------------------------------------------------ small result objects
def record_class_fields(k: ClassInfo) -> list[tuple[str, str, ast.AST | None]] | None:
    """
    (constructor parameter, attribute, default | None) in constructor order when class k is a plain immutable-style record: a NamedTuple,
    a dataclass without a hand-written __init__ / __new__ / __post_init__, or a class whose __init__ only stores its parameters
    (`self.a = a`).  For such a class `K(x, y).a` IS x: the object is nothing but a named tuple of the values it was built from.
    """
    names = {b.split(".")[-1].split("[")[0] for b in k.all_base_names()}
    decos = {(chain(d.func if isinstance(d, ast.Call) else d) or "").split(".")[-1] for d in k.node.decorator_list}
    own_init = k.lookup("__init__")
    if own_init is not None and own_init.cls is not None and own_init.cls.name == "object":
        own_init = None
    if k.lookup("__new__") is not None or k.lookup("__getattr__") is not None or k.lookup("__getattribute__") is not None:
        return None
    if "NamedTuple" in names or ("dataclass" in decos and own_init is None and k.lookup("__post_init__") is None):
        out: list = []
        for c in reversed(k.mro()):
            for st in c.node.body:
                if isinstance(st, ast.AnnAssign) and isinstance(st.target, ast.Name):
                    if "ClassVar" in norm(st.annotation):
                        continue
                    out = [x for x in out if x[0] != st.target.id]
                    out.append((st.target.id, st.target.id, st.value))
        # a property / method of the same name as a field cannot exist; other members do not change what the fields hold
        return out or None
    if own_init is not None:
        a = own_init.node.args
        if a.vararg is not None or a.kwarg is not None or a.kwonlyargs:
            return None
        params = [p.arg for p in a.posonlyargs + a.args][1:]
        defaults = dict(zip(params[len(params) - len(a.defaults):], a.defaults)) if a.defaults else {}
        attr_of: dict[str, str] = {}
        for st in own_init.node.body:
            if isinstance(st, ast.Expr) and isinstance(st.value, ast.Constant):
                continue
            tg = st.targets[0] if isinstance(st, ast.Assign) and len(st.targets) == 1 else st.target if isinstance(st, ast.AnnAssign) else None
            v = strip_cast(st.value) if isinstance(st, (ast.Assign, ast.AnnAssign)) and st.value is not None else None
            if not (isinstance(tg, ast.Attribute) and isinstance(tg.value, ast.Name) and tg.value.id == "self"
                    and isinstance(v, ast.Name) and v.id in params and v.id not in attr_of):
                return None
            attr_of[v.id] = tg.attr
        if not attr_of:
            return None
        # the attributes must not be written anywhere else in the class (then they would not keep the constructor's values)
        for m in k.methods.values():
            if m is own_init:
                continue
            for st in walk_no_nested(m.node):
                if isinstance(st, ast.Attribute) and isinstance(st.ctx, (ast.Store, ast.Del)) and st.attr in attr_of.values():
                    return None
        return [(p, attr_of.get(p, "\0" + p), defaults.get(p)) for p in params]
    return None


def _factory_fields(e: ast.AST) -> list[tuple[str, str, ast.AST | None]] | None:
    """fields of `namedtuple("X", "a b")` / `namedtuple("X", ["a", "b"])` / `NamedTuple("X", [("a", int), ...])`"""
    e = strip_cast(e)
    if not (isinstance(e, ast.Call) and (chain(e.func) or "").split(".")[-1] in ("namedtuple", "NamedTuple") and len(e.args) == 2 and not e.keywords):
        return None
    spec = e.args[1]
    cv = const_value(spec)
    if isinstance(cv, str):
        names = cv.replace(",", " ").split()
    elif isinstance(spec, (ast.Tuple, ast.List)):
        names = []
        for x in spec.elts:
            if isinstance(x, (ast.Tuple, ast.List)) and x.elts:
                x = x.elts[0]
            v = const_value(x)
            if not isinstance(v, str):
                return None
            names.append(v)
    else:
        return None
    return [(n, n, None) for n in names] or None


def record_fields_of_callee(repo, module, func: ast.AST, is_local=None):
    """(fields, kind) when `func(...)` constructs a plain record (see record_class_fields), a namedtuple-factory product, or a `slice`."""
    func = strip_cast(func)
    if isinstance(func, ast.Name) and is_local is not None and is_local(func.id):
        return None
    k = repo.resolve_class_expr(module, func)
    if k is not None:
        cache = repo.__dict__.setdefault("_c02_record_classes", {})
        if k not in cache:
            cache[k] = record_class_fields(k)
        f = cache[k]
        if f is None:
            return None
        tuple_like = "NamedTuple" in {b.split(".")[-1].split("[")[0] for b in k.all_base_names()}
        return f, ("tuple" if tuple_like else "object")
    if isinstance(func, ast.Name):
        r = repo.resolve_name(module, func.id)
        if isinstance(r, tuple) and r[0] == "const":
            f = _factory_fields(r[2])
            return (f, "tuple") if f else None
        if func.id == "slice" and r is None and func.id not in module.imports:
            return [("start", "start", None), ("stop", "stop", None), ("step", "step", ast.Constant(value=None))], "slice"
    return None


_PURE_CTOR_CALLS = ("Struct", "struct.Struct", "calcsize", "struct.calcsize", "len", "str", "int")


def computed_record_fields(k: ClassInfo):
    """
    (parameters, defaults, [(attribute, expression over the parameters)]) when class k is an immutable-style record whose constructor only
    stores values COMPUTED from its parameters by pure expressions (`self.body = Struct(f">{host_size}sH")`, `self.tag = tag`): then
    `K(x, y).body` IS that expression with x, y in place of the parameters.  None when the class does anything else.
    """
    if len([c for c in k.mro() if c.name != "object"]) != 1 or k.base_names and set(k.base_names) - {"object"}:
        return None
    if any(k.lookup(n) is not None for n in ("__new__", "__getattr__", "__getattribute__", "__setattr__", "__post_init__")) or k.node.decorator_list:
        return None
    init = k.methods.get("__init__")
    if init is None:
        return None
    a = init.node.args
    if a.vararg is not None or a.kwarg is not None or a.kwonlyargs:
        return None
    params = [p.arg for p in a.posonlyargs + a.args]
    me, params = params[0], params[1:]
    defaults = dict(zip(params[len(params) - len(a.defaults):], a.defaults)) if a.defaults else {}
    items: list[tuple[str, ast.AST]] = []
    for st in init.node.body:
        if isinstance(st, ast.Expr) and isinstance(st.value, ast.Constant):
            continue
        tg = st.targets[0] if isinstance(st, ast.Assign) and len(st.targets) == 1 else st.target if isinstance(st, ast.AnnAssign) else None
        v = strip_cast(st.value) if isinstance(st, (ast.Assign, ast.AnnAssign)) and st.value is not None else None
        if not (isinstance(tg, ast.Attribute) and isinstance(tg.value, ast.Name) and tg.value.id == me and v is not None) or any(x == tg.attr for x, _ in items):
            return None
        for n in ast.walk(v):
            if isinstance(n, ast.Name) and n.id == me:
                return None
            if isinstance(n, (ast.Lambda, ast.Await, ast.NamedExpr, ast.ListComp, ast.GeneratorExp, ast.SetComp, ast.DictComp, ast.Yield, ast.YieldFrom, ast.Starred)):
                return None
            if isinstance(n, ast.Call) and (chain(n.func) not in _PURE_CTOR_CALLS or n.keywords):
                return None
        items.append((tg.attr, v))
    if not items:
        return None
    names = {x for x, _ in items}
    for m in k.methods.values():
        if m.name in names:
            return None
        if m is init:
            continue
        for n in walk_no_nested(m.node):
            if isinstance(n, ast.Attribute) and isinstance(n.ctx, (ast.Store, ast.Del)) and n.attr in names:
                return None
    if any(x in k.attrs for x in names):
        return None
    return params, defaults, items


def fold_consts(repo, module, e: ast.AST) -> ast.AST:
    """e (a fresh copy) with sub-expressions over literals folded: f">{4}sH" -> ">4sH", 1 << 7 -> 128, ">" + "B" -> ">B" (what Python computes)."""
    def lit(x):
        v = const_value(x)
        return v if isinstance(v, (int, str)) and not isinstance(v, bool) else NOCONST

    class F(ast.NodeTransformer):
        def visit_JoinedStr(self, n):
            self.generic_visit(n)
            parts = []
            for v in n.values:
                if isinstance(v, ast.Constant) and isinstance(v.value, str):
                    parts.append(v.value)
                    continue
                if isinstance(v, ast.FormattedValue) and v.conversion == -1 and v.format_spec is None:
                    c = lit(v.value)
                    if c is NOCONST and repo is not None and isinstance(v.value, (ast.Name, ast.Attribute)):
                        c = repo.resolve_const(module, v.value)
                    if isinstance(c, (int, str)) and not isinstance(c, bool):
                        parts.append(str(c))
                        continue
                return n
            return ast.copy_location(ast.Constant(value="".join(parts)), n)

        def visit_BinOp(self, n):
            self.generic_visit(n)
            l, r = lit(n.left), lit(n.right)
            if l is NOCONST or r is NOCONST:
                return n
            try:
                if isinstance(l, int) and isinstance(r, int):
                    op = {ast.Add: operator.add, ast.Sub: operator.sub, ast.Mult: operator.mul, ast.LShift: operator.lshift, ast.RShift: operator.rshift,
                          ast.BitOr: operator.or_, ast.BitAnd: operator.and_, ast.BitXor: operator.xor, ast.FloorDiv: operator.floordiv, ast.Mod: operator.mod,
                          ast.Pow: operator.pow}.get(type(n.op))
                    if op is None or (isinstance(n.op, (ast.LShift, ast.Pow)) and not 0 <= r <= 64):
                        return n
                    return ast.copy_location(ast.Constant(value=op(l, r)), n)
                if isinstance(l, str) and isinstance(r, str) and isinstance(n.op, ast.Add):
                    return ast.copy_location(ast.Constant(value=l + r), n)
                if isinstance(l, str) and isinstance(r, int) and isinstance(n.op, ast.Mult) and 0 <= r <= 64:
                    return ast.copy_location(ast.Constant(value=l * r), n)
                if isinstance(l, str) and isinstance(n.op, ast.Mod) and re.fullmatch(r"(?:[^%]|%[ds])*", l) and l.count("%") == 1:
                    return ast.copy_location(ast.Constant(value=l % r), n)
            except (ArithmeticError, ValueError, TypeError):
                return n
            return n
    return ast.fix_missing_locations(F().visit(e))


class _SubstNames(ast.NodeTransformer):
    def __init__(self, mapping: dict[str, ast.AST]) -> None:
        self.mapping = mapping

    def visit_Name(self, n: ast.Name):
        if isinstance(n.ctx, ast.Load) and n.id in self.mapping:
            return clone(self.mapping[n.id])
        return n


def computed_display_items(repo, module, e: ast.Call, is_local=None):
    """("object", [(attribute, expression)]) for a display `K(x, y)` of a computed record class (see computed_record_fields); else None."""
    func = strip_cast(e.func)
    if isinstance(func, ast.Name) and is_local is not None and is_local(func.id):
        return None
    if any(isinstance(a, ast.Starred) for a in e.args) or any(kw.arg is None for kw in e.keywords):
        return None
    k = repo.resolve_class_expr(module, func)
    if k is None:
        return None
    cache = repo.__dict__.setdefault("_c02_computed_records", {})
    if k not in cache:
        cache[k] = computed_record_fields(k) if record_class_fields(k) is None else None
    got = cache[k]
    if got is None:
        return None
    params, defaults, items = got
    if len(e.args) > len(params):
        return None
    given = dict(zip(params, e.args))
    for kw in e.keywords:
        if kw.arg in given or kw.arg not in params:
            return None
        given[kw.arg] = kw.value
    for p_ in params:
        if p_ not in given:
            if p_ not in defaults:
                return None
            given[p_] = defaults[p_]
    given = {p_: strip_cast(v) for p_, v in given.items()}
    return "object", [(attr, fold_consts(repo, k.module, _SubstNames(given).visit(clone(t)))) for attr, t in items]


def record_class_of_display(repo, module, e: ast.AST, is_local=None) -> ClassInfo | None:
    """class K of /repo when e is a display `K(..)` of a plain or computed record class"""
    e = strip_cast(e)
    if not isinstance(e, ast.Call):
        return None
    if record_fields_of_callee(repo, module, e.func, is_local) is None and computed_display_items(repo, module, e, is_local) is None:
        return None
    return repo.resolve_class_expr(module, e.func)


def display_items(repo, module, e: ast.AST, is_local=None):
    """(kind, [(attribute | None, expr)]) of a tuple display / a display of a plain or computed record class; None otherwise"""
    e = strip_cast(e)
    if isinstance(e, (ast.Tuple, ast.List)):
        return None if any(isinstance(x, ast.Starred) for x in e.elts) else ("tuple", [(None, x) for x in e.elts])
    if not isinstance(e, ast.Call) or any(isinstance(a, ast.Starred) for a in e.args) or any(kw.arg is None for kw in e.keywords):
        return None
    got = record_fields_of_callee(repo, module, e.func, is_local)
    if got is None:
        return computed_display_items(repo, module, e, is_local)
    fields, kind = got
    if kind == "slice" or len(e.args) > len(fields):
        return None
    given = {p: a for (p, _, _), a in zip(fields, e.args)}
    for kw in e.keywords:
        if kw.arg in given or kw.arg not in {p for p, _, _ in fields}:
            return None
        given[kw.arg] = kw.value
    items = []
    for p_, attr, default in fields:
        v = given.get(p_, default)
        if v is None:
            return None
        items.append((attr, v))
    return kind, items


def fold_record_parts(repo, module, e: ast.AST, is_local=None) -> ast.AST:
    """`_Family(TAG, F, AF).fmt` -> F, `(a, b)[1]` -> b inside e (a fresh copy): a part of a record display is the expression it was built from"""
    class Fold(ast.NodeTransformer):
        def visit_Attribute(self, n):
            self.generic_visit(n)
            rec = display_items(repo, module, n.value, is_local) if isinstance(n.value, ast.Call) else None
            x = _pick(rec[0], rec[1], n) if rec is not None else None
            return clone(x) if x is not None else n

        def visit_Subscript(self, n):
            self.generic_visit(n)
            rec = display_items(repo, module, n.value, is_local) if isinstance(n.value, (ast.Call, ast.Tuple, ast.List)) and not isinstance(n.slice, ast.Slice) else None
            x = _pick(rec[0], rec[1], n) if rec is not None else None
            return clone(x) if x is not None else n
    return Fold().visit(e)


def _expand_comprehension(repo, fi: FuncInfo, k: ClassInfo | None, e: ast.AST, is_local) -> ast.AST | None:
    """
    The display a comprehension over a constant table (or over range(<constants>)) denotes: one generator, no filter, the element
    expression is evaluated per entry by substitution (parts of record displays and arithmetic on literals are folded).  None when the
    entries are not known or an element still mentions a loop variable in a way that is not a plain substitution.
    """
    if len(e.generators) != 1:
        return None
    g = e.generators[0]
    if g.ifs or g.is_async:
        return None
    it = strip_cast(g.iter)
    entries = None
    if isinstance(it, ast.Call) and chain(it.func) == "range" and 1 <= len(it.args) <= 3 and not it.keywords:
        vals = [repo.resolve_const(fi.module, a, k) for a in it.args]
        if all(isinstance(v, int) and not isinstance(v, bool) for v in vals):
            try:
                r = range(*vals)
            except ValueError:
                return None
            if len(r) <= 256:
                entries = [ast.Constant(value=i) for i in r]
    else:
        entries = table_entries(lambda x: const_display(repo, fi, k, x), it)
    if entries is None or len(entries) > 256:
        return None
    tnames = [n.id for n in ast.walk(g.target) if isinstance(n, ast.Name)]

    def bind(tgt, val, out) -> bool:
        val = strip_cast(val)
        if isinstance(tgt, ast.Name):
            out[tgt.id] = val
            return True
        if isinstance(tgt, (ast.Tuple, ast.List)) and not any(isinstance(x, ast.Starred) for x in tgt.elts):
            rec = display_items(repo, fi.module, val, is_local)
            if rec is not None and rec[0] == "tuple" and len(rec[1]) == len(tgt.elts):
                return all(bind(t, v, out) for t, (_, v) in zip(tgt.elts, rec[1]))
        return False

    def inst(x: ast.AST, mapping) -> ast.AST | None:
        if any(isinstance(n, (ast.Lambda, ast.ListComp, ast.GeneratorExp, ast.SetComp, ast.DictComp, ast.NamedExpr, ast.Await)) for n in ast.walk(x)):
            return None
        y = ast.fix_missing_locations(_SubstNames(mapping).visit(clone(x)))
        y = fold_consts(repo, fi.module, fold_record_parts(repo, fi.module, y, is_local))
        return y
    keys, vals = [], []
    for ent in entries:
        mapping: dict = {}
        if not bind(g.target, ent, mapping) or set(mapping) != set(tnames):
            return None
        if isinstance(e, ast.DictComp):
            kx, vx = inst(e.key, mapping), inst(e.value, mapping)
            if kx is None or vx is None:
                return None
            keys.append(kx)
            vals.append(vx)
        else:
            vx = inst(e.elt, mapping)
            if vx is None:
                return None
            vals.append(vx)
    if isinstance(e, ast.DictComp):
        out = ast.Dict(keys=keys, values=vals)
    elif isinstance(e, ast.SetComp):
        out = ast.Set(elts=vals)
    else:
        out = ast.Tuple(elts=vals, ctx=ast.Load())
    return ast.fix_missing_locations(ast.copy_location(out, e))


def _pick(kind: str, items: list, e: ast.AST):
    """the part of a record (kind, [(attribute | None, x)]) that `<rec>.attr` / `<rec>[i]` selects; None when it selects none"""
    if isinstance(e, ast.Attribute):
        for a, v in items:
            if a is not None and a == e.attr:
                return v
        return None
    if isinstance(e, ast.Subscript) and kind == "tuple":
        i = const_value(e.slice)
        if isinstance(i, int) and not isinstance(i, bool) and -len(items) <= i < len(items):
            return items[i][1]
    return None


def _ctor_stores(cls: ClassInfo, fn: FuncInfo, mapping: dict | None = None, depth: int = 0) -> list[tuple[str, ast.AST]]:
    """
    (attribute, value expression) of every `self.<attribute> = value` a constructor performs, in source order, INCLUDING the stores made by
    helper methods it calls on itself (`self._init_prefix(fmt)`, `Base._init_prefix(self, fmt)`, `super()._init_prefix(fmt)`: a mixin / base
    class method or a private method of the class): the helper's parameters are replaced by the caller's argument expressions, so the value
    reads as if the store were written in the constructor.
    """
    out: list[tuple[str, ast.AST]] = []
    mapping = mapping or {}

    def sub(e: ast.AST) -> ast.AST:
        e = strip_cast(e)
        if not mapping:
            return e

        class S(ast.NodeTransformer):
            def visit_Name(self, n: ast.Name):
                if isinstance(n.ctx, ast.Load) and n.id in mapping:
                    return clone(mapping[n.id])
                return n
        return strip_cast(ast.fix_missing_locations(S().visit(clone(e))))
    for s in sorted((x for x in walk_no_nested(fn.node) if isinstance(x, ast.stmt) and x is not fn.node), key=lambda x: (x.lineno, x.col_offset)):
        if isinstance(s, (ast.Assign, ast.AnnAssign)) and s.value is not None:
            tg = s.targets[0] if isinstance(s, ast.Assign) else s.target
            c = chain(tg)
            if isinstance(tg, ast.Attribute) and c and c.startswith("self.") and c.count(".") == 1:
                out.append((tg.attr, sub(s.value)))
                continue
        v = strip_cast(s.value) if isinstance(s, (ast.Expr, ast.Assign, ast.AnnAssign)) and getattr(s, "value", None) is not None else None
        if isinstance(v, ast.Call) and isinstance(v.func, ast.Attribute) and depth < 3 and v.func.attr != "__init__" \
                and not any(isinstance(a, ast.Starred) for a in v.args) and not any(k.arg is None for k in v.keywords):
            recv, args = v.func.value, list(v.args)
            target = None
            if isinstance(recv, ast.Name) and recv.id == "self":
                target = cls.lookup(v.func.attr)
            elif chain(recv) == "super()" and fn.cls is not None:
                mro = cls.mro()
                after = mro[mro.index(fn.cls) + 1:] if fn.cls in mro else []
                target = next((k.methods[v.func.attr] for k in after if v.func.attr in k.methods), None)
            elif isinstance(recv, ast.Name) and args and chain(args[0]) == "self":
                k = next((k for k in cls.mro() if k.name == recv.id), None)
                target = k.lookup(v.func.attr) if k is not None else None
                args = args[1:]
            if target is None or target.node is fn.node:
                continue
            a = target.node.args
            if a.vararg or a.kwarg:
                continue
            params = [x.arg for x in a.posonlyargs + a.args][1:]
            if len(args) > len(params):
                continue
            bound = {p: sub(x) for p, x in zip(params, args)}
            for kw in v.keywords:
                bound[kw.arg] = sub(kw.value)
            defaults = dict(zip(params[len(params) - len(a.defaults):], a.defaults)) if a.defaults else {}
            for p_ in params:
                if p_ not in bound and p_ in defaults:
                    bound[p_] = strip_cast(defaults[p_])
            out.extend(_ctor_stores(cls, target, bound, depth + 1))
    return out


def property_expr(cls: ClassInfo, attr: str) -> ast.AST | None:
    """
    The expression a read-only view `self.<attr>` stands for: <attr> is a @property (without setter / deleter, never stored into) of the
    class whose getter is a single `return <expression>` - reading the attribute IS evaluating that expression on the same object.
    """
    f = cls.lookup(attr)
    if f is None or not isinstance(f, FuncInfo):
        return None
    decos = {d.split(".")[-1] for d in f.decorator_names()}
    if not decos or not decos <= {"property", "cached_property"} or len(f.params()) != 1:
        return None
    for k in cls.mro():
        for st in k.node.body:
            if isinstance(st, (ast.FunctionDef, ast.AsyncFunctionDef)) and st.name == attr and st is not f.node:
                return None               # a setter / deleter / another definition of the name
    body = [st for st in f.node.body if not (isinstance(st, ast.Expr) and isinstance(st.value, ast.Constant))]
    if len(body) != 1 or not isinstance(body[0], ast.Return) or body[0].value is None:
        return None
    e = strip_cast(body[0].value)
    me = f.params()[0]
    if any(isinstance(n, (ast.Call, ast.Lambda, ast.Await, ast.NamedExpr, ast.ListComp, ast.GeneratorExp, ast.Yield)) for n in ast.walk(e)):
        return None
    if any(isinstance(n, ast.Name) and n.id != me and n.id in {"self", "cls"} for n in ast.walk(e)):
        return None
    if me != "self":
        class R(ast.NodeTransformer):
            def visit_Name(self, n: ast.Name):
                return ast.copy_location(ast.Name(id="self", ctx=n.ctx), n) if n.id == me else n
        e = ast.fix_missing_locations(R().visit(clone(e)))
    return e


class PackerModel:
    def __init__(self, ctx: Ctx, cls: ClassInfo) -> None:
        self.ctx = ctx
        self.cls = cls
        self.size_attr: dict[str, str] = {}      # self.length_size -> "size(self.length_format)"
        self.fmt_attr: set[str] = set()
        self.struct_attr: dict[str, ast.AST | str] = {}   # self.X = Struct(fmt)  ->  X: fmt (constant node, or "self.<attr>" text)
        init = cls.lookup("__init__")
        if init is not None and init.cls.name not in ("Packer", "object"):
            for k in cls.mro():
                i = k.methods.get("__init__")
                if i is None:
                    continue
                stored = {}
                for a, v in _ctor_stores(cls, i):
                    if isinstance(v, ast.Name):
                        stored[v.id] = a
                    if isinstance(v, ast.Attribute) and isinstance(v.value, ast.Call) and chain(v.value.func) in ("Struct", "struct.Struct") and v.attr == "size":
                        src = v.value.args[0]
                        self.size_attr[a] = f"size({self._fmt_text(src, stored)})"
                    if isinstance(v, ast.Call) and chain(v.func) in ("calcsize", "struct.calcsize"):
                        self.size_attr[a] = f"size({self._fmt_text(v.args[0], stored)})"
                    if isinstance(v, ast.Call) and chain(v.func) in ("Struct", "struct.Struct") and len(v.args) == 1:
                        self.struct_attr[a] = v.args[0] if isinstance(const_value(v.args[0]), str) else self._fmt_text(v.args[0], stored)
                    if isinstance(v, ast.Attribute) and chain(v) and chain(v).startswith("self.") and chain(v).count(".") == 2 and v.attr == "size" \
                            and v.value.attr in self.struct_attr:
                        self.size_attr[a] = self.struct_size_text(v.value.attr)

    def property_value(self, attr: str, depth: int = 0) -> ast.AST | None:
        """
        The expression a read-only view `self.<attr>` stands for: <attr> is a @property (no setter) of the packer class whose getter is a
        single `return <expression over self>` - reading the attribute IS evaluating that expression on the same object.
        """
        return property_expr(self.cls, attr)

    @staticmethod
    def _fmt_text(e: ast.AST, stored: dict[str, str]) -> str:
        if isinstance(e, ast.Name) and e.id in stored:
            return f"self.{stored[e.id]}"
        return norm(e)

    def struct_fmt_text(self, attr: str) -> str:
        """Format of the precompiled struct self.<attr>, as the text an inline unpack_from(fmt, ..) would show."""
        f = self.struct_attr[attr]
        return f if isinstance(f, str) else (const_value(f) if isinstance(const_value(f), str) else norm(f))

    def struct_size_text(self, attr: str) -> str:
        return f"size({self.struct_fmt_text(attr)})"

    def struct_size(self, attr: str) -> Lin:
        f = self.struct_attr[attr]
        if not isinstance(f, str) and isinstance(const_value(f), str):
            return Lin(struct.calcsize(const_value(f)))
        return Lin.sym(self.struct_size_text(attr))

    def struct_of(self, e: ast.AST) -> str | None:
        """attr name X if e is `self.X` and X holds a precompiled Struct."""
        if isinstance(e, ast.Attribute) and isinstance(e.value, ast.Name) and e.value.id == "self" and e.attr in self.struct_attr:
            return e.attr
        # a precompiled struct held in a module-level / class-level constant: NAME = Struct(fmt)
        init = None
        key = None
        if isinstance(e, ast.Name):
            r = self.ctx.repo.resolve_name(self.cls.module, e.id)
            if isinstance(r, tuple) and r[0] == "const":
                init, key = strip_cast(r[2]), "@" + e.id
        elif isinstance(e, ast.Attribute) and isinstance(e.value, ast.Name) and e.value.id in ("self", "cls", self.cls.name):
            a = self.cls.lookup_attr(e.attr)
            if a is not None:
                init, key = strip_cast(a), "@" + self.cls.name + "." + e.attr
        if isinstance(init, ast.Call) and chain(init.func) in ("Struct", "struct.Struct") and len(init.args) == 1 and isinstance(const_value(init.args[0]), str):
            self.struct_attr.setdefault(key, init.args[0])
            return key
        return None

    def struct_of_call(self, e: ast.AST, fmt_of=None) -> str | None:
        """key for an inline `Struct(fmt)` / `struct.Struct(fmt)` construction (fmt_of: maps the format expression to what it stands for)"""
        e = strip_cast(e)
        if isinstance(e, ast.Call) and chain(e.func) in ("Struct", "struct.Struct") and len(e.args) == 1 and not e.keywords:
            f = fmt_of(e.args[0]) if fmt_of is not None else e.args[0]
            key = "%" + norm(f)
            self.struct_attr.setdefault(key, f if isinstance(const_value(f), str) else norm(f))
            return key
        return None

    def fmt_size(self, e: ast.AST) -> Lin:
        cv = const_value(e)
        if isinstance(cv, str):
            return Lin(struct.calcsize(cv))
        return Lin.sym(f"size({norm(e)})")


class UnpackRun:
    """Symbolic run of one path of an unpack method."""

    def __init__(self, pm: PackerModel, fi: FuncInfo) -> None:
        self.pm = pm
        self.fi = fi
        p = fi.params()
        self.data, self.off = p[1], p[2]
        self.env: dict[str, Lin] = {self.off: Lin.sym("offset")}
        self.reads: list[tuple[Lin, Lin, str]] = []
        self.wire: dict[str, str] = {}          # local name -> description of the wire value
        self.ret: Lin | None = None
        self.ret_node: ast.Return | None = None
        self.fresh = 0
        self.read_of: dict[int, int] = {}       # id(unpack_from call) -> index into self.reads
        self.tuples: dict[str, int] = {}        # local bound to the whole tuple of a struct read -> read index
        self.loops: list[tuple[ast.For, Lin | None]] = []    # for-loops entered on this path and the linear form of `range(N)`'s N
        self.seen: list[ast.AST] = []           # every expression evaluated on this path (for per-path call inventories)
        self.delegates: list[ast.Call] = []     # delegated unpack calls in the order they consume bytes
        self.delegate_fmts: list = []           # their first argument (format name) with bound locals replaced
        self.bind: dict[str, ast.AST] = {}      # local name -> closed constant expression (entry of a constant table, argument of a followed helper)
        self.conds: list[tuple[ast.AST, bool]] = []   # condition atoms taken on this path with their outcome
        self.convs: set = set()                 # address text conversions evaluated on this path (see _addr_conversions)
        self.byte_of: dict[int, int] = {}       # id(`data[i]` subscript) -> index into self.reads
        self.assume: tuple[dict, str] | None = None   # ({tag constant name: value}, assumed tag name or "<other>") for the first wire byte
        self.memo: dict = {}                    # (constant dict, key value) -> the entry this path assumes the lookup yields
        self.frames: list = []                  # saved caller frames while a helper is followed
        self.retvals = None                     # value(s) returned by the frame that just finished (followed helper)
        self.recs: dict[str, tuple] = {}        # local -> (kind, [(attribute | None, value as value_of gives it)]): a small result object / tuple
        self.out = p[3] if len(p) > 3 and p[3] else None     # the list the decoded value(s) are delivered to
        self.blind: str | None = None           # set when the buffer is used in a way this run does not account for (bytes may be read unseen)
        self.open_tag: str | None = None        # under an assumed tag: a condition that depends on the tag byte but could not be evaluated
        self.n_out: int | None = 0              # number of values delivered on this path so far (None: not decidable)
        self._prop_depth = 0
        self.pending_exc: str | None = None     # the exception with which the previous statement was left (EAFP lookups), until a handler takes it
        # private mutable objects built on this path from the buffer (a reader / cursor that keeps the buffer and the read position):
        # object id -> {attribute: value as value_of gives it | ("buffer", None)}; a local that holds one is recs[name] = ("mutable", [id])
        self.objs: dict[int, dict] = {}
        self.obj_cls: dict[int, ClassInfo] = {}

    _COPIED = ("env", "reads", "wire", "read_of", "tuples", "loops", "seen", "delegates", "delegate_fmts", "bind", "conds", "convs", "byte_of", "frames", "memo",
               "recs")

    def clone(self) -> "UnpackRun":
        r = UnpackRun.__new__(UnpackRun)
        r.__dict__.update(self.__dict__)
        for k in self._COPIED:
            v = getattr(self, k)
            setattr(r, k, dict(v) if isinstance(v, dict) else set(v) if isinstance(v, set) else list(v))
        r.objs = {k: dict(v) for k, v in self.__dict__.get("objs", {}).items()}
        r.obj_cls = dict(self.__dict__.get("obj_cls", {}))
        return r

    # ---- private mutable objects that hold the buffer / the read position (`cursor = _Cursor(data, offset)`)
    def mutable_of(self, e: ast.AST) -> int | None:
        """object id when e is a local of the current frame that holds a private mutable object built on this path"""
        e = strip_cast(e)
        if isinstance(e, ast.Name):
            rec = self.recs.get(e.id)
            if rec is not None and rec[0] == "mutable" and not self._foreign(e):
                return rec[1][0]
        return None

    def _foreign(self, n: ast.AST) -> bool:
        """n was written in another function than the one this frame runs (an argument expression of the caller that a parameter is bound
        to): its names mean what they mean THERE - the caller's `self` is not the `self` of the followed method"""
        cur = getattr(n, "_parent", None)
        while cur is not None and not isinstance(cur, (ast.FunctionDef, ast.AsyncFunctionDef)):
            cur = getattr(cur, "_parent", None)
        return cur is not None and cur is not getattr(self.fi, "node", None)

    def new_object(self, cls: ClassInfo) -> int:
        oid = len(self.__dict__.setdefault("objs", {})) + 1
        self.objs[oid] = {}
        self.__dict__.setdefault("obj_cls", {})[oid] = cls
        return oid

    def _buffer_attr(self, oid: int) -> str | None:
        return next((a for a, v in self.objs.get(oid, {}).items() if v is not None and v[0] == "buffer"), None)

    def store_attr(self, tgt: ast.Attribute, val) -> None:
        """`obj.attr = value` on a private mutable object of this path"""
        oid = self.mutable_of(tgt.value)
        k = self.obj_cls[oid]
        if any(c.lookup(tgt.attr) is not None or tgt.attr in c.attrs for c in k.mro() if c.name != "object"):
            raise Unknown(f"store to `{norm(tgt)[:40]}`: the class defines a member of that name")
        if val is not None and val[0] == "buffer" and self._buffer_attr(oid) not in (None, tgt.attr):
            raise Unknown(f"store to `{norm(tgt)[:40]}`: the object already keeps the buffer")
        self.objs[oid][tgt.attr] = val

    def _attr_value(self, x: ast.AST):
        """value stored into an attribute of a mutable object: the buffer itself, or whatever value_of makes of it"""
        return ("buffer", None) if self._is_data(x) else self.value_of(x)

    def _mutable_targets(self, tg: ast.AST) -> bool:
        return any(isinstance(t, ast.Attribute) and self.mutable_of(t.value) is not None for t in ast.walk(tg))

    def assign_target(self, t: ast.AST, val) -> None:
        if isinstance(t, ast.Attribute) and self.mutable_of(t.value) is not None:
            self.store_attr(t, val)
        elif val is not None and val[0] == "buffer":
            self.assign(norm(t), None)
            self.blind = f"the buffer kept under another name `{norm(t)[:30]}`"
        else:
            self.assign(norm(t), val)

    # ---- constant bindings / constant tables
    def subst(self, e: ast.AST) -> ast.AST:
        """e with a bound local replaced by the constant expression it stands for (also `spec[1]` of a bound tuple literal)."""
        e = strip_cast(e)
        for _ in range(6):
            if isinstance(e, ast.Name) and e.id in self.bind and e.id not in self.env:
                e = strip_cast(self.bind[e.id])
                continue
            if self.memo and isinstance(e, (ast.Subscript, ast.Call)):
                k = self.memo_key(e)
                if k is not None and k in self.memo:
                    e = strip_cast(self.memo[k])
                    continue
            if isinstance(e, ast.Subscript) and not isinstance(e.slice, ast.Slice) and isinstance(strip_cast(e.value), (ast.Name, ast.Subscript, ast.Attribute)):
                base = self.subst(e.value)
                i = const_value(e.slice)
                if isinstance(base, (ast.Tuple, ast.List)) and isinstance(i, int) and not isinstance(i, bool) and -len(base.elts) <= i < len(base.elts) \
                        and not any(isinstance(x, ast.Starred) for x in base.elts):
                    e = strip_cast(base.elts[i])
                    continue
            if isinstance(e, (ast.Subscript, ast.Attribute)) and not (isinstance(e, ast.Subscript) and isinstance(e.slice, ast.Slice)):
                # a part of a small result object: `entry.fmt` / `entry[1]` of a bound record display, `span.end` of a record local
                found, v = self._rec_part(e)
                if found and v is not None and v[0] == "const":
                    e = strip_cast(v[1])
                    continue
                if not found and isinstance(strip_cast(e.value), (ast.Name, ast.Subscript, ast.Attribute)):
                    base = self.subst(e.value)
                    parts = self.closed_record(base) if base is not strip_cast(e.value) else None
                    if parts is not None:
                        kind, items = parts
                        x = _pick(kind, items, e)
                        if x is not None:
                            e = strip_cast(x)
                            continue
                    elif base is not strip_cast(e.value) and isinstance(e, ast.Attribute) and isinstance(base, (ast.Name, ast.Attribute)) and self.closed(base):
                        # `packer.length_format` where the parameter `packer` stands for the caller's `self`: the same attribute of that object
                        e = ast.copy_location(ast.Attribute(value=base, attr=e.attr, ctx=ast.Load()), e)
                        break
            break
        return e

    # ---- small result objects (NamedTuple / dataclass / record class / tuple display / slice) held in a local or in a constant table
    def closed_record(self, e: ast.AST):
        """(kind, [(attribute | None, expr)]) when e is a display of a record whose parts are closed constant expressions."""
        e = strip_cast(e)
        if isinstance(e, (ast.Tuple, ast.List)):
            return None if any(isinstance(x, ast.Starred) for x in e.elts) else ("tuple", [(None, x) for x in e.elts])
        if not isinstance(e, ast.Call) or any(isinstance(a, ast.Starred) for a in e.args) or any(k.arg is None for k in e.keywords):
            return None
        got = record_fields_of_callee(self.pm.ctx.repo, self.fi.module, e.func, self._is_local)
        if got is None:
            return computed_display_items(self.pm.ctx.repo, self.fi.module, e, self._is_local)
        fields, kind = got
        pos = list(e.args)
        if kind == "slice" and len(pos) == 1 and not e.keywords:
            pos = [ast.Constant(value=None), pos[0]]
        if len(pos) > len(fields):
            return None
        given = {p: a for (p, _, _), a in zip(fields, pos)}
        for kw in e.keywords:
            if kw.arg in given or kw.arg not in {p for p, _, _ in fields}:
                return None
            given[kw.arg] = kw.value
        items = []
        for p_, attr, default in fields:
            v = given.get(p_, default)
            if v is None:
                return None
            items.append((attr, v))
        return kind, items

    def record_value(self, e: ast.AST):
        """(kind, [(attribute | None, value)]) when e evaluates to a small result object on this path: a record local, a display of one."""
        e = strip_cast(e)
        if isinstance(e, ast.Name):
            if e.id in self.recs:
                return self.recs[e.id]
            b = self.subst(e)
            if b is e:
                return None
            e = b
        if isinstance(e, (ast.Tuple, ast.List)):
            vals = self._arg_values(e.elts)
            return None if vals is None else ("tuple", [(None, v) for v in vals])
        if not isinstance(e, ast.Call) or any(k.arg is None for k in e.keywords):
            return None
        got = record_fields_of_callee(self.pm.ctx.repo, self.fi.module, e.func, self._is_local)
        if got is None:
            comp = computed_display_items(self.pm.ctx.repo, self.fi.module, e, self._is_local) if self.closed(e) else None
            return None if comp is None else (comp[0], [(a_, self.value_of(x)) for a_, x in comp[1]])
        fields, kind = got
        pos = self._arg_values(e.args)
        if pos is None:
            return None
        if kind == "slice" and len(pos) == 1 and not e.keywords:
            pos = [("const", ast.Constant(value=None)), pos[0]]
        if len(pos) > len(fields):
            return None
        given = {p: (v,) for (p, _, _), v in zip(fields, pos)}
        for kw in e.keywords:
            if kw.arg in given or kw.arg not in {p for p, _, _ in fields}:
                return None
            given[kw.arg] = (self.value_of(kw.value),)
        items = []
        for p_, attr, default in fields:
            if p_ in given:
                items.append((attr, given[p_][0]))
            elif default is not None:
                d = strip_cast(default)
                cv = const_value(d)
                items.append((attr, ("lin", Lin(cv)) if isinstance(cv, int) and not isinstance(cv, bool) else ("const", d)))
            else:
                return None
        return kind, items

    def _arg_values(self, exprs) -> list | None:
        """value_of every expression, `*rec` of a tuple-like record spliced in; None when a starred operand is not such a record"""
        out = []
        for x in exprs:
            if isinstance(x, ast.Starred):
                inner = self.record_value(x.value)
                if inner is None or inner[0] != "tuple":
                    return None
                out.extend(v for _, v in inner[1])
            else:
                out.append(self.value_of(x))
        return out

    def _rec_part(self, e: ast.AST):
        """(found, value) for `rec.attr` / `rec[i]` where rec is a record local (or a display of a record)"""
        e = strip_cast(e)
        if isinstance(e, ast.Attribute) or (isinstance(e, ast.Subscript) and not isinstance(e.slice, ast.Slice)):
            b = strip_cast(e.value)
            rec = None
            if isinstance(b, ast.Name):
                rec = self.recs.get(b.id)
                if rec is not None and rec[0] == "mutable" and self._foreign(b):
                    rec = None
            elif isinstance(b, ast.Call):
                rec = self.record_value(b)
            if rec is not None and rec[0] == "mutable":
                # an attribute of a private mutable object: what was last stored there on this path (nothing known: None)
                return True, (self.objs.get(rec[1][0], {}).get(e.attr) if isinstance(e, ast.Attribute) else None)
            if rec is not None:
                return True, _pick(rec[0], rec[1], e)
        return False, None

    def _is_local(self, name: str) -> bool:
        return name in self.fi.params() or name.startswith("\0") or bool(local_defs(self.fi, name))

    def closed(self, e: ast.AST) -> bool:
        """e mentions no local of the current function (so it means the same wherever it is evaluated on this path)."""
        if any(isinstance(n, ast.Name) and self._is_local(n.id) and n.id not in ("self", "cls") for n in ast.walk(e)):
            return False
        return self._call_free(e)

    def _call_free(self, e: ast.AST) -> bool:
        """no call / lambda / comprehension inside e - except displays of plain records (`_Layout(TAG, ">4sH", 6)`), which only name their parts"""
        if isinstance(e, (ast.Lambda, ast.ListComp, ast.GeneratorExp, ast.DictComp, ast.SetComp, ast.Await, ast.NamedExpr)):
            return False
        if isinstance(e, ast.Call):
            if any(isinstance(a, ast.Starred) for a in e.args) or any(k.arg is None for k in e.keywords) \
                    or (record_fields_of_callee(self.pm.ctx.repo, self.fi.module, e.func, self._is_local) is None
                        and computed_display_items(self.pm.ctx.repo, self.fi.module, e, self._is_local) is None):
                return False
            return all(self._call_free(x) for x in [*e.args, *[k.value for k in e.keywords]])
        return all(self._call_free(x) for x in ast.iter_child_nodes(e))

    def const_expr(self, e: ast.AST) -> ast.AST | None:
        """The literal (tuple / list / dict / set display) a module-level or class-level constant table denotes, if e names one."""
        return const_display(self.pm.ctx.repo, self.fi, self.fi.cls or self.pm.cls, self.subst(e))

    def table_entries(self, it: ast.AST) -> list[ast.AST] | None:
        """Elements a `for` over a constant table visits (tuple / list display, dict display -> keys, D.items() -> (key, value) pairs)."""
        return table_entries(self.const_expr, it)

    def bind_pattern(self, tgt: ast.AST, value: ast.AST) -> None:
        """Bind the names of an assignment / loop target to a closed constant expression (element-wise for tuple displays)."""
        value = self.subst(value)
        if isinstance(tgt, ast.Name):
            for d in (self.env, self.tuples, self.wire, self.bind, self.recs):
                d.pop(tgt.id, None)
            self.bind[tgt.id] = value
            return
        if isinstance(tgt, (ast.Tuple, ast.List)) and isinstance(value, (ast.Tuple, ast.List)) and len(tgt.elts) == len(value.elts) \
                and not any(isinstance(x, ast.Starred) for x in list(tgt.elts) + list(value.elts)):
            for t, v in zip(tgt.elts, value.elts):
                self.bind_pattern(t, v)
            return
        if isinstance(tgt, (ast.Tuple, ast.List)) and isinstance(value, ast.Call) and not any(isinstance(x, ast.Starred) for x in tgt.elts):
            rec = self.closed_record(value)          # `tag, fmt, size = entry` where entry is a NamedTuple display of a constant table
            if rec is not None and rec[0] == "tuple" and len(rec[1]) == len(tgt.elts):
                for t, (_, v) in zip(tgt.elts, rec[1]):
                    self.bind_pattern(t, v)
                return
        for n in ast.walk(tgt):
            if isinstance(n, ast.Name):
                for d in (self.env, self.tuples, self.wire, self.bind, self.recs):
                    d.pop(n.id, None)

    # ---- decisions under the assumed tag / bound constants
    def _tag_byte(self, x: ast.AST) -> bool:
        try:
            return bool(self.reads) and self.reads[0][0] == Lin.sym("offset") and _struct_chars(self.reads[0][2][len("struct:"):]) == "B" \
                and self.reads[0][2].startswith("struct:") and self.lin(x) == self.wsym(0, 0)
        except Unknown:
            return False

    def _tagval(self, y: ast.AST):
        y = self.subst(y)
        vals = self.assume[0]
        c = chain(y)
        if c is not None and c.split(".")[-1] in vals:
            return vals[c.split(".")[-1]]
        cv = self.pm.ctx.repo.resolve_const(self.fi.module, y, self.fi.cls)
        return cv if isinstance(cv, int) and not isinstance(cv, bool) else None

    def _none_ness(self, e: ast.AST) -> bool | None:
        """True: e is None; False: e is certainly not None; None: unknown (e is a closed constant expression)."""
        if isinstance(e, ast.Constant):
            return e.value is None
        if isinstance(e, (ast.Tuple, ast.List, ast.Dict, ast.Set, ast.Lambda, ast.JoinedStr)):
            return False
        if isinstance(e, ast.Call) and self.closed_record(e) is not None:
            return False
        repo = self.pm.ctx.repo
        if isinstance(e, ast.Attribute) and isinstance(e.value, ast.Name) and e.value.id in ("self", "cls"):
            k = self.fi.cls or self.pm.cls
            return False if k is not None and k.lookup(e.attr) is not None else None
        if isinstance(e, ast.Name):
            r = repo.resolve_name(self.fi.module, e.id)
            k = self.fi.cls or self.pm.cls
            if isinstance(r, (FuncInfo, ClassInfo)) or (r is None and k is not None and k.lookup(e.id) is not None):
                return False
        cv = repo.resolve_const(self.fi.module, e, self.fi.cls)
        return None if cv is NOCONST else cv is None

    def decide(self, atom: ast.AST) -> bool | None:
        """Outcome of a condition atom that is fixed by the assumed tag value or by a bound constant; None when it is open."""
        a = strip_cast(atom)
        if isinstance(a, (ast.Name, ast.Subscript, ast.Call)) and self.subst(a) is not a:
            v = self.subst(a)
            nn = self._none_ness(v)
            if nn is True:
                return False
            if isinstance(v, (ast.Tuple, ast.List, ast.Dict, ast.Set)):
                return bool(v.elts if not isinstance(v, ast.Dict) else v.keys)
            if isinstance(v, ast.Constant):
                return bool(v.value)
            if nn is False and isinstance(v, (ast.Attribute, ast.Name, ast.Lambda)):
                cv = self.pm.ctx.repo.resolve_const(self.fi.module, v, self.fi.cls)
                return True if cv is NOCONST else bool(cv)
            return None
        if not (isinstance(a, ast.Compare) and len(a.ops) == 1):
            return None
        op, l, r = a.ops[0], a.left, a.comparators[0]
        if isinstance(op, (ast.Is, ast.IsNot, ast.Eq, ast.NotEq)):
            for x, y in ((l, r), (r, l)):
                if isinstance(y, ast.Constant) and y.value is None and isinstance(strip_cast(x), (ast.Name, ast.Subscript, ast.Call)):
                    sx = self.subst(x)
                    if sx is not strip_cast(x):
                        nn = self._none_ness(sx)
                        if nn is not None:
                            return nn == isinstance(op, (ast.Is, ast.Eq))
        # a bound local compared with a constant: `kind is _Kind.IPV4` where kind stands for an entry of a constant table / a decision constant
        sl, sr = self.subst(l), self.subst(r)
        if sl is not strip_cast(l) or sr is not strip_cast(r):
            if isinstance(op, (ast.Eq, ast.NotEq, ast.Is, ast.IsNot)):
                eq = self._closed_equal(sl, sr)
                if eq is not None:
                    return eq == isinstance(op, (ast.Eq, ast.Is))
            elif isinstance(op, (ast.In, ast.NotIn)) and sl is not strip_cast(l):
                c = self.const_expr(r)
                if isinstance(c, (ast.Tuple, ast.List, ast.Set)) and not any(isinstance(x, ast.Starred) for x in c.elts):
                    eqs = [self._closed_equal(sl, self.subst(x)) for x in c.elts]
                    if any(q is True for q in eqs):
                        return isinstance(op, ast.In)
                    if all(q is False for q in eqs):
                        return isinstance(op, ast.NotIn)
        if self.assume is None:
            return None
        vals, tag = self.assume
        assumed = vals.get(tag, _NOTAG)
        if isinstance(op, (ast.Eq, ast.NotEq, ast.Is, ast.IsNot)):
            for x, y in ((l, r), (r, l)):
                if self._tag_byte(x):
                    tv = self._tagval(y)
                    if tv is None:
                        return None
                    return (assumed == tv) == isinstance(op, (ast.Eq, ast.Is))
        if isinstance(op, (ast.In, ast.NotIn)) and self._tag_byte(l):
            c = self.const_expr(r)
            elts = None
            if isinstance(c, (ast.Tuple, ast.List, ast.Set)):
                elts = list(c.elts)
            elif isinstance(c, ast.Dict) and all(k is not None for k in c.keys):
                elts = list(c.keys)
            if elts is not None:
                tvs = [self._tagval(x) for x in elts]
                if all(t is not None for t in tvs):
                    return (assumed in tvs) == isinstance(op, ast.In)
        return None

    def _enum_member(self, e: ast.AST):
        """(class, member name) when e is `K.NAME` with K an Enum class of /repo and NAME one of its members"""
        if isinstance(e, ast.Attribute) and isinstance(e.value, (ast.Name, ast.Attribute)):
            k = self.pm.ctx.repo.resolve_class_expr(self.fi.module, e.value)
            if k is not None and any(b.split(".")[-1] in ("Enum", "IntEnum", "Flag", "IntFlag", "StrEnum") for b in k.all_base_names()) \
                    and any(e.attr in c.attrs for c in k.mro()):
                return k, e.attr
        return None

    def _closed_equal(self, x: ast.AST, y: ast.AST) -> bool | None:
        """Do two closed constant expressions denote the same value?  None when that is not known."""
        x, y = strip_cast(x), strip_cast(y)
        if not (self.closed(x) and self.closed(y)):
            return None
        repo = self.pm.ctx.repo
        mx, my = self._enum_member(x), self._enum_member(y)
        if mx is not None and my is not None:
            if mx[0] is not my[0]:
                return False
            if mx[1] == my[1]:
                return True
            ax, ay = mx[0].lookup_attr(mx[1]), my[0].lookup_attr(my[1])
            vx, vy = (repo.resolve_const(mx[0].module, a, mx[0]) for a in (ax, ay))
            if vx is not NOCONST and vy is not NOCONST:
                return vx == vy and type(vx) is type(vy)       # equal values: one member under two names
            auto = [isinstance(a, ast.Call) and (chain(a.func) or "").split(".")[-1] == "auto" and not a.args for a in (ax, ay)]
            return False if all(auto) else None
        if mx is not None or my is not None:
            return None
        vx, vy = repo.resolve_const(self.fi.module, x, self.fi.cls), repo.resolve_const(self.fi.module, y, self.fi.cls)
        if vx is not NOCONST and vy is not NOCONST:
            return vx == vy
        if vx is NOCONST and vy is NOCONST:
            def named(e):
                if isinstance(e, ast.Name) and not self._is_local(e.id):
                    r = repo.resolve_name(self.fi.module, e.id)
                    return r if isinstance(r, (FuncInfo, ClassInfo)) else None
                if isinstance(e, ast.Attribute) and isinstance(e.value, ast.Name) and e.value.id in ("self", "cls"):
                    k = self.fi.cls or self.pm.cls
                    return k.lookup(e.attr) if k is not None else None
                return None
            nx, ny = named(x), named(y)
            if nx is not None and ny is not None:
                return nx == ny
        return None

    def cond(self, atom: ast.AST, lab) -> None:
        """A condition atom is evaluated with outcome `lab` on this path."""
        if lab in (True, False):
            v = self.decide(atom)
            if v is not None and v != lab:
                raise _Infeasible
            if v is None and self.assume is not None and self.open_tag is None and self._depends_on_tag(atom):
                self.open_tag = norm(atom)[:60]          # a test that hangs on the type tag was left open: both outcomes are followed
            self.conds.append((atom, lab))
        self.scan_reads(atom)

    def _depends_on_tag(self, e: ast.AST, depth: int = 0) -> bool:
        """e mentions the first wire byte, or a local whose (unknown) value was computed from it (flow-insensitive over-approximation)"""
        if depth > 4:
            return False
        for n in ast.walk(e):
            if isinstance(n, ast.Subscript) and id(n) in self.byte_of and self.byte_of[id(n)] == 0 and self._tag_byte(n):
                return True
            if not isinstance(n, ast.Name) or n.id in ("self", "cls"):
                continue
            if n.id in self.env:
                if self._tag_byte(n):
                    return True
                continue
            if n.id in self.bind or n.id in self.tuples or n.id in self.recs or not self._is_local(n.id):
                continue
            for _, val, _ in local_defs(self.fi, n.id):
                if val is not None and self._depends_on_tag(val, depth + 1):
                    return True
        return False

    # ---- constant-table lookups: `x = TABLE[key]` / `TABLE.get(key[, default])`
    def table_lookup(self, v: ast.AST):
        """(dict display, key expression, default expression | None, raises_when_missing) if v looks a key up in a constant dict; else None."""
        v = strip_cast(v)
        if isinstance(v, ast.Subscript) and not isinstance(v.slice, ast.Slice):
            d = self.const_expr(v.value) if isinstance(strip_cast(v.value), (ast.Name, ast.Attribute, ast.Dict)) else None
            if isinstance(d, ast.Dict) and all(k is not None for k in d.keys):
                return d, v.slice, None, True
        if isinstance(v, ast.Call) and isinstance(v.func, ast.Attribute) and v.func.attr == "get" and 1 <= len(v.args) <= 2 and not v.keywords:
            d = self.const_expr(v.func.value) if isinstance(strip_cast(v.func.value), (ast.Name, ast.Attribute, ast.Dict)) else None
            if isinstance(d, ast.Dict) and all(k is not None for k in d.keys):
                return d, v.args[0], (v.args[1] if len(v.args) == 2 else ast.Constant(value=None)), False
        return None

    def memo_key(self, v: ast.AST):
        t = self.table_lookup(v)
        if t is None:
            return None
        d, key, default, raises = t
        try:
            kv = str(self.lin(key))
        except Unknown:
            kv = "?" + norm(self.subst(key))
        return (ast.dump(d), kv, raises, None if default is None else ast.dump(self.subst(default)))

    def lookup_alternatives(self, v: ast.AST) -> list[ast.AST] | None:
        """The closed expressions a constant-dict lookup may yield on this path (one under an assumed tag); raises _Infeasible for a KeyError."""
        t = self.table_lookup(v)
        if t is None:
            return None
        d, key, default, raises = t
        if default is not None:
            default = self.subst(default)
            if not self.closed(default):
                return None
        if not all(self.closed(x) for x in d.values):
            return None
        if self.assume is not None and self._tag_byte(key):
            vals, tag = self.assume
            assumed = vals.get(tag, _NOTAG)
            tvs = [self._tagval(k) for k in d.keys]
            if all(tv is not None for tv in tvs):
                hit = [val for tv, val in zip(tvs, d.values) if tv == assumed]
                if hit:
                    return [hit[-1]]
                if raises:
                    raise _Infeasible
                return [default]
        return list(d.values) + ([] if raises else [default])

    def _struct_key(self, e: ast.AST) -> str | None:
        """key of the precompiled struct e denotes: `self.X` / a module or class constant / an inline `Struct(fmt)` / a local holding one"""
        own_self = "self" in self.bind or ("self" in self.recs and self.recs["self"][0] == "mutable" and not self._foreign(e))
        k = self.pm.struct_of(e) if not (own_self and (chain(e) or "").startswith("self.")) else None
        if k is not None:
            return k
        e = strip_cast(e)
        k = self.pm.struct_of_call(e, self.subst)
        if k is not None:
            return k
        if isinstance(e, (ast.Attribute, ast.Subscript)):
            b = self.subst(e)          # `family.body` / `self.body` of a bound record display whose part is `Struct(">4sH")`; an entry of a table of structs
            if b is not e:
                return self.pm.struct_of(b) or self.pm.struct_of_call(b, self.subst)
        if isinstance(e, ast.Name) and self._is_local(e.id) and e.id not in self.fi.params():
            d = single_def(self.fi, e.id)
            if d is not None and d[1] is None:
                return self.pm.struct_of_call(d[0], self.subst)
        if isinstance(e, ast.Name) and e.id in self.bind:
            b = self.subst(e)
            return self.pm.struct_of(b) if b is not e else None
        return None

    def wsym(self, read: int, index: int) -> Lin:
        """Symbol of value `index` of struct read number `read` (named by position of the read, not by the local it is stored in)."""
        return Lin.sym(f"wire{read}[{index}]")

    def wire_tuple(self, e: ast.AST) -> int | None:
        """Read index if e evaluates to the whole value tuple of an unpack_from on the data buffer."""
        e = strip_cast(e)
        if isinstance(e, ast.Call) and id(e) in self.read_of:
            return self.read_of[id(e)]
        if isinstance(e, ast.Name) and e.id in self.tuples:
            return self.tuples[e.id]
        return None

    def lin(self, e: ast.AST) -> Lin:
        e = strip_cast(e)
        cv = const_value(e)
        if isinstance(cv, int) and not isinstance(cv, bool):
            return Lin(cv)
        if isinstance(e, ast.Subscript) and id(e) in self.byte_of:
            return self.wsym(self.byte_of[id(e)], 0)
        if isinstance(e, (ast.Attribute, ast.Subscript)):
            found, v = self._rec_part(e)
            if found:
                if v is not None and v[0] == "lin":
                    return v[1]
                if v is not None and v[0] == "const":
                    return self.lin(v[1])
                raise Unknown(f"part `{norm(e)[:40]}` of a result object")
        if isinstance(e, (ast.Name, ast.Subscript, ast.Attribute)):
            b = self.subst(e)
            if b is not e:
                return self.lin(b)
        if isinstance(e, ast.Name):
            if e.id in self.env:
                return self.env[e.id]
            if e.id not in self.fi.params() and not local_defs(self.fi, e.id):
                c = self.pm.ctx.repo.resolve_const(self.fi.module, e, self.fi.cls)      # module-level integer constant
                if isinstance(c, int) and not isinstance(c, bool):
                    return Lin(c)
            raise Unknown(f"name {e.id}")
        if isinstance(e, ast.Attribute) and e.attr == "size" and self._struct_key(e.value) is not None:
            return self.pm.struct_size(self._struct_key(e.value))
        if isinstance(e, ast.Attribute) and chain(e) and chain(e).startswith("self."):
            a = e.attr
            if a in self.pm.size_attr and chain(e).count(".") == 1:
                v = self.pm.size_attr[a]
                m = re.fullmatch(r"size\('([^']*)'\)", v)
                return Lin(struct.calcsize(m.group(1))) if m else Lin.sym(v)
            if chain(e).count(".") == 1 and "self" not in self.bind:
                # a read-only @property view (`length_size` -> `self._prefix.size`): the expression its getter returns, on the same object
                pe = self.pm.property_value(a)
                if pe is not None and self._prop_depth < 4:
                    self._prop_depth += 1
                    try:
                        return self.lin(pe)
                    finally:
                        self._prop_depth -= 1
            return Lin.sym(chain(e))
        if isinstance(e, ast.Call) and chain(e.func) in ("calcsize", "struct.calcsize") and len(e.args) == 1:
            return self.pm.fmt_size(self.subst(e.args[0]))
        if isinstance(e, ast.BinOp):
            if isinstance(e.op, ast.Add):
                return self.lin(e.left) + self.lin(e.right)
            if isinstance(e.op, ast.Sub):
                return self.lin(e.left) - self.lin(e.right)
            if isinstance(e.op, ast.Mult):
                l, r = self.lin(e.left), self.lin(e.right)
                if not l.t:
                    return r.scale(l.c)
                if not r.t:
                    return l.scale(r.c)
                if len(l.t) == 1 and not l.c and len(r.t) == 1 and not r.c:
                    (a, ca), (b, cb) = next(iter(l.t.items())), next(iter(r.t.items()))
                    return Lin(0, {"*".join(sorted([a, b])): ca * cb})
        if isinstance(e, ast.Call) and chain(e.func) == "len" and chain(e.args[0]) == self.data:
            return Lin.sym("len(data)")
        if isinstance(e, ast.Subscript) and not isinstance(e.slice, ast.Slice):
            r, i = self.wire_tuple(e.value), const_value(e.slice)
            if r is not None and isinstance(i, int) and not isinstance(i, bool) and i >= 0:
                return self.wsym(r, i)
        raise Unknown(f"expression `{norm(e)[:50]}`")

    _VIEWS = ("memoryview", "bytes", "bytearray")

    def _is_data(self, x: ast.AST, depth: int = 0) -> bool:
        """x denotes the data buffer: its name, a view / copy of it (`memoryview(data)`, `bytes(data)`), or a local that holds one"""
        if self.data is None or x is None or depth > 3:
            return False
        x = strip_cast(x)
        if isinstance(x, ast.Attribute):
            return chain(x) == self.data        # the buffer as the frame knows it through a mutable object: `self.data` / `cursor.data`
        if isinstance(x, ast.Name):
            if x.id == self.data:
                return True
            if self._is_local(x.id) and x.id not in self.fi.params():
                d = single_def(self.fi, x.id)
                return d is not None and d[1] is None and isinstance(strip_cast(d[0]), ast.Call) and self._is_data(d[0], depth + 1)
            return False
        return isinstance(x, ast.Call) and chain(x.func) in self._VIEWS and len(x.args) == 1 and not x.keywords and self._is_data(x.args[0], depth + 1)

    def scan_reads(self, e: ast.AST) -> None:  # noqa: C901, PLR0912, PLR0915
        """Record unpack_from calls and slices of the data buffer inside an expression (in source order)."""
        self.seen.append(e)
        nodes = sorted((n for n in ast.walk(e) if isinstance(n, (ast.Call, ast.Subscript))), key=lambda n: (getattr(n, "lineno", 0), getattr(n, "col_offset", 0)))
        self.count_deliveries(e)
        inner_done: set[int] = set()
        for n in nodes:
            if id(n) in inner_done:
                continue
            if isinstance(n, ast.Call) and chain(n.func) in ("unpack_from", "struct.unpack_from") and self._is_data(arg(n, 1, "buffer")):
                off = arg(n, 2, "offset")
                start = self.lin(off) if off is not None else Lin(0)
                self.read_of[id(n)] = len(self.reads)
                f = self.subst(n.args[0])
                self.reads.append((start, self.pm.fmt_size(f), "struct:" + (const_value(f) if isinstance(const_value(f), str) else norm(f))))
            elif isinstance(n, ast.Subscript) and not isinstance(n.slice, ast.Slice) and self._is_data(n.value):
                sl = self.record_value(n.slice)
                if sl is not None and sl[0] == "slice":
                    # data[slice(a, b)] / data[slice(*span)] / data[body] with body = slice(a, b): the bytes data[a:b]
                    lo_v, hi_v, step_v = (v for _, v in sl[1])

                    def is_none(v) -> bool:
                        return v is not None and v[0] == "const" and isinstance(v[1], ast.Constant) and v[1].value is None

                    def as_lin(v) -> Lin:
                        if v is not None and v[0] == "lin":
                            return v[1]
                        if v is not None and v[0] == "const":
                            return self.lin(v[1])
                        raise Unknown(f"bound of `{norm(n)[:40]}`")
                    if not is_none(step_v):
                        raise Unknown(f"stepped slice `{norm(n)[:40]}`")
                    lo = Lin(0) if is_none(lo_v) else as_lin(lo_v)
                    if is_none(hi_v):
                        self.reads.append((lo, Lin.sym("len(data)") - lo, "rest"))
                    else:
                        self.reads.append((lo, as_lin(hi_v) - lo, "bytes"))
                    continue
                # data[i]: one unsigned byte, the same value as unpack_from(">B", data, i)[0]
                self.byte_of[id(n)] = len(self.reads)
                self.reads.append((self.lin(n.slice), Lin(1), "struct:>B"))
            elif isinstance(n, ast.Call) and isinstance(n.func, ast.Attribute) and n.func.attr == "unpack_from" and self._struct_key(n.func.value) is not None \
                    and self._is_data(arg(n, 0, "buffer")):
                x = self._struct_key(n.func.value)
                off = arg(n, 1, "offset")
                start = self.lin(off) if off is not None else Lin(0)
                self.read_of[id(n)] = len(self.reads)
                self.reads.append((start, self.pm.struct_size(x), "struct:" + self.pm.struct_fmt_text(x)))
            elif isinstance(n, ast.Subscript) and isinstance(n.slice, ast.Slice) and isinstance(strip_cast(n.value), ast.Subscript) \
                    and isinstance(strip_cast(n.value).slice, ast.Slice) and self._is_data(strip_cast(n.value).value) \
                    and strip_cast(n.value).slice.upper is None and strip_cast(n.value).slice.step is None and n.slice.step is None and n.slice.upper is not None:
                # data[a:][:n] / data[a:][k:n]: the bytes data[a + k : a + n] (both spellings stop at the end of the buffer)
                innr = strip_cast(n.value)
                inner_done.add(id(innr))
                base = self.lin(innr.slice.lower) if innr.slice.lower is not None else Lin(0)
                lo = base + (self.lin(n.slice.lower) if n.slice.lower is not None else Lin(0))
                self.reads.append((lo, base + self.lin(n.slice.upper) - lo, "bytes"))
            elif isinstance(n, ast.Subscript) and isinstance(n.slice, ast.Slice) and self._is_data(n.value):
                if n.slice.step is not None:
                    raise Unknown(f"stepped slice `{norm(n)[:40]}`")
                lo = self.lin(n.slice.lower) if n.slice.lower is not None else Lin(0)
                if n.slice.upper is None:
                    self.reads.append((lo, Lin.sym("len(data)") - lo, "rest"))
                else:
                    self.reads.append((lo, self.lin(n.slice.upper) - lo, "bytes"))
            elif isinstance(n, ast.Call) and chain(n.func) in ("islice", "itertools.islice") and n.args and self._is_data(n.args[0]) and not n.keywords:
                # islice(data, a, b): the elements (bytes) data[a:b]
                bounds = n.args[1:]
                if len(bounds) == 1:
                    bounds = [ast.Constant(value=0), bounds[0]]
                if len(bounds) != 2:
                    raise Unknown(f"stepped islice `{norm(n)[:40]}`")
                lo = Lin(0) if const_value(bounds[0]) is None else self.lin(bounds[0])
                if const_value(bounds[1]) is None:
                    self.reads.append((lo, Lin.sym("len(data)") - lo, "rest"))
                else:
                    self.reads.append((lo, self.lin(bounds[1]) - lo, "bytes"))
        self._check_buffer_uses(e)
        self.convs |= _addr_conversions([e], self)

    def _check_buffer_uses(self, e: ast.AST) -> None:
        """Every mention of the data buffer in an evaluated expression must be one of the uses this run accounts for (a read, its length, a
        view, a delegation); anything else may read bytes behind the run's back - then nothing is concluded about the path (Unknown)."""
        if self.data is None:
            return
        if self.objs:
            for n in ast.walk(e):
                # a private mutable object that keeps the buffer / the read position: the only uses this run accounts for are reads of its
                # plain attributes (`cursor.offset`) and the buffer it keeps under the name this frame knows it by; an unfollowed method call,
                # handing the object on, storing it somewhere may read bytes / move the position behind the run's back
                if not (isinstance(n, ast.Name) and isinstance(n.ctx, ast.Load) and self.mutable_of(n) is not None) or n is e:
                    continue
                par = getattr(n, "_parent", None)
                if par is None:
                    continue
                ok = isinstance(par, ast.Attribute) and par.value is n and isinstance(par.ctx, ast.Load)
                if ok:
                    gp = getattr(par, "_parent", None)
                    if isinstance(gp, ast.Call) and gp.func is par:
                        ok = False
                    v = self.objs.get(self.mutable_of(n), {}).get(par.attr)
                    if v is not None and v[0] == "buffer" and chain(par) != self.data:
                        ok = False
                if not ok:
                    if self.blind is None:
                        self.blind = f"use of the reader object in `{norm(par)[:50]}`"
                    return
        for n in ast.walk(e):
            if not ((isinstance(n, ast.Name) and n.id == self.data) or (isinstance(n, ast.Attribute) and "." in self.data and chain(n) == self.data)) \
                    or not isinstance(n.ctx, ast.Load):
                continue
            par = getattr(n, "_parent", None)
            while isinstance(par, ast.Call) and chain(par.func) in ("cast", "typing.cast") and n in par.args:
                n, par = par, getattr(par, "_parent", None)
            if par is None or n is e:
                continue
            if isinstance(par, ast.Subscript) and par.value is n:
                continue
            if isinstance(par, (ast.Compare, ast.BoolOp, ast.UnaryOp, ast.IfExp, ast.FormattedValue, ast.If, ast.While, ast.Assert)):
                continue
            if isinstance(par, ast.keyword):
                par = getattr(par, "_parent", None)
            if isinstance(par, ast.Call):
                c = chain(par.func) or ""
                last = c.split(".")[-1]
                if c in ("len", "id", "type", "isinstance", "hexlify", "repr", "str") or c in self._VIEWS or last in ("unpack_from", "islice") \
                        or last in _NOT_FOLLOWED or last in ("hexlify", "hex"):
                    continue
            if self.blind is None:
                self.blind = f"use of the buffer in `{norm(par if par is not None else n)[:50]}`"
            return

    # ---- values delivered to the unpack list
    def seq_len(self, e: ast.AST, depth: int = 0) -> int | None:
        """number of elements of a sequence expression when that is fixed: a display, a comprehension / map over a constant table or range(k)"""
        e = strip_cast(e)
        if depth > 4:
            return None
        if isinstance(e, (ast.List, ast.Tuple, ast.Set)) and not isinstance(e, ast.Set):
            n = 0
            for x in e.elts:
                if isinstance(x, ast.Starred):
                    k = self.seq_len(x.value, depth + 1)
                    if k is None:
                        return None
                    n += k
                else:
                    n += 1
            return n
        if isinstance(e, (ast.ListComp, ast.GeneratorExp)) and len(e.generators) == 1 and not e.generators[0].ifs and not e.generators[0].is_async:
            return self.seq_len(e.generators[0].iter, depth + 1)
        if isinstance(e, ast.Call) and not e.keywords:
            c = chain(e.func)
            if c in ("list", "tuple", "reversed", "iter", "sorted") and len(e.args) == 1:
                return self.seq_len(e.args[0], depth + 1)
            if c == "map" and len(e.args) == 2:
                return self.seq_len(e.args[1], depth + 1)
            if c == "enumerate" and len(e.args) >= 1:
                return self.seq_len(e.args[0], depth + 1)
            if c == "zip" and e.args:
                ks = [self.seq_len(a, depth + 1) for a in e.args]
                return None if any(k is None for k in ks) else min(ks)
            if c == "range" and 1 <= len(e.args) <= 3:
                vals = [self.pm.ctx.repo.resolve_const(self.fi.module, a, self.fi.cls) for a in e.args]
                if all(isinstance(v, int) and not isinstance(v, bool) for v in vals):
                    try:
                        return len(range(*vals))
                    except ValueError:
                        return None
        if isinstance(e, ast.Name) and self._is_local(e.id):
            if e.id in self.fi.params() and e.id not in self.bind:
                return None
            v = strip_cast(self.bind[e.id]) if e.id in self.bind else None
            if v is None:
                d = single_def(self.fi, e.id)
                v = strip_cast(d[0]) if d is not None and d[1] is None else None
            if v is None:
                return None
            mentions = sum(1 for n in ast.walk(self.fi.node) if isinstance(n, ast.Name) and n.id == e.id)
            # a tuple keeps its length; a list only if nothing else ever touches it (it may be filled by the callee it is handed to)
            if isinstance(v, (ast.List, ast.Set, ast.Dict, ast.ListComp)) or (isinstance(v, ast.Call) and chain(v.func) in ("list", "set", "dict", "bytearray")):
                return self.seq_len(v, depth + 1) if mentions <= 2 and e.id not in self.fi.params() else None
            return self.seq_len(v, depth + 1)
        entries = self.table_entries(e)
        if entries is not None:
            return len(entries)
        cv = self.pm.ctx.repo.resolve_const(self.fi.module, self.subst(e), self.fi.cls)
        if isinstance(cv, (tuple, list, str, bytes)):
            return len(cv)
        return None

    def count_deliveries(self, e: ast.AST) -> None:
        """`out.append(x)` / `out.extend(seq)` / `out.insert(i, x)` inside an evaluated expression add to the number of delivered values"""
        if self.out is None or self.n_out is None:
            return
        for n in ast.walk(e):
            if isinstance(n, ast.Name) and n.id == self.out:
                par = getattr(n, "_parent", None)
                if isinstance(par, ast.Attribute) and par.value is n and isinstance(getattr(par, "_parent", None), ast.Call) and par._parent.func is par:
                    call, meth = par._parent, par.attr
                    if meth == "append" and len(call.args) == 1 and not call.keywords and not isinstance(call.args[0], ast.Starred):
                        k = 1
                    elif meth == "insert" and len(call.args) == 2 and not call.keywords:
                        k = 1
                    elif meth == "extend" and len(call.args) == 1 and not call.keywords:
                        k = self.seq_len(call.args[0])
                    elif meth in ("index", "count", "copy", "__len__"):
                        k = 0
                    else:
                        k = None
                    in_loop = any(isinstance(a, (ast.For, ast.While, ast.AsyncFor, ast.ListComp, ast.GeneratorExp, ast.SetComp, ast.DictComp, ast.Lambda))
                                  for a in ancestors(n))
                    self.n_out = None if k is None or in_loop else self.n_out + k
                elif isinstance(par, ast.Call) and chain(par.func) == "len":
                    pass
                elif isinstance(par, (ast.Subscript, ast.Compare, ast.If, ast.While, ast.BoolOp, ast.UnaryOp)) or isinstance(n.ctx, ast.Load) and isinstance(par, ast.Expr):
                    pass              # reading the list does not deliver anything
                else:
                    self.n_out = None     # handed on / rebound / aliased: not followed here
                if self.n_out is None:
                    return

    def enter_loop(self, loop: ast.For) -> None:
        """The body of `for .. in range(N)` is entered: remember N as a linear form (None when it is not one)."""
        it = strip_cast(loop.iter)
        n = None
        if isinstance(it, ast.Call) and chain(it.func) == "range" and 1 <= len(it.args) <= 3 and not it.keywords:
            try:
                if len(it.args) == 1:
                    n = self.lin(it.args[0])
                elif len(it.args) == 2 or const_value(it.args[2]) == 1:
                    n = self.lin(it.args[1]) - self.lin(it.args[0])       # range(a, b[, 1]): b - a rounds (for b >= a)
            except Unknown:
                n = None
        self.loops.append((_orig(loop), n))
        for t in ast.walk(loop.target):
            if isinstance(t, ast.Name):
                self.env.pop(t.id, None)
                self.tuples.pop(t.id, None)
                self.recs.pop(t.id, None)

    def value_of(self, x: ast.AST):
        """What one right-hand side evaluates to on this path: ("tuple", read) | ("lin", Lin) | ("const", closed expr) | None (unknown)."""
        r = self.wire_tuple(x)
        if r is not None:
            return ("tuple", r)
        found, v = self._rec_part(x)
        if found:
            return v
        b = self.subst(x)
        cv = const_value(b)
        if self.closed(b) and not (isinstance(cv, int) and not isinstance(cv, bool)):
            return ("const", b)          # `self.length_format`, ">4sH", socket.AF_INET, a class: lin() still evaluates it through the binding
        try:
            return ("lin", self.lin(x))
        except Unknown:
            pass
        rec = self.record_value(x)       # a small result object built from values of this path: `_Span(start, start + n)`, `(start, end)`, a record local
        if rec is not None:
            return ("rec", rec[0], rec[1])
        return None

    def assign(self, nm: str, val) -> None:
        for d in (self.tuples, self.env, self.wire, self.bind, self.recs):
            d.pop(nm, None)
        if val is None:
            return
        if val[0] == "buffer":
            self.blind = f"the buffer kept under another name `{nm[:30]}`"
            return
        if val[0] == "tuple":
            self.tuples[nm] = val[1]
        elif val[0] == "const":
            self.bind[nm] = val[1]
        elif val[0] == "rec":
            self.recs[nm] = (val[1], list(val[2]))
        else:
            self.env[nm] = val[1]
            if any(k.startswith("wire") for k in val[1].t):
                self.wire[nm] = str(val[1])

    # ---- followed helpers: a frame per call, sharing the reads / conditions of the path
    def push_frame(self, callee: FuncInfo, call: ast.Call, skip_first: bool, recv_value: ast.AST | None = None) -> None:
        a = callee.node.args
        if a.vararg or a.kwarg or any(isinstance(x, ast.Starred) for x in call.args) or any(k.arg is None for k in call.keywords):
            raise Unknown(f"call of helper {callee.qualname} with * / **")
        params = [x.arg for x in a.posonlyargs + a.args]
        recv = params[0] if skip_first and params else None
        pos = params[1:] if skip_first else params
        if len(call.args) > len(pos):
            raise Unknown(f"call of helper {callee.qualname}: too many arguments")
        given: dict[str, ast.AST] = dict(zip(pos, call.args))
        for k in call.keywords:
            given[k.arg] = k.value
        defaults = dict(zip(params[len(params) - len(a.defaults):], a.defaults))
        for kw, d in zip(a.kwonlyargs, a.kw_defaults):
            pos.append(kw.arg)
            if d is not None:
                defaults[kw.arg] = d
        env, tuples, bind, data, recs, out = {}, {}, {}, None, {}, None
        for prm in pos:
            if prm in given:
                x = given[prm]
                if chain(x) == self.data and self.data is not None:
                    data = prm
                    continue
                if self.out is not None and chain(x) == self.out:
                    out = prm
                    continue
                val = self.value_of(x)
            elif prm in defaults:
                d = strip_cast(defaults[prm])
                val = ("const", d)
                cv = const_value(d)
                if isinstance(cv, int) and not isinstance(cv, bool):
                    val = ("lin", Lin(cv))
            else:
                raise Unknown(f"call of helper {callee.qualname}: no argument for {prm}")
            if val is None:
                continue
            if val[0] == "tuple":
                tuples[prm] = val[1]
            elif val[0] == "lin":
                env[prm] = val[1]
            elif val[0] == "rec":
                recs[prm] = (val[1], list(val[2]))
            else:
                bind[prm] = val[1]
        if isinstance(recv_value, _ObjRef):
            if recv is None:
                raise Unknown(f"call of {callee.qualname} on a reader object: no receiver parameter")
            if recv_value.oid is None:
                recv_value.oid = self.new_object(recv_value.cls)      # `K(..)`: a fresh object, filled by the constructor that is followed
            recs[recv] = ("mutable", [recv_value.oid])
        elif recv_value is not None and recv is not None:
            bind[recv] = recv_value       # a method of a record object held in a constant table: its `self` is that display
        if data is None:
            # the buffer reaches the helper inside a mutable object (`self.data` of the cursor it is a method of / that it was handed)
            for prm, rec in recs.items():
                if rec[0] == "mutable" and self._buffer_attr(rec[1][0]) is not None:
                    data = f"{prm}.{self._buffer_attr(rec[1][0])}"
                    break
        self.frames.append((self.fi, self.data, self.off, self.env, self.tuples, self.bind, self.wire, recv, self.recs, self.out))
        self.fi, self.data, self.off, self.out = callee, (data if data is not None else "\0no buffer"), None, out
        self.env, self.tuples, self.bind, self.wire, self.recs = env, tuples, bind, {}, recs
        self.retvals = None

    def finish_frame(self, ret: ast.Return | None) -> None:
        """The followed helper returns: evaluate its result in its own frame, then restore the caller's frame."""
        vals = None
        if ret is not None and ret.value is not None:
            self.scan_reads(ret.value)
            v = strip_cast(ret.value)
            lit = self.subst(v) if isinstance(v, (ast.Name, ast.Subscript)) else v
            if isinstance(lit, ast.Tuple) and not any(isinstance(x, ast.Starred) for x in lit.elts):
                vals = [self.value_of(x) for x in lit.elts]
            else:
                vals = self.value_of(v)
        fi, data, off, env, tuples, bind, wire, _, recs, out = self.frames.pop()
        self.fi, self.data, self.off, self.out = fi, data, off, out
        self.env, self.tuples, self.bind, self.wire, self.recs = dict(env), dict(tuples), dict(bind), dict(wire), dict(recs)
        self.retvals = vals

    def enter_while(self, loop: ast.While) -> None:
        """
        `while` driven by a counter: `c = N ... while c > 0: ...; c -= 1` (also `while c`, `c != 0`, `c >= 1`) or
        `i = 0 ... while i < N: ...; i += 1` (also `i != N`, `N > i`): the number of rounds as a linear form, evaluated where the loop starts.
        """
        if any(l is _orig(loop) for l, _ in self.loops):
            return
        n = None
        body_nodes = [x for st in loop.body for x in walk_no_nested(st)]
        jumps = any(isinstance(x, (ast.Break, ast.Continue)) for x in body_nodes)

        def steps(name: str):
            """the single top-level `name += k` / `name -= k` of the loop body, if that is the only store to name in the loop"""
            stores_ = [x for x in body_nodes if isinstance(x, ast.Name) and x.id == name and isinstance(x.ctx, ast.Store)]
            top = [st for st in loop.body if isinstance(st, ast.AugAssign) and isinstance(st.target, ast.Name) and st.target.id == name
                   and isinstance(st.op, (ast.Add, ast.Sub)) and const_value(st.value) == 1]
            if len(stores_) == 1 and len(top) == 1:
                return 1 if isinstance(top[0].op, ast.Add) else -1
            return None

        def stored(e: ast.AST) -> bool:
            names = {x.id for x in ast.walk(e) if isinstance(x, ast.Name)}
            return any(isinstance(x, ast.Name) and x.id in names and isinstance(x.ctx, ast.Store) for x in body_nodes)
        t = strip_cast(loop.test)
        try:
            if not jumps and not loop.orelse:
                if isinstance(t, ast.Name) and steps(t.id) == -1:
                    n = self.lin(t)
                elif isinstance(t, ast.Compare) and len(t.ops) == 1:
                    l, op, r = t.left, t.ops[0], t.comparators[0]
                    if isinstance(op, ast.Lt) or (isinstance(op, ast.LtE)):
                        l, op, r = r, (ast.Gt() if isinstance(op, ast.Lt) else ast.GtE()), l          # a < b  ==  b > a
                    if isinstance(l, ast.Name) and steps(l.id) == -1 and ((isinstance(op, (ast.Gt, ast.NotEq)) and const_value(r) == 0)
                                                                          or (isinstance(op, ast.GtE) and const_value(r) == 1)):
                        n = self.lin(l)                       # counts down to zero
                    elif isinstance(r, ast.Name) and steps(r.id) == 1 and isinstance(op, ast.Gt) and not stored(l):
                        n = self.lin(l) - self.lin(r)         # N > i, i counts up
                    elif isinstance(op, ast.NotEq):
                        for i_, n_ in ((l, r), (r, l)):
                            if isinstance(i_, ast.Name) and steps(i_.id) == 1 and not stored(n_):
                                n = self.lin(n_) - self.lin(i_)
        except Unknown:
            n = None
        self.loops.append((_orig(loop), n))

    def define_wire(self, targets: list[str], value: ast.AST) -> None:
        for t in targets:
            self.fresh += 1
            self.env[t] = Lin.sym(f"w:{t}")
            self.wire[t] = norm(value)

    def stmt(self, s: ast.AST) -> None:  # noqa: C901, PLR0912
        if isinstance(s, ast.Expr) and isinstance(s.value, ast.Constant):
            return
        if isinstance(s, (ast.Assign, ast.AnnAssign)):
            v = s.value
            if v is None:
                return
            tg = s.targets[0] if isinstance(s, ast.Assign) else s.target
            core = strip_cast(v)
            if self.out is not None and any(isinstance(n, ast.Name) and n.id == self.out for t in (s.targets if isinstance(s, ast.Assign) else [s.target])
                                            for n in ast.walk(t)):
                self.n_out = None         # the unpack list is rebound / stored into: what is delivered is not followed
            if self.objs and any(self._mutable_targets(t) for t in (s.targets if isinstance(s, ast.Assign) else [s.target])):
                # `self.offset = offset` / `start, self.offset = self.offset, self.offset + size` on a private mutable object: every right-hand
                # side is evaluated first (in the state before the statement), then each target receives its value
                self.scan_reads(v)
                tgs = s.targets if isinstance(s, ast.Assign) else [s.target]
                if len(tgs) == 1 and isinstance(tg, (ast.Tuple, ast.List)):
                    lit = self.subst(core) if isinstance(core, (ast.Name, ast.Subscript, ast.Call, ast.Attribute)) else core
                    if isinstance(lit, (ast.Tuple, ast.List)) and len(lit.elts) == len(tg.elts) \
                            and not any(isinstance(x, (ast.Starred, ast.Tuple, ast.List)) for x in list(tg.elts)) and not any(isinstance(x, ast.Starred) for x in lit.elts):
                        vals = [self._attr_value(x) for x in lit.elts]
                        for t, val in zip(tg.elts, vals):
                            self.assign_target(t, val)
                        return
                    vals = None
                else:
                    vals = self._attr_value(v)
                for t0 in tgs:
                    if isinstance(t0, (ast.Tuple, ast.List)):
                        for t in ast.walk(t0):
                            if isinstance(t, ast.Attribute) and self.mutable_of(t.value) is not None:
                                self.store_attr(t, None)
                            elif isinstance(t, ast.Name):
                                self.assign(t.id, None)
                    else:
                        self.assign_target(t0, vals)
                return
            # delegated unpack: (value, offset) = X.unpack(fmt, data, offset)  |  offset = X.unpack(data, offset, ...)
            if isinstance(core, ast.Call) and call_name(core) == "unpack" and any(chain(a) == self.data for a in core.args):
                offarg = [a for a in core.args if chain(a) in self.env and a is not core.args[0] or (chain(a) == self.off)]
                start = None
                for a in core.args:
                    if isinstance(a, ast.Name) and a.id in self.env and a.id != self.data:
                        start = self.env[a.id]
                if start is None:
                    raise Unknown("delegated unpack without offset argument")
                self.fresh += 1
                end = Lin.sym(f"delegate{self.fresh}")
                self.reads.append((start, end - start, "delegate:" + norm(core.func)))
                self.delegates.append(core)
                self.delegate_fmts.append(self.subst(core.args[0]) if core.args else None)
                self.seen.append(v)
                names = [norm(e) for e in tg.elts] if isinstance(tg, ast.Tuple) else [norm(tg)]
                # which target receives the new offset: the last element of a tuple, or the single target
                self.env[names[-1]] = end
                for nm in names[:-1]:
                    self.env.pop(nm, None)
                return
            self.scan_reads(v)
            names = [norm(e) for e in tg.elts] if isinstance(tg, (ast.Tuple, ast.List)) else [norm(tg)]
            lit = self.subst(core) if isinstance(core, (ast.Name, ast.Subscript, ast.Call, ast.Attribute)) else core
            if isinstance(tg, (ast.Tuple, ast.List)) and isinstance(lit, (ast.Tuple, ast.List)) and len(lit.elts) == len(tg.elts) \
                    and not any(isinstance(x, ast.Starred) for x in list(lit.elts) + list(tg.elts)):
                # simultaneous assignment `a, b = (x, y)` (what is left of a helper that returned a pair; an entry of a constant table):
                # every right-hand side is evaluated before any target is bound, then each target receives its own element
                vals = [self.value_of(x) for x in lit.elts]
                for nm, val in zip(names, vals):
                    self.assign(nm, val)
                return
            if isinstance(tg, (ast.Tuple, ast.List)) and not any(isinstance(x, ast.Starred) for x in tg.elts):
                # `start, end = _Span(a, b)` / `start, end = span`: a tuple-like result object hands each target the part it was built from
                rec = self.record_value(lit)
                if rec is not None and rec[0] == "tuple" and len(rec[1]) == len(tg.elts):
                    for nm, (_, val) in zip(names, rec[1]):
                        self.assign(nm, val)
                    return
            if isinstance(tg, ast.Name) and lit is not core and self.closed(lit):
                self.bind_pattern(tg, lit)          # `fmt = spec[0]` of a bound table entry
                return
            for nm in names:
                self.tuples.pop(nm, None)
                self.bind.pop(nm, None)
                self.recs.pop(nm, None)
            r = self.wire_tuple(core)
            if r is not None:
                # the target(s) receive the value tuple of one struct read: `a, b = unpack_from(..)` / `t = unpack_from(..)`
                if isinstance(tg, (ast.Tuple, ast.List)):
                    for i, nm in enumerate(names):
                        self.env[nm] = self.wsym(r, i)
                        self.wire[nm] = f"wire{r}[{i}]"
                else:
                    self.env.pop(names[0], None)
                    self.tuples[names[0]] = r
                return
            if len(names) == 1:
                # also `unpack_from(..)[0] * self.base`, `count * self.base`, `offset + self.size`; a closed constant expression is kept as such
                self.assign(names[0], self.value_of(v))
            else:
                for nm in names:
                    self.env.pop(nm, None)
            return
        if isinstance(s, ast.AugAssign) and isinstance(s.target, ast.Name) and s.target.id == self.out and self.out is not None:
            k = self.seq_len(s.value) if isinstance(s.op, ast.Add) else None
            looped = any(isinstance(a, (ast.For, ast.While, ast.AsyncFor)) for a in ancestors(s))
            self.n_out = None if k is None or looped or self.n_out is None else self.n_out + k
            self.scan_reads(s.value)
            return
        if isinstance(s, ast.AugAssign) and isinstance(s.target, ast.Attribute) and self.mutable_of(s.target.value) is not None:
            # `self.offset += calcsize(fmt)` on a private mutable object
            new = None
            if isinstance(s.op, (ast.Add, ast.Sub)):
                try:
                    d = self.lin(s.value)
                    new = ("lin", self.lin(s.target) + (d if isinstance(s.op, ast.Add) else d.scale(-1)))
                except Unknown:
                    new = None
            self.scan_reads(s.value)
            self.store_attr(s.target, new)
            return
        if isinstance(s, ast.AugAssign) and isinstance(s.target, ast.Name):
            if s.target.id in self.bind and s.target.id not in self.env:
                try:
                    self.env[s.target.id] = self.lin(s.target)
                except Unknown:
                    pass
                self.bind.pop(s.target.id, None)
            if isinstance(s.op, (ast.Add, ast.Sub)) and s.target.id in self.env:
                try:
                    d = self.lin(s.value)
                    self.env[s.target.id] = self.env[s.target.id] + (d if isinstance(s.op, ast.Add) else d.scale(-1))
                except Unknown:
                    self.env.pop(s.target.id, None)
            else:
                self.env.pop(s.target.id, None)
            self.tuples.pop(s.target.id, None)
            self.recs.pop(s.target.id, None)
            self.scan_reads(s.value)
            return
        if isinstance(s, ast.Return):
            self.scan_reads(s.value) if s.value is not None else None
            self.ret = self.lin(s.value)
            self.ret_node = s
            return
        if isinstance(s, ast.Expr):
            self.scan_reads(s.value)
            return
        if isinstance(s, (ast.Raise, ast.Pass)):
            return
        if isinstance(s, ast.expr):
            self.scan_reads(s)
            return


def _with_lookups_resolved(run: UnpackRun, a: ast.AST) -> list[UnpackRun]:
    """Successors of `run` in which every lookup in a constant dict that occurs in `a` has one definite result (remembered for the path)."""
    if isinstance(a, (ast.For, ast.While, ast.AsyncFor)):
        return [run]
    cands = [x for x in ast.walk(a) if (isinstance(x, ast.Subscript) and not isinstance(x.slice, ast.Slice))
             or (isinstance(x, ast.Call) and isinstance(x.func, ast.Attribute) and x.func.attr == "get")]
    if not cands:
        return [run]
    runs = [run]
    for x in cands:
        nxt = []
        for r in runs:
            k = r.memo_key(x)
            if k is None or k in r.memo:
                nxt.append(r)
                continue
            alts = r.lookup_alternatives(x)         # may raise _Infeasible: the lookup raises KeyError under the assumed tag
            if alts is None:
                nxt.append(r)
                continue
            for alt in alts:
                r2 = r.clone() if len(alts) > 1 else r
                r2.memo[k] = alt
                nxt.append(r2)
        runs = nxt
    return runs


_NOT_FOLLOWED = ("unpack", "unpack_from", "pack", "pack_into", "iter_unpack", "calcsize", "unpack_serializable", "unpack_serializable_list",
                 "pack_serializable", "pack_serializable_list")


class _ObjRef:
    """receiver of a followed call that is a private mutable object of the path (oid None: the object `K(..)` is about to create)"""

    def __init__(self, cls: ClassInfo, oid: int | None) -> None:
        self.cls, self.oid, self.fresh = cls, oid, oid is None


def _plain_private_class(k: ClassInfo) -> bool:
    """a class of /repo whose instances are nothing but the attributes its methods store: no metaclass / decorator / attribute hooks"""
    if k.node.decorator_list or k.node.keywords:
        return False
    for c in k.mro():
        if c.name == "object":
            continue
        if c.node.decorator_list or c.node.keywords:
            return False
        if any(c.lookup(n) is not None and c.lookup(n).cls is not None and c.lookup(n).cls.name != "object"
               for n in ("__new__", "__getattr__", "__getattribute__", "__setattr__", "__delattr__", "__init_subclass__", "__set_name__")):
            return False
    return True


def _hands_buffer(run: UnpackRun, call: ast.Call) -> bool:
    """the call receives the data buffer, the unpack list or a mutable object that keeps the buffer (as an argument or as its receiver)"""
    args = list(call.args) + [k.value for k in call.keywords]
    passed = [chain(a) for a in args]
    if (run.data is not None and run.data in passed) or (run.out is not None and run.out in passed):
        return True
    if run.objs:
        if any(run.mutable_of(a) is not None for a in args):
            return True
        f = strip_cast(call.func)
        if isinstance(f, ast.Attribute) and run.mutable_of(f.value) is not None:
            return True
    return False


def _followable(run: UnpackRun, call: ast.Call, need_buffer: bool = True):
    """(helper FuncInfo, receiver is implicit) when `call` hands the data buffer / the unpack list to a function of /repo that is not itself a
    packer's unpack.  need_buffer=False: any such function of the same module (a decision / arithmetic helper that sees neither)."""
    if need_buffer and not _hands_buffer(run, call):
        return None
    f = strip_cast(call.func)
    if isinstance(f, ast.Attribute) and run.mutable_of(f.value) is not None:
        # a method of a private mutable object built on this path (`cursor.take(fmt)`): run with `self` standing for that object
        oid = run.mutable_of(f.value)
        target = run.obj_cls[oid].lookup(f.attr)
        if target is None or target.decorator_names() or target.is_async or any(isinstance(x, (ast.Yield, ast.YieldFrom)) for x in walk_no_nested(target.node)):
            return None
        if f.attr in run.objs[oid]:
            return None           # an attribute of that name was stored on the object: it shadows the method
        return target, True, _ObjRef(run.obj_cls[oid], oid)
    if isinstance(f, (ast.Name, ast.Subscript, ast.Call)):
        f = run.subst(f)                  # a callable picked from a constant dispatch table
    if (f.attr if isinstance(f, ast.Attribute) else f.id if isinstance(f, ast.Name) else None) in _NOT_FOLLOWED:
        return None
    repo = run.pm.ctx.repo
    k = run.fi.cls or (run.frames[0][0].cls if run.frames else None) or run.pm.cls
    target, implicit, recv_value = None, False, None
    if isinstance(f, ast.Name):
        if run._is_local(f.id):
            return None
        r = repo.resolve_name(run.fi.module, f.id)
        if isinstance(r, FuncInfo):
            target = r
        elif isinstance(r, ClassInfo) and need_buffer and run.data is not None \
                and run.data in [chain(a) for a in list(call.args) + [kw.value for kw in call.keywords]] \
                and record_fields_of_callee(repo, run.fi.module, f, run._is_local) is None and _plain_private_class(r):
            # `_Cursor(data, offset)`: a private class whose constructor receives the buffer - the constructor is followed on a fresh object
            init = r.lookup("__init__")
            if init is None or init.cls is None or init.cls.name == "object" or init.decorator_names() or init.is_async \
                    or any(isinstance(x, (ast.Yield, ast.YieldFrom)) for x in walk_no_nested(init.node)):
                return None
            return init, True, _ObjRef(r, None)
        elif r is None and k is not None and k.lookup(f.id) is not None:
            target = k.lookup(f.id)       # a function of the class body, referenced by a class-level table: called with an explicit receiver
    elif isinstance(f, ast.Attribute) and isinstance(f.value, (ast.Name, ast.Subscript, ast.Attribute)) and run.subst(f.value) is not strip_cast(f.value) \
            and record_class_of_display(repo, run.fi.module, run.subst(f.value), run._is_local) is not None:
        # a method of a record object taken from a constant table (`family.decode(data, offset)`): run with `self` standing for that display
        recv_value = run.subst(f.value)
        if not run.closed(recv_value):
            return None
        target = record_class_of_display(repo, run.fi.module, recv_value, run._is_local).lookup(f.attr)
        decos = {d.split(".")[-1] for d in target.decorator_names()} if target is not None else set()
        if decos:
            return None
        implicit = True
    elif isinstance(f, ast.Attribute) and isinstance(f.value, ast.Name):
        if f.value.id in ("self", "cls") and k is not None:
            target = k.lookup(f.attr)
            implicit = target is not None and "staticmethod" not in {d.split(".")[-1] for d in target.decorator_names()}
        else:
            c = repo.resolve_class_expr(run.fi.module, f.value)
            target = c.lookup(f.attr) if c is not None else None
            implicit = target is not None and "classmethod" in {d.split(".")[-1] for d in target.decorator_names()}
    if target is None or target.is_async or any(isinstance(x, (ast.Yield, ast.YieldFrom)) for x in walk_no_nested(target.node)):
        return None
    if not need_buffer and (target.module is not run.fi.module or target.node is run.fi.node or any(fr[0].node is target.node for fr in run.frames)
                            or target.name in ("__init__", "unpack", "pack")):
        return None
    return target, implicit, recv_value


def _call_of(st: ast.AST):
    """(call, targets | None, kind) for `x = f(..)` / `a, b = f(..)` / `f(..)` / `return f(..)` where the call is the whole value."""
    if isinstance(st, ast.Assign) and len(st.targets) == 1 and isinstance(strip_cast(st.value), ast.Call):
        return strip_cast(st.value), st.targets[0], "assign"
    if isinstance(st, ast.AnnAssign) and st.value is not None and isinstance(strip_cast(st.value), ast.Call):
        return strip_cast(st.value), st.target, "assign"
    if isinstance(st, ast.Expr) and isinstance(strip_cast(st.value), ast.Call):
        return strip_cast(st.value), None, "expr"
    if isinstance(st, ast.Return) and st.value is not None and isinstance(strip_cast(st.value), ast.Call):
        return strip_cast(st.value), None, "return"
    return None


def _step(ctx: Ctx, pm: PackerModel, run: UnpackRun, node, lab, depth: int) -> list[UnpackRun]:
    """One CFG node of a path; several successors when a constant table / a followed helper makes the path fork."""
    a = node.ast
    if a is None:
        return [run]
    if node.kind == "stmt" and lab == "exc":
        eafp = _eafp_lookup(run, a)
        if eafp is not None:
            return eafp
    if node.kind == "handler" and isinstance(a, ast.ExceptHandler):
        if run.pending_exc is not None:
            names = [] if a.type is None else [(chain(x) or "?").split(".")[-1] for x in (a.type.elts if isinstance(a.type, ast.Tuple) else [a.type])]
            if a.type is not None and not any(n in _EXC_PARENTS.get(run.pending_exc, (run.pending_exc, "Exception", "BaseException")) for n in names):
                raise _Infeasible           # this handler does not take the exception the statement was left with
            run.pending_exc = None
        if a.name:
            run.assign(a.name, None)
        return [run]
    if node.kind in ("cond", "stmt"):
        forks = _with_lookups_resolved(run, a)
        if len(forks) != 1 or forks[0] is not run:
            out = []
            for r in forks:
                try:
                    out.extend(_step_one(ctx, pm, r, node, lab, depth))
                except _Infeasible:
                    continue
            return out
    return _step_one(ctx, pm, run, node, lab, depth)


def _step_one(ctx: Ctx, pm: PackerModel, run: UnpackRun, node, lab, depth: int) -> list[UnpackRun]:
    a = node.ast
    if node.kind == "cond":
        atom, neg = strip_cast(a), False
        while isinstance(atom, ast.UnaryOp) and isinstance(atom.op, ast.Not):
            atom, neg = strip_cast(atom.operand), not neg
        if isinstance(atom, ast.Call) and lab in (True, False) and depth < 3:
            # `if _is_ip_tag(address_type):` - a predicate helper that sees neither the buffer nor the unpack list: decided by running its paths
            pure = _followable(run, atom, need_buffer=False)
            res = _follow_pure(ctx, pm, run, a, atom, ast.Name(id="\0verdict", ctx=ast.Store()), "assign", pure, depth) if pure is not None else None
            if res is not None:
                out, decided_all = [], True
                for fin in res:
                    truth = None
                    if "\0verdict" in fin.env and not fin.env["\0verdict"].t:
                        truth = bool(fin.env["\0verdict"].c)
                    elif "\0verdict" in fin.bind:
                        cv = const_value(fin.bind["\0verdict"])
                        if cv is not NOCONST and isinstance(cv, (bool, int, str, bytes, type(None), tuple)):
                            truth = bool(cv)
                    if truth is None:
                        decided_all = False
                        break
                    fin.assign("\0verdict", None)
                    if (truth != neg) == lab:
                        fin.conds.append((a, lab))
                        out.append(fin)
                if decided_all:
                    return out
        run.cond(a, lab)
        return [run]
    if node.kind == "loop" and isinstance(a, ast.For):
        entries = run.table_entries(a.iter)
        if entries is not None:
            entries = [run.subst(x) if isinstance(strip_cast(x), (ast.Name, ast.Subscript, ast.Attribute)) else x for x in entries]   # `(wanted,)` with wanted bound
        entered = any(l is _orig(a) for l, _ in run.loops)
        if lab is True:
            if entries is not None and all(run.closed(x) for x in entries):
                out = []
                for x in entries:          # the body runs for an entry of the constant table: one successor per entry
                    r = run.clone()
                    r.enter_loop(a)
                    r.bind_pattern(a.target, x)
                    out.append(r)
                return out
            run.enter_loop(a)
        elif lab is False and entries and not entered:
            raise _Infeasible             # a non-empty constant table is never skipped
        return [run]
    if node.kind == "loop" and isinstance(a, ast.While):
        run.enter_while(a)
        return [run]
    if node.kind != "stmt":
        return [run]
    # a helper that receives the data buffer: its paths are run in a frame of their own, on the same reads / conditions
    cc = _call_of(a)
    early = _nested_buffer_call(run, a) if cc is not None else None
    if cc is not None and early is None:
        call, tgt, kind = cc
        fol = _followable(run, call)
        if fol is not None:
            return _follow_buffer_call(ctx, pm, run, a, call, tgt, kind, fol, depth)
        elif kind in ("assign", "return") and depth < 3:
            # a helper that sees neither the buffer nor the unpack list (a decision / offset arithmetic that a loop or early returns kept the
            # normaliser from inlining): its paths are run on copies, with the conditions decided under the same assumptions; if anything in it
            # is not understood the call is treated as before - a value this run knows nothing about
            pure = _followable(run, call, need_buffer=False)
            if pure is not None:
                res = _follow_pure(ctx, pm, run, a, call, tgt, kind, pure, depth)
                if res is not None:
                    return res
    hoist = early if early is not None else _nested_buffer_call(run, a)
    if hoist is not None:
        # `out.append(helper(data, offset))` / `return offset + helper(data, offset)`: the one nested call that receives the buffer is evaluated
        # first into a temporary (nothing else in the statement touches the buffer), then the statement is run on the temporary
        call, fol = hoist
        run.fresh += 1
        tmp = f"\0ret{run.fresh}"
        fins = _follow_buffer_call(ctx, pm, run, a, call, ast.Name(id=tmp, ctx=ast.Store()), "assign", fol, depth)
        fake = _StmtNode(_replace_in_copy(a, call, ast.Name(id=tmp, ctx=ast.Load())))
        out = []
        for fin in fins:
            try:
                out.extend(_step(ctx, pm, fin, fake, lab, depth))
            except _Infeasible:
                continue
        return out
    if isinstance(a, ast.Return) and run.frames:
        run.finish_frame(a)
        return [run]
    run.stmt(a)
    return [run]


class _StmtNode:
    """stand-in for a CFG statement node (a statement rewritten on the fly)"""
    kind = "stmt"

    def __init__(self, a: ast.AST) -> None:
        self.ast = a


_EAGER_PARENTS = (ast.Call, ast.keyword, ast.Attribute, ast.Subscript, ast.Tuple, ast.List, ast.BinOp, ast.UnaryOp, ast.Starred, ast.Compare, ast.JoinedStr,
                  ast.FormattedValue, ast.Expr, ast.Assign, ast.AnnAssign, ast.AugAssign, ast.Return, ast.Slice, ast.Dict, ast.Set)


def _evaluation_order(e: ast.AST) -> list:
    """the sub-expressions of e in the order Python finishes evaluating them (operands before the operation, left to right)"""
    out: list = []

    def go(n: ast.AST) -> None:
        if isinstance(n, ast.Dict):
            for k_, v_ in zip(n.keys, n.values):
                if k_ is not None:
                    go(k_)
                go(v_)
        elif isinstance(n, (ast.Lambda, ast.ListComp, ast.SetComp, ast.DictComp, ast.GeneratorExp)):
            pass                  # evaluated later / repeatedly: nothing inside is hoisted (see _EAGER_PARENTS)
        else:
            for c in ast.iter_child_nodes(n):
                go(c)
        out.append(n)
    go(e)
    return out


def _nested_buffer_call(run: UnpackRun, a: ast.AST):
    """(call, followable) when statement `a` contains exactly one call of a followable helper that receives the buffer / the unpack list, the
    call is evaluated unconditionally, is not the whole value of the statement, and nothing else in the statement mentions the buffer."""
    if not isinstance(a, (ast.Assign, ast.AnnAssign, ast.AugAssign, ast.Expr, ast.Return)) or getattr(a, "value", None) is None:
        return None
    whole = strip_cast(a.value)
    found = []
    order = _evaluation_order(a.value)
    for c in order:
        if isinstance(c, ast.Call):
            if not _hands_buffer(run, c):
                continue
            fol = _followable(run, c)
            if fol is not None:
                found.append((c, fol))
    if not found or found[0][0] is whole:
        return None             # the first call to run is the whole value: followed as the statement itself
    # several followable calls in one statement (`cursor.take(cursor.read_length(..))`, `f(cursor.a(), cursor.b())`): they run in evaluation
    # order, so the first one is taken out first; the rewritten statement is stepped again and yields the next
    call, fol = found[0]
    inside = {id(n) for c, _ in found for n in ast.walk(c)}
    for n in ast.walk(a):
        if ((isinstance(n, ast.Name) and n.id == run.data) or (isinstance(n, ast.Attribute) and chain(n) == run.data)) and id(n) not in inside:
            return None
    # nothing that is evaluated BEFORE the call may depend on what the call changes: a read of an attribute of a mutable object
    # (`cursor.offset + cursor.take(..)`) that stands earlier in evaluation order keeps the statement from being reordered
    first = {id(n) for n in ast.walk(call)}
    receivers = {id(strip_cast(c.func).value) for c, _ in found if isinstance(strip_cast(c.func), ast.Attribute)}
    for n in order:
        if id(n) in first:
            break
        if isinstance(n, ast.Name) and run.mutable_of(n) is not None and id(n) not in receivers:
            par = getattr(n, "_parent", None)
            if not (isinstance(par, ast.Call) and any(par is c for c, _ in found) and n in par.args):
                return None
    cur = call
    while cur is not a:
        par = getattr(cur, "_parent", None)
        if par is None or not isinstance(par, _EAGER_PARENTS):
            return None
        cur = par
    return call, fol


def _replace_in_copy(a: ast.AST, target: ast.AST, new: ast.AST) -> ast.AST:
    """a structural copy of statement `a` in which the node corresponding to `target` is replaced by `new` (parent links set, position kept)"""
    c = clone(a)
    orig, cp = list(ast.walk(a)), list(ast.walk(c))
    twin = cp[next(i for i, n in enumerate(orig) if n is target)]
    ast.copy_location(new, target)

    class R(ast.NodeTransformer):
        def visit(self, n):
            return new if n is twin else super().visit(n)
    c = ast.fix_missing_locations(R().visit(c))
    set_parents(c)
    c._parent = getattr(a, "_parent", None)
    return c


def _eafp_lookup(run: UnpackRun, a: ast.AST):
    """
    `x = TABLE[key]` (TABLE a constant dict, key a plain name) left BY ITS EXCEPTIONAL EDGE: the only operation that can raise is the lookup, so
    the key is not in the table (KeyError) and nothing was bound.  Under an assumed tag / a bound constant key that IS in the table this
    path does not exist.  Returns the successor runs, or None when the statement is not such a lookup.
    """
    if not isinstance(a, (ast.Assign, ast.AnnAssign)) or a.value is None:
        return None
    v = strip_cast(a.value)
    if not (isinstance(v, ast.Subscript) and isinstance(strip_cast(v.slice), (ast.Name, ast.Constant))):
        return None
    t = run.table_lookup(v)
    if t is None or not t[3]:
        return None
    d, key = t[0], t[1]
    if run.assume is not None and run._tag_byte(key):
        vals, tag = run.assume
        tvs = [run._tagval(k) for k in d.keys]
        if all(tv is not None for tv in tvs) and vals.get(tag, _NOTAG) in tvs:
            raise _Infeasible
    else:
        sk = run.subst(key)
        if sk is not strip_cast(key) or isinstance(sk, ast.Constant):
            if any(run._closed_equal(sk, run.subst(k)) is True for k in d.keys):
                raise _Infeasible
    run.seen.append(a.value)
    for tg in (a.targets if isinstance(a, ast.Assign) else [a.target]):
        for n in ast.walk(tg):
            if isinstance(n, ast.Name):
                run.assign(n.id, None)
    run.pending_exc = "KeyError"
    return [run]


_EXC_PARENTS = {"KeyError": ("KeyError", "LookupError", "Exception", "BaseException"),
                "IndexError": ("IndexError", "LookupError", "Exception", "BaseException")}


def _follow_buffer_call(ctx: Ctx, pm: PackerModel, run: UnpackRun, a, call: ast.Call, tgt, kind: str, fol, depth: int) -> list[UnpackRun]:
    """A helper that receives the data buffer / the unpack list: its paths are run in a frame of their own, on the same reads / conditions."""
    if depth >= 3:
        raise Unknown(f"helper calls nested deeper than 3 at `{norm(call)[:50]}`")
    callee, implicit, recv_value = fol
    run.seen.append(call)
    for x in list(call.args) + [k.value for k in call.keywords]:
        if run.out is not None and chain(x) == run.out:
            continue              # the unpack list handed to the followed helper: what it delivers is counted inside
        if run.data is not None and chain(x) == run.data:
            continue              # the buffer handed to the followed helper: what it reads is recorded inside
        run.scan_reads(x)
    sub = run.clone()
    sub.push_frame(callee, call, implicit, recv_value)
    out = []
    for fin, err in _exec_paths(ctx, pm, callee, sub, depth + 1):
        if err:
            raise Unknown(f"in helper {callee.qualname}: {err[len('unknown: '):] if err.startswith('unknown: ') else err}")
        vals = fin.retvals
        if isinstance(recv_value, _ObjRef) and recv_value.fresh:
            if vals is not None and not (isinstance(vals, tuple) and vals[0] == "const" and const_value(vals[1]) is None):
                raise Unknown(f"constructor {callee.qualname} returns a value")
            vals = ("rec", "mutable", [recv_value.oid])       # `K(..)` evaluates to the object its constructor filled
        if kind == "return" and fin.frames:
            fin.finish_frame(None)          # `return helper(..)` inside a followed helper: hand the value on to its caller
            fin.retvals = vals
        elif kind == "return":
            if not (isinstance(vals, tuple) and vals[0] == "lin"):
                raise Unknown(f"helper {callee.qualname} does not return an offset to `{norm(a)[:40]}`")
            fin.ret, fin.ret_node = vals[1], a
        elif kind == "assign":
            _deliver_result(fin, tgt, vals)
        out.append(fin)
    return out


def _deliver_result(fin: UnpackRun, tgt: ast.AST, vals) -> None:
    """bind the target(s) of `tgt = helper(..)` to what the followed helper returned on this path"""
    if isinstance(vals, tuple) and vals[0] == "rec" and vals[1] == "tuple" and isinstance(tgt, (ast.Tuple, ast.List)):
        vals = [v for _, v in vals[2]]          # `a, b = helper(..)` where the helper returns a NamedTuple
    if isinstance(tgt, (ast.Tuple, ast.List)):
        if fin.objs and fin._mutable_targets(tgt):
            raise Unknown(f"helper result unpacked into attributes of a reader object `{norm(tgt)[:40]}`")
        if isinstance(vals, list) and len(vals) == len(tgt.elts):
            for t, v in zip(tgt.elts, vals):
                fin.assign(norm(t), v)
        elif isinstance(vals, tuple) and vals[0] == "tuple" and not any(isinstance(t, (ast.Starred, ast.Tuple, ast.List)) for t in tgt.elts):
            # `a, b = helper(..)` where the helper returns the value tuple of one struct read: each target is one wire value of that read
            for i, t in enumerate(tgt.elts):
                fin.assign(norm(t), ("lin", fin.wsym(vals[1], i)))
                fin.wire[norm(t)] = f"wire{vals[1]}[{i}]"
        else:
            for t in tgt.elts:
                fin.assign(norm(t), None)
    elif isinstance(vals, list):
        fin.assign_target(tgt, ("rec", "tuple", [(None, v) for v in vals]))     # `pair = helper(..)` returning `(a, b)`
    else:
        fin.assign_target(tgt, vals if isinstance(vals, tuple) else None)


def _follow_pure(ctx: Ctx, pm: PackerModel, run: UnpackRun, a, call: ast.Call, tgt, kind: str, pure, depth: int):
    callee, implicit, recv_value = pure
    probe = run.clone()
    try:
        probe.seen.append(call)
        for x in list(call.args) + [k.value for k in call.keywords]:
            probe.scan_reads(x)
        if probe.blind is not None:
            return None
        sub = probe.clone()
        sub.push_frame(callee, call, implicit, recv_value)
        out = []
        for fin, err in _exec_paths(ctx, pm, callee, sub, depth + 1):
            if err or fin.blind is not None:
                return None
            vals = fin.retvals
            if kind == "return" and fin.frames:
                fin.finish_frame(None)
                fin.retvals = vals
            elif kind == "return":
                if not (isinstance(vals, tuple) and vals[0] == "lin"):
                    return None
                fin.ret, fin.ret_node = vals[1], a
            else:
                _deliver_result(fin, tgt, vals)
            out.append(fin)
            if len(out) > 8:
                return None           # too many ways through the helper to carry along: treated as a value nothing is known about
        return out
    except (Unknown, AnalysisError, RecursionError):
        return None


# ------------------------------------------------------------------------------------------ `match` -> the if/elif chain Python executes
_MATCH_FREE: dict[int, tuple] = {}          # id(function node) -> (function node, match-free twin | None, its CFG | None)


def _new_parents(new: ast.AST, parent) -> None:
    """parent links for freshly built nodes only: a node that already has a parent is a shared node of the repository model and stays as it is"""
    if hasattr(new, "_parent") or isinstance(new, (ast.expr_context, ast.operator, ast.cmpop, ast.boolop, ast.unaryop)):
        return
    new._parent = parent  # type: ignore[attr-defined]
    for c in ast.iter_child_nodes(new):
        _new_parents(c, new)


def _loads_of(nodes, name: str) -> int:
    return sum(1 for r in nodes for n in ast.walk(r) if isinstance(n, ast.Name) and n.id == name and isinstance(n.ctx, ast.Load))


def _match_as_ifs(fn: ast.AST, st: ast.Match, fields: dict, counter: list) -> list | None:
    """The statements Python executes for `match`: the subject (the parts of a tuple display, left to right) is evaluated once into temporaries,
    then the cases are tried in order - pattern test, captures, guard - and the first that matches runs; no case = fall through.  Exact for
    value / singleton / capture / wildcard / or / class patterns and fixed-length sequence patterns over a tuple display; a capture read by
    its guard is replaced there by the (already evaluated, unchanging) subject part it is bound to, which is only the same when nothing
    outside the case reads the captured name (a capture stays bound when the guard fails).  None = not expressible exactly.
    The case bodies are SHARED with the original tree (loop / call identities stay what the other clauses see)."""
    try:
        from ..normalize import _pattern
    except ImportError:
        return None
    pre: list = []

    def simple(e: ast.AST) -> ast.AST:
        if isinstance(e, (ast.Name, ast.Constant)):
            return e
        counter[0] += 1
        tmp = f"\0match{counter[0]}"
        pre.append(ast.copy_location(ast.Assign(targets=[ast.Name(id=tmp, ctx=ast.Store())], value=e, lineno=st.lineno), st))
        return ast.copy_location(ast.Name(id=tmp, ctx=ast.Load()), e)
    subject = st.subject
    if isinstance(subject, ast.Tuple):
        if any(isinstance(x, ast.Starred) for x in subject.elts):
            return None
        subj: ast.AST = ast.copy_location(ast.Tuple(elts=[simple(x) for x in subject.elts], ctx=ast.Load()), subject)
    else:
        subj = simple(subject)
    stored = {x.id for x in (subject.elts if isinstance(subject, ast.Tuple) else [subject]) if isinstance(x, ast.Name)}
    arms = []
    parsed = []
    for c in st.cases:
        r = _pattern(clone(c.pattern), subj, fields)
        if r is None or len({k for k, _ in r[1]}) != len(r[1]):
            return None
        parsed.append(r)
    for k in {k for _, caps in parsed for k, _ in caps}:
        # every read of a captured name lies in a case that captures it itself (a capture stays bound when the guard fails: a later case or
        # the code behind the match would see it)
        inside = [x for c, (_, caps) in zip(st.cases, parsed) if k in dict(caps) for x in ([c.guard] if c.guard is not None else []) + list(c.body)]
        if _loads_of([fn], k) != _loads_of(inside, k) or k in stored:
            return None
    for c, (cond, caps) in zip(st.cases, parsed):
        guard = c.guard
        if caps:
            if guard is not None:
                if any(isinstance(n, (ast.NamedExpr, ast.Lambda, ast.ListComp, ast.SetComp, ast.DictComp, ast.GeneratorExp)) for n in ast.walk(guard)):
                    return None
                guard = _SubstNames(dict(caps)).visit(clone(guard))
        if guard is not None:
            cond = guard if cond is None else ast.BoolOp(op=ast.And(), values=[cond, guard])
        body = [ast.copy_location(ast.Assign(targets=[ast.Name(id=k, ctx=ast.Store())], value=v, lineno=c.body[0].lineno), c.body[0]) for k, v in caps] + list(c.body)
        arms.append((cond, body))
    chain_: list = []
    for cond, body in reversed(arms):
        if cond is None:
            chain_ = body
        else:
            chain_ = [ast.copy_location(ast.If(test=cond, body=body, orelse=chain_), st)]
    if not chain_:
        chain_ = [ast.copy_location(ast.Pass(), st)]
    return pre + chain_


def _orig(node):
    """the statement of the repository tree a rebuilt twin statement stands for (itself when it was not rebuilt)"""
    return getattr(node, "_c02_orig", node)


def _method_aliases(fi: FuncInfo) -> dict[str, ast.AST]:
    """EARLY-BOUND methods: local name -> attribute chain, for `send = self.endpoint.send` / `a, unpack_item = x, self.packer.unpack`.
    The local is assigned exactly once (no parameter, no nonlocal / global), the chain is rooted at a parameter that is never rebound and no
    prefix of the chain is stored to in the function: then `name(args)` calls what `chain(args)` calls (a bound method keeps its receiver)."""
    used = {n.func.id for n in walk_no_nested(fi.node) if isinstance(n, ast.Call) and isinstance(n.func, ast.Name)}
    if not used:
        return {}
    params = set(fi.params())
    scoped = {x for n in ast.walk(fi.node) if isinstance(n, (ast.Nonlocal, ast.Global)) for x in n.names}
    stores = {chain(x) for x in walk_no_nested(fi.node) if isinstance(x, ast.Attribute) and isinstance(x.ctx, (ast.Store, ast.Del))}
    out: dict[str, ast.AST] = {}
    for name in sorted(used):
        if name in scoped or name in params:
            continue
        sd = single_def(fi, name)
        if sd is None or sd[1] is not None:
            continue
        v = sd[0]
        c = chain(v) if isinstance(v, ast.Attribute) else None
        if c is None:
            continue
        parts = c.split(".")
        if parts[0] not in params or parts[0] in scoped or local_defs(fi, parts[0]):
            continue
        if any(".".join(parts[:i]) in stores for i in range(2, len(parts) + 1)):
            continue
        out[name] = v
    return out


class _AliasCalls(ast.NodeTransformer):
    def __init__(self, aliases: dict[str, ast.AST]) -> None:
        self.aliases = aliases

    def visit_Call(self, n: ast.Call):
        self.generic_visit(n)
        if isinstance(n.func, ast.Name) and n.func.id in self.aliases:
            n.func = ast.copy_location(clone(self.aliases[n.func.id]), n.func)
        return n

    def visit_FunctionDef(self, n):
        return n
    visit_AsyncFunctionDef = visit_Lambda = visit_ClassDef = visit_FunctionDef


def _twin(ctx: Ctx, fi: FuncInfo):
    """(twin function node, its CFG) - or (None, None) when fi needs none - in which
      * every `match` statement is the if/elif chain it means (the engine's CFG follows every case of a `match` blindly; its normaliser leaves
        guarded captures and computed subject parts alone), and
      * a call through an early-bound method local (`unpack_item = self.packer.unpack ... unpack_item(data, offset)`) is the call of the
        attribute chain it was bound from (see _method_aliases).
    The twin SHARES every statement it does not have to rebuild with the repository tree; a rebuilt statement knows the one it stands for
    (_orig), so loops entered on a path are reported as the loops of the original function.  Nothing of the repository model is modified.
    A `match` that cannot be expressed exactly is left as it is (the CFG then follows each of its cases)."""
    key = id(fi.node)
    hit = _MATCH_FREE.get(key)
    if hit is not None and hit[0] is fi.node:
        return hit[1], hit[2]
    twin_fn = cfg = None
    aliases = _method_aliases(fi)

    def alias_call(x: ast.AST) -> bool:
        return any(isinstance(n, ast.Call) and isinstance(n.func, ast.Name) and n.func.id in aliases for n in ast.walk(x))
    has_match = any(isinstance(x, ast.Match) for x in walk_no_nested(fi.node))
    if has_match or (aliases and alias_call(fi.node)):
        try:
            from ..normalize import _named_fields
            fields = _named_fields(fi.module.tree)
        except Exception:  # noqa: BLE001
            fields = {}
        counter = [0]

        def expr(e, parent):
            if e is None or not aliases or not alias_call(e):
                return e
            new = _AliasCalls(aliases).visit(clone(e))
            _new_parents(new, parent)
            return new

        def block(stmts: list) -> list:
            out = []
            for s in stmts:
                if isinstance(s, (ast.FunctionDef, ast.AsyncFunctionDef, ast.ClassDef)) \
                        or not (any(isinstance(x, ast.Match) for x in ast.walk(s)) or (aliases and alias_call(s))):
                    out.append(s)
                    continue
                par = getattr(s, "_parent", None)
                if isinstance(s, ast.Match):
                    twin = ast.copy_location(ast.Match(subject=expr(s.subject, par), cases=[
                        ast.match_case(pattern=c.pattern, guard=expr(c.guard, par), body=block(c.body)) for c in s.cases]), s)
                    ifs = _match_as_ifs(fi.node, twin, fields, counter)
                    if ifs is None:
                        twin._parent = par  # type: ignore[attr-defined]
                        twin._c02_orig = s  # type: ignore[attr-defined]
                        out.append(twin)
                    else:
                        for x in ifs:
                            _new_parents(x, par)
                        out.extend(ifs)
                    continue
                blocks = [f for f in ("body", "orelse", "finalbody", "handlers") if isinstance(getattr(s, f, None), list) and getattr(s, f)
                          and isinstance(getattr(s, f)[0], (ast.stmt, ast.ExceptHandler))]
                if not blocks:
                    twin = _AliasCalls(aliases).visit(clone(s))         # a simple statement with a call through an early-bound method
                    _new_parents(twin, par)
                    twin._c02_orig = s  # type: ignore[attr-defined]
                    out.append(twin)
                    continue
                twin = type(s)()                      # a compound statement around one of them: a shallow twin with rebuilt blocks / header
                twin._parent = par  # type: ignore[attr-defined]
                twin._c02_orig = s  # type: ignore[attr-defined]
                for f in s._fields:
                    v = getattr(s, f, None)
                    if f == "handlers":
                        hs = []
                        for h in v:
                            h2 = ast.copy_location(ast.ExceptHandler(type=h.type, name=h.name, body=block(h.body)), h)
                            h2._parent = twin  # type: ignore[attr-defined]
                            h2._c02_orig = h  # type: ignore[attr-defined]
                            hs.append(h2)
                        v = hs
                    elif f in blocks:
                        v = block(v)
                    elif isinstance(v, ast.expr) and isinstance(getattr(v, "ctx", None), (ast.Load, type(None))):
                        v = expr(v, twin)
                    elif f == "items" and isinstance(v, list) and any(alias_call(i) for i in v):
                        v = [_AliasCalls(aliases).visit(clone(i)) for i in v]
                        for i in v:
                            _new_parents(i, twin)
                    setattr(twin, f, v)
                ast.copy_location(twin, s)
                out.append(twin)
            return out
        body = block(fi.node.body)
        twin_fn = type(fi.node)()
        for f in fi.node._fields:
            setattr(twin_fn, f, body if f == "body" else getattr(fi.node, f, None))
        ast.copy_location(twin_fn, fi.node)
        twin_fn._c02_orig = fi.node  # type: ignore[attr-defined]
        ast.fix_missing_locations(twin_fn)
        from ..cfg import CFG
        cfg = CFG(twin_fn)
    if len(_MATCH_FREE) > 64:
        _MATCH_FREE.clear()
    _MATCH_FREE[key] = (fi.node, twin_fn, cfg)
    return twin_fn, cfg


def _match_free(ctx: Ctx, fi: FuncInfo):
    """CFG of the twin of fi (see _twin) if every `match` of fi could be expressed as the if/elif chain it means, else None."""
    twin_fn, cfg = _twin(ctx, fi)
    if twin_fn is None or any(isinstance(x, ast.Match) for x in walk_no_nested(twin_fn)):
        return None
    return cfg


def _exec_paths(ctx: Ctx, pm: PackerModel, fi: FuncInfo, start: UnpackRun, depth: int = 0):
    """All normally returning paths of fi, started in the state `start` (a fresh run, or the frame of a followed helper)."""
    cfg = ctx.cfg(fi)
    cfg = _twin(ctx, fi)[1] or cfg
    out = []
    nframes = len(start.frames)
    for path in cfg.paths(limit=400):
        if path[-1][0] is not cfg.exit:
            continue
        states = [start.clone()]
        for node, lab in path:
            nxt = []
            for run in states:
                try:
                    nxt.extend(_step(ctx, pm, run, node, lab, depth))
                except _Infeasible:
                    continue
                except Unknown as u:
                    out.append((run, f"unknown: {u}"))
            for run in [r for r in nxt if r.blind is not None]:
                out.append((run, f"unknown: {run.blind}"))          # nothing is concluded about a path that may read bytes unseen
            states = [r for r in nxt if r.blind is None]
            if len(states) > 64:
                raise AnalysisError(f"undecided: packer-symmetry: {fi.qualname}: more than 64 alternatives on one path")
        for run in states:
            if nframes and len(run.frames) == nframes:
                run.finish_frame(None)        # the helper ends without `return`: it hands back None
            out.append((run, None))
    return out


def run_unpack_paths(ctx: Ctx, pm: PackerModel, fi: FuncInfo, assume=None):
    start = UnpackRun(pm, fi)
    start.assume = assume
    return _exec_paths(ctx, pm, fi, start)


def check_tiling(run: UnpackRun) -> str | None:
    if run.ret is None:
        return "no return value"
    pos = Lin.sym("offset")
    for start, length, kind in run.reads:
        if start != pos:
            return f"read `{kind}` starts at {start}, expected {pos} (bytes skipped or read twice)"
        pos = start + length
    if run.ret != pos:
        return f"returns {run.ret} but the bytes consumed end at {pos}"
    return None


# ------------------------------------------------------------------------------------------ pack side
class _PackState:
    """What is known at one point of one path through a pack method."""

    def __init__(self) -> None:
        self.bytes: dict[str, list] = {}       # local -> pieces of the byte string it holds
        self.lists: dict[str, list] = {}       # local -> list of piece-lists (a list of byte strings under construction)
        self.defs: dict[str, ast.AST] = {}     # local -> expression it stands for (locals inside already expanded)

    def copy(self) -> "_PackState":
        n = _PackState()
        n.bytes = {k: list(v) for k, v in self.bytes.items()}
        n.lists = {k: [list(x) for x in v] for k, v in self.lists.items()}
        n.defs = dict(self.defs)
        return n


class _Expand(ast.NodeTransformer):
    def __init__(self, defs: dict[str, ast.AST]) -> None:
        self.defs = defs

    def visit_Name(self, n: ast.Name):
        if isinstance(n.ctx, ast.Load) and n.id in self.defs:
            return clone(self.defs[n.id])
        return n


def _fmt_template(f: ast.AST, depth: int = 0) -> str | None:
    """
    A struct format assembled from constant text and computed numbers, with every computed part written `{n}`:
    f">BH{len(h)}sH", ">BH%dsH" % len(h), ">BH{}sH".format(len(h)), ">BH" + str(len(h)) + "sH", "".join((">BH", str(len(h)), "sH")).
    """
    f = strip_cast(f)
    if depth > 4:
        return None
    cv = const_value(f)
    if isinstance(cv, str):
        return cv
    if isinstance(f, ast.JoinedStr):
        def part(v) -> str:
            if isinstance(v, ast.Constant):
                return v.value
            # f"{'4s'}" / f"{16}": a constant text / number without conversion or format spec is written as it stands
            cv_ = const_value(strip_cast(v.value)) if isinstance(v, ast.FormattedValue) and v.conversion == -1 and v.format_spec is None else None
            if isinstance(cv_, str) or (isinstance(cv_, int) and not isinstance(cv_, bool)):
                return str(cv_) if "{" not in str(cv_) and "}" not in str(cv_) else "{n}"
            return "{n}"
        return "".join(part(v) for v in f.values)
    if isinstance(f, ast.BinOp) and isinstance(f.op, ast.Mod) and isinstance(const_value(f.left), str):
        rv = const_value(strip_cast(f.right))
        if isinstance(rv, (str, int, tuple)) and not isinstance(rv, bool) and (not isinstance(rv, tuple) or all(isinstance(x, (str, int)) and not isinstance(x, bool) for x in rv)):
            try:
                return const_value(f.left) % rv          # every operand is a constant: the text itself
            except (TypeError, ValueError):
                pass
        return re.sub(r"%[0-9]*[dis]", "{n}", const_value(f.left))
    if isinstance(f, ast.BinOp) and isinstance(f.op, ast.Add):
        l, r = _fmt_template(f.left, depth + 1), _fmt_template(f.right, depth + 1)
        return l + r if l is not None and r is not None else None
    if isinstance(f, ast.Call) and isinstance(f.func, ast.Attribute) and f.func.attr == "format" and isinstance(const_value(f.func.value), str):
        return re.sub(r"\{[^{}]*\}", "{n}", const_value(f.func.value))
    if isinstance(f, ast.Call) and isinstance(f.func, ast.Attribute) and f.func.attr == "join" and const_value(f.func.value) == "" and len(f.args) == 1 \
            and isinstance(strip_cast(f.args[0]), (ast.Tuple, ast.List)):
        parts = [_fmt_template(x, depth + 1) for x in strip_cast(f.args[0]).elts]
        return "".join(parts) if all(p is not None for p in parts) else None
    if isinstance(f, ast.Call) and chain(f.func) in ("str", "repr", "format") and len(f.args) >= 1:
        return "{n}"
    return None


class PackRun:
    """
    The byte string a pack method returns, as pieces, for every way through its statements: locals are followed through plain and
    augmented assignments, `b"".join([...])`, lists of parts that are appended to / extended, conditionals, with / try blocks (a
    suppressed or handled exception continues after the block) and loops (the body is taken once: the general iteration).
    Pieces: ('struct', format text, [argument texts], [argument expressions, locals expanded]) | ('bytes', text) | ('delegate', text, call).
    """

    LIMIT = 256

    def __init__(self, fi: FuncInfo, pm: PackerModel | None) -> None:
        self.fi = fi
        self.pm = pm
        self.alts: list[tuple[ast.Return, list]] = []

    # ---- expressions
    def expand(self, e: ast.AST, st: _PackState) -> ast.AST:
        if not any(isinstance(n, ast.Name) and n.id in st.defs for n in ast.walk(e)):
            return e
        out = ast.fix_missing_locations(_Expand(st.defs).visit(clone(e)))
        if self.pm is not None and any(isinstance(n, (ast.Attribute, ast.Subscript)) and isinstance(n.value, (ast.Call, ast.Tuple, ast.List)) for n in ast.walk(out)):
            out = ast.fix_missing_locations(self._fold_records(out))
        return out

    def _record_display(self, e: ast.AST):
        """(kind, [(attribute | None, expr)]) for a tuple display / a display of a plain record class (`_Family(TAG, ">B4sH", AF_INET)`)"""
        e = strip_cast(e)
        if isinstance(e, (ast.Tuple, ast.List)):
            return None if any(isinstance(x, ast.Starred) for x in e.elts) else ("tuple", [(None, x) for x in e.elts])
        if not isinstance(e, ast.Call) or self.pm is None or any(isinstance(a, ast.Starred) for a in e.args) or any(k.arg is None for k in e.keywords):
            return None
        got = record_fields_of_callee(self.pm.ctx.repo, self.fi.module, e.func, lambda nm: nm in self.fi.params() or bool(local_defs(self.fi, nm)))
        if got is None:
            return computed_display_items(self.pm.ctx.repo, self.fi.module, e, lambda nm: nm in self.fi.params() or bool(local_defs(self.fi, nm)))
        if got[1] == "slice":
            return None
        fields, kind = got
        if len(e.args) > len(fields):
            return None
        given = {p: a for (p, _, _), a in zip(fields, e.args)}
        for kw in e.keywords:
            if kw.arg in given or kw.arg not in {p for p, _, _ in fields}:
                return None
            given[kw.arg] = kw.value
        items = []
        for p_, attr, default in fields:
            v = given.get(p_, default)
            if v is None:
                return None
            items.append((attr, v))
        return kind, items

    def _fold_records(self, e: ast.AST) -> ast.AST:
        """`_Family(TAG, F, AF).fmt` -> F, `(a, b)[1]` -> b: a part of a record display is the expression it was built from"""
        run = self

        class Fold(ast.NodeTransformer):
            def visit_Attribute(self, n):
                self.generic_visit(n)
                rec = run._record_display(n.value) if isinstance(n.value, ast.Call) else None
                x = _pick(rec[0], rec[1], n) if rec is not None else None
                return clone(x) if x is not None else n

            def visit_Subscript(self, n):
                self.generic_visit(n)
                rec = run._record_display(n.value) if isinstance(n.value, (ast.Call, ast.Tuple, ast.List)) and not isinstance(n.slice, ast.Slice) else None
                x = _pick(rec[0], rec[1], n) if rec is not None else None
                return clone(x) if x is not None else n
        return Fold().visit(e)

    def _fmt_text(self, f: ast.AST) -> str:
        if isinstance(const_value(f), str):
            return const_value(f)
        t = _fmt_template(f)
        return t if t is not None else norm(f)

    def pieces(self, e: ast.AST, st: _PackState) -> list:
        e = strip_cast(e)
        if isinstance(e, ast.BinOp) and isinstance(e.op, ast.Add):
            return self.pieces(e.left, st) + self.pieces(e.right, st)
        if isinstance(e, ast.Call) and chain(e.func) in ("pack", "struct.pack") and e.args and not e.keywords:
            f = self.expand(e.args[0], st)
            args = [self.expand(a, st) for a in e.args[1:]]
            return [("struct", self._fmt_text(f), [norm(a) for a in args], args)]
        if self.pm is not None and isinstance(e, ast.Call) and isinstance(e.func, ast.Attribute) and e.func.attr == "pack":
            recv = self.expand(e.func.value, st)          # `self.X` / a constant / an inline `Struct(fmt)` / a local that holds one
            key = self.pm.struct_of(recv) or self.pm.struct_of_call(recv)
            if key is not None:
                args = [self.expand(a, st) for a in e.args]
                return [("struct", self.pm.struct_fmt_text(key), [norm(a) for a in args], args)]
        if isinstance(e, ast.Call) and chain(e.func) == "bytes" and len(e.args) == 1 and not e.keywords and isinstance(strip_cast(e.args[0]), (ast.List, ast.Tuple)) \
                and strip_cast(e.args[0]).elts and not any(isinstance(x, ast.Starred) for x in strip_cast(e.args[0]).elts):
            # bytes([a, b]): one unsigned byte per element, the same bytes as pack(">BB", a, b)
            args = [self.expand(a, st) for a in strip_cast(e.args[0]).elts]
            return [("struct", ">" + "B" * len(args), [norm(a) for a in args], args)]
        if isinstance(e, ast.Call) and isinstance(e.func, ast.Attribute) and e.func.attr == "to_bytes" and 1 <= len(e.args) <= 2 and const_value(e.args[0]) == 1 \
                and not any(k.arg == "signed" for k in e.keywords):
            recv = self.expand(e.func.value, st)            # x.to_bytes(1, "big"): one unsigned byte
            return [("struct", ">B", [norm(recv)], [recv])]
        if isinstance(e, ast.Name):
            if e.id in st.bytes:
                return list(st.bytes[e.id])
            return [("bytes", e.id)]
        if isinstance(e, ast.Call) and isinstance(e.func, ast.Attribute) and e.func.attr == "join" and len(e.args) == 1 and not e.keywords \
                and (const_value(e.func.value) == b"" or (isinstance(e.func.value, ast.Call) and chain(e.func.value.func) == "bytes" and not e.func.value.args)):
            x = strip_cast(e.args[0])
            if isinstance(x, (ast.List, ast.Tuple)) and not any(isinstance(y, ast.Starred) for y in x.elts):
                return [p for y in x.elts for p in self.pieces(y, st)]
            if isinstance(x, ast.Name) and x.id in st.lists:
                return [p for part in st.lists[x.id] for p in part]
            return [("bytes", norm(e))]
        if isinstance(e, ast.Call) and call_name(e) in ("pack", "pack_serializable"):
            return [("delegate", norm(e), e)]
        if isinstance(e, ast.Call):
            followed = self._follow_call(e, st)
            if followed is not None:
                return followed
        return [("bytes", norm(e))]

    depth = 0

    def _follow_call(self, e: ast.Call, st: _PackState):
        """
        Pieces of the bytes a call returns when the callee is a function of /repo this run can read: a method of a record object taken from a
        constant table (`family.encode(address)`, `self` standing for that display), a module-level function (also one moved to another
        module), a method of the packer.  The callee's parameters stand for the caller's argument expressions; only a callee with exactly
        one way to its `return` is followed (otherwise the call stays an opaque byte string, as before).
        """
        if self.pm is None or self.depth >= 3 or any(isinstance(a, ast.Starred) for a in e.args) or any(k.arg is None for k in e.keywords):
            return None
        repo = self.pm.ctx.repo

        def is_local(nm: str) -> bool:
            return nm in self.fi.params() or bool(local_defs(self.fi, nm))
        f = strip_cast(e.func)
        target, recv = None, None
        if isinstance(f, ast.Attribute):
            base = self.expand(f.value, st)
            k = record_class_of_display(repo, self.fi.module, base, is_local)
            if k is not None and self._closed(base):
                target, recv = k.lookup(f.attr), base
            elif isinstance(f.value, ast.Name) and f.value.id == "self" and "self" not in st.defs:
                kk = self.fi.cls or self.pm.cls
                target = kk.lookup(f.attr) if kk is not None else None
                recv = f.value
            if target is not None and target.decorator_names():
                return None
        elif isinstance(f, ast.Name) and not is_local(f.id) and f.id not in st.defs:
            r = repo.resolve_name(self.fi.module, f.id)
            target = r if isinstance(r, FuncInfo) and r.cls is None else None
        if target is None or target.is_async or target.node is self.fi.node or target.name in ("pack", "unpack", "__init__") \
                or any(isinstance(x, (ast.Yield, ast.YieldFrom)) for x in walk_no_nested(target.node)):
            return None
        a = target.node.args
        if a.vararg or a.kwarg or a.kwonlyargs:
            return None
        params = [x.arg for x in a.posonlyargs + a.args]
        bound: dict[str, ast.AST] = {}
        if recv is not None:
            if not params:
                return None
            bound[params[0]] = recv
            params = params[1:]
        if len(e.args) > len(params):
            return None
        for p_, x in zip(params, e.args):
            bound[p_] = self.expand(x, st)
        for kw in e.keywords:
            if kw.arg in bound or kw.arg not in params:
                return None
            bound[kw.arg] = self.expand(kw.value, st)
        defaults = dict(zip(params[len(params) - len(a.defaults):], a.defaults)) if a.defaults else {}
        for p_ in params:
            if p_ not in bound:
                if p_ not in defaults:
                    return None
                bound[p_] = strip_cast(defaults[p_])
        sub = PackRun(target, self.pm)
        sub.depth = self.depth + 1
        st0 = _PackState()
        for p_, x in bound.items():
            if not (isinstance(x, ast.Name) and x.id == p_):
                st0.defs[p_] = x
        if target.module is not self.fi.module:
            # a helper that lives in another module: its private constants (a format string, a width) do not exist under that name in the
            # caller's module - they are replaced by the literal they denote; names both modules know (shared tag constants) keep their name
            own = set(target.params()) | {n.id for n in ast.walk(target.node) if isinstance(n, ast.Name) and isinstance(n.ctx, ast.Store)}
            for n in ast.walk(target.node):
                if isinstance(n, ast.Name) and isinstance(n.ctx, ast.Load) and n.id not in own and n.id not in st0.defs \
                        and repo.resolve_name(self.fi.module, n.id) is None:
                    cv = repo.resolve_const(target.module, n)
                    if isinstance(cv, (str, bytes, int)) and not isinstance(cv, bool):
                        st0.defs[n.id] = ast.Constant(value=cv)
        try:
            sub.block(target.node.body, [st0])
        except AnalysisError:
            return None
        distinct = {tuple((p[0], p[1], tuple(p[2]) if p[0] == "struct" else None) for p in pcs) for _, pcs in sub.alts}
        if len(distinct) != 1 or not sub.alts:
            return None
        return list(sub.alts[0][1])

    # ---- statements
    def block(self, stmts, states: list[_PackState]) -> list[_PackState]:
        for s in stmts:
            nxt: list[_PackState] = []
            for st in states:
                nxt.extend(self.step(s, st))
            states = nxt
            if len(states) > self.LIMIT:
                raise AnalysisError(f"undecided: packer-symmetry: {self.fi.qualname}: more than {self.LIMIT} ways through the method")
        return states

    def _closed(self, e: ast.AST) -> bool:
        if any(isinstance(n, ast.Name) and (n.id in self.fi.params() or local_defs(self.fi, n.id)) and n.id not in ("self", "cls") for n in ast.walk(e)):
            return False
        return self._call_free(e)

    def _call_free(self, e: ast.AST) -> bool:
        if isinstance(e, (ast.Lambda, ast.ListComp, ast.GeneratorExp, ast.DictComp, ast.SetComp, ast.Await, ast.NamedExpr)):
            return False
        if isinstance(e, ast.Call):
            return self._record_display(e) is not None and all(self._call_free(x) for x in [*e.args, *[k.value for k in e.keywords]])
        return all(self._call_free(x) for x in ast.iter_child_nodes(e))

    def _bind(self, st: _PackState, tgt: ast.AST, value: ast.AST) -> None:
        value = strip_cast(value)
        if isinstance(tgt, ast.Name):
            self._forget(st, tgt.id)
            st.defs[tgt.id] = value
        elif isinstance(tgt, (ast.Tuple, ast.List)) and isinstance(value, (ast.Tuple, ast.List)) and len(tgt.elts) == len(value.elts) \
                and not any(isinstance(x, ast.Starred) for x in list(tgt.elts) + list(value.elts)):
            for t, v in zip(tgt.elts, value.elts):
                self._bind(st, t, v)
        elif isinstance(tgt, (ast.Tuple, ast.List)) and isinstance(value, ast.Call) and not any(isinstance(x, ast.Starred) for x in tgt.elts) \
                and (self._record_display(value) or ("", []))[0] == "tuple" and len(self._record_display(value)[1]) == len(tgt.elts):
            for t, (_, v) in zip(tgt.elts, self._record_display(value)[1]):
                self._bind(st, t, v)
        else:
            for n in ast.walk(tgt):
                if isinstance(n, ast.Name):
                    self._forget(st, n.id)

    @staticmethod
    def _forget(st: _PackState, name: str) -> None:
        st.bytes.pop(name, None)
        st.lists.pop(name, None)
        st.defs.pop(name, None)
        # (definitions are expanded when they are made: the remaining ones do not refer to this local's later values)

    def _assign_name(self, st: _PackState, name: str, value: ast.AST, pre: _PackState) -> None:
        core = strip_cast(value)
        pcs = self.pieces(core, pre)
        lst = None
        if isinstance(core, (ast.List, ast.Tuple)) and not any(isinstance(y, ast.Starred) for y in core.elts):
            lst = [self.pieces(y, pre) for y in core.elts]
        elif isinstance(core, ast.Name) and core.id in pre.lists:
            lst = pre.lists[core.id]                  # the same list object under another name
        elif isinstance(core, ast.Call) and chain(core.func) == "list" and not core.args and not core.keywords:
            lst = []
        d = self.expand(core, pre)
        self._forget(st, name)
        st.bytes[name] = pcs
        if lst is not None:
            st.lists[name] = lst
        if not any(isinstance(n, (ast.Await, ast.Yield, ast.YieldFrom, ast.NamedExpr)) for n in ast.walk(d)):
            st.defs[name] = d

    def step(self, s: ast.stmt, st: _PackState) -> list[_PackState]:  # noqa: C901, PLR0911, PLR0912
        if isinstance(s, (ast.Assign, ast.AnnAssign)):
            if s.value is None:
                return [st]
            tgts = s.targets if isinstance(s, ast.Assign) else [s.target]
            pre = st.copy()
            for tg in tgts:
                core = strip_cast(s.value)
                if isinstance(tg, ast.Name):
                    self._assign_name(st, tg.id, s.value, pre)
                elif isinstance(tg, (ast.Tuple, ast.List)) and not any(isinstance(t, ast.Starred) for t in tg.elts):
                    same = isinstance(core, (ast.Tuple, ast.List)) and len(core.elts) == len(tg.elts) and not any(isinstance(y, ast.Starred) for y in core.elts)
                    for i, t in enumerate(tg.elts):
                        if not isinstance(t, ast.Name):
                            continue
                        if same:
                            self._assign_name(st, t.id, core.elts[i], pre)
                        else:
                            sub = ast.Subscript(value=core, slice=ast.Constant(value=i), ctx=ast.Load())
                            self._assign_name(st, t.id, ast.copy_location(sub, core), pre)
                else:
                    for n in ast.walk(tg):
                        if isinstance(n, ast.Name) and isinstance(n.ctx, ast.Store):
                            self._forget(st, n.id)
            return [st]
        if isinstance(s, ast.AugAssign):
            if isinstance(s.target, ast.Name):
                name = s.target.id
                if isinstance(s.op, ast.Add):
                    add = self.pieces(s.value, st)
                    v = strip_cast(s.value)
                    if name in st.lists and isinstance(v, (ast.List, ast.Tuple)) and not any(isinstance(y, ast.Starred) for y in v.elts):
                        st.lists[name] = st.lists[name] + [self.pieces(y, st) for y in v.elts]
                    elif name in st.lists:
                        st.lists[name] = st.lists[name] + [[("bytes", norm(v))]]
                    st.bytes[name] = st.bytes.get(name, [("bytes", name)]) + add
                    st.defs.pop(name, None)
                else:
                    self._forget(st, name)
            return [st]
        if isinstance(s, ast.Expr):
            c = strip_cast(s.value)
            if isinstance(c, ast.Call) and isinstance(c.func, ast.Attribute) and isinstance(c.func.value, ast.Name) and c.func.value.id in st.lists and not c.keywords:
                name, meth = c.func.value.id, c.func.attr
                lst = st.lists[name]
                if meth == "append" and len(c.args) == 1:
                    lst.append(self.pieces(c.args[0], st))
                elif meth == "extend" and len(c.args) == 1:
                    v = strip_cast(c.args[0])
                    if isinstance(v, (ast.List, ast.Tuple)) and not any(isinstance(y, ast.Starred) for y in v.elts):
                        lst.extend(self.pieces(y, st) for y in v.elts)
                    else:
                        lst.append([("bytes", norm(v))])
                elif meth == "insert" and len(c.args) == 2 and isinstance(const_value(c.args[0]), int) and not isinstance(const_value(c.args[0]), bool):
                    lst.insert(const_value(c.args[0]), self.pieces(c.args[1], st))
                else:
                    st.lists.pop(name, None)
                st.bytes.pop(name, None)
                st.defs.pop(name, None)
            return [st]
        if isinstance(s, ast.Return):
            if s.value is not None:
                self.alts.append((s, self.pieces(s.value, st)))
            return []
        if isinstance(s, ast.Raise):
            return []
        if isinstance(s, ast.If):
            return self.block(s.body, [st.copy()]) + self.block(s.orelse, [st.copy()])
        if isinstance(s, (ast.With, ast.AsyncWith)):
            inner = st.copy()
            for it in s.items:
                if it.optional_vars is not None:
                    for n in ast.walk(it.optional_vars):
                        if isinstance(n, ast.Name):
                            self._forget(inner, n.id)
            out = self.block(s.body, [inner])
            if any(isinstance(it.context_expr, ast.Call) and (call_name(it.context_expr) or "").split(".")[-1] == "suppress" for it in s.items):
                out = out + [st.copy()]        # the exception was suppressed: execution continues after the block
            return out
        if isinstance(s, ast.Try) or s.__class__.__name__ == "TryStar":
            body = self.block(s.body, [st.copy()])
            out = self.block(s.orelse, body)
            for h in s.handlers:
                hs = st.copy()
                if h.name:
                    self._forget(hs, h.name)
                out = out + self.block(h.body, [hs])
            return self.block(s.finalbody, out) if s.finalbody else out
        if isinstance(s, (ast.For, ast.AsyncFor, ast.While)):
            starts = []
            entries = None
            if isinstance(s, ast.For) and self.pm is not None:
                repo = self.pm.ctx.repo
                entries = table_entries(lambda x: const_display(repo, self.fi, self.fi.cls or self.pm.cls, self.expand(x, st)), s.iter)
            if entries is not None and all(self._closed(x) for x in entries):
                for x in entries:              # a scan of a constant table: the body runs for an entry, one alternative per entry
                    inner = st.copy()
                    self._bind(inner, s.target, x)
                    starts.append(inner)
            else:
                inner = st.copy()
                if not isinstance(s, ast.While):
                    for n in ast.walk(s.target):
                        if isinstance(n, ast.Name):
                            self._forget(inner, n.id)
                starts.append(inner)
            out = self.block(s.body, starts) or [st]
            return self.block(s.orelse, out) if s.orelse else out
        if isinstance(s, ast.Match):
            out = [st.copy()]
            for case in s.cases:
                out = out + self.block(case.body, [st.copy()])
            return out
        return [st]


def pack_pieces(fi: FuncInfo, pm: PackerModel | None = None):
    """Pieces written by a pack method: list of alternatives (one per way to a `return`, duplicates removed), each a list of
    ('struct', fmt_text, [arg texts], [arg exprs]) / ('bytes', text) / ('delegate', text, call)."""
    run = PackRun(fi, pm)
    run.block(fi.node.body, [_PackState()])
    seen = set()
    out = []
    for ret, pcs in sorted(run.alts, key=lambda x: (x[0].lineno, x[0].col_offset)):
        key = (id(ret), tuple((p[0], p[1], tuple(p[2]) if p[0] == "struct" else None) for p in pcs))
        if key in seen:
            continue
        seen.add(key)
        out.append(pcs)
    return out


def _len_unit(fi: FuncInfo, e: ast.AST):
    """('len', unit) when e is `len(<the packed value>)` (unit '1') or `len(<the packed value>) // U` (unit = text of U); else the text of e."""
    e = resolve(fi, e)
    unit = "1"
    if isinstance(e, ast.Subscript) and const_value(e.slice) == 0 and isinstance(strip_cast(e.value), ast.Call) and chain(strip_cast(e.value).func) == "divmod" \
            and len(strip_cast(e.value).args) == 2:
        q = strip_cast(e.value)           # divmod(a, b)[0] == a // b
        e = ast.copy_location(ast.BinOp(left=q.args[0], op=ast.FloorDiv(), right=q.args[1]), e)
    if isinstance(e, ast.BinOp) and isinstance(e.op, ast.FloorDiv):
        unit = norm(e.right)
        e = resolve(fi, e.left)
    a = fi.node.args
    value_params = [p.arg for p in a.args][1:] + ([a.vararg.arg] if a.vararg else [])
    if isinstance(e, ast.Call) and chain(e.func) == "len" and len(e.args) == 1 and chain(resolve(fi, e.args[0])) in value_params:
        return ("len", unit)
    return norm(e)


def _addr_conversions(exprs, run) -> set:
    """(strictness, family, operand) of every inet_* conversion inside the expressions; operand (unpack side only) says whether the
    converted bytes are one whole struct field read from the wire."""
    out = set()
    for e in exprs:
        for c in ast.walk(e):
            if not isinstance(c, ast.Call):
                continue
            n = call_name(c)
            if n in ("inet_aton", "inet_ntoa") and c.args:
                fam, operand = ("legacy", "AF_INET"), c.args[0]
            elif n in ("inet_pton", "inet_ntop") and len(c.args) >= 2:
                fexpr = run.subst(c.args[0]) if run is not None else c.args[0]
                fam, operand = ("strict", (chain(fexpr) or norm(fexpr)).split(".")[-1]), c.args[1]
            else:
                continue
            whole = "whole-field"
            if run is not None:
                try:
                    v = run.lin(operand)
                    whole = "whole-field" if (not v.c and len(v.t) == 1 and next(iter(v.t)).startswith("wire") and next(iter(v.t.values())) == 1) else "derived"
                except Unknown:
                    whole = "derived"
            out.add((*fam, whole))
    return out


def _canonical_init_text(init: FuncInfo, e: ast.AST, own_attr: str = "") -> str:
    """
    Text of an expression of a constructor with single-assignment locals expanded and every sub-expression that equals the value stored in
    `self.X` (stored exactly once) written as `self.X`: `probe = array(real); self.real_format_str = real; .. probe.itemsize` reads
    `array(self.real_format_str).itemsize`.
    """
    def expand(x: ast.AST, depth: int = 0) -> ast.AST:
        class Ex(ast.NodeTransformer):
            def visit_Name(self, n: ast.Name):
                if isinstance(n.ctx, ast.Load) and depth < 6:
                    d = single_def(init, n.id)
                    if d is not None and d[1] is None and n.id not in init.params():
                        return expand(d[0], depth + 1)
                return n
        return Ex().visit(clone(strip_cast(x)))
    stored: dict[str, list] = {}
    for st in walk_no_nested(init.node):
        if isinstance(st, ast.Assign) and len(st.targets) == 1 and isinstance(st.targets[0], ast.Attribute) and chain(st.targets[0]) == f"self.{st.targets[0].attr}":
            stored.setdefault(st.targets[0].attr, []).append(st.value)
    canon = {ast.dump(expand(v[0])): a for a, v in stored.items() if a != own_attr and len(v) == 1 and
             (not isinstance(strip_cast(v[0]), (ast.Constant, ast.Name)) or (isinstance(strip_cast(v[0]), ast.Name) and single_def(init, strip_cast(v[0]).id) is not None))}

    class Fold(ast.NodeTransformer):
        def generic_visit(self, n):
            if isinstance(n, ast.expr) and ast.dump(n) in canon:
                return ast.Attribute(value=ast.Name(id="self", ctx=ast.Load()), attr=canon[ast.dump(n)], ctx=ast.Load())
            return super().generic_visit(n)
    out = Fold().visit(expand(e))
    return norm(ast.fix_missing_locations(out))


def _struct_chars(fmt: str) -> str:
    return re.sub(r"^[<>!=@]", "", fmt)


def rule_packer_symmetry(ctx: Ctx) -> None:
    repo = ctx.repo
    base = repo.cls("Packer", SER)
    classes = sorted(base.all_subclasses(), key=lambda c: c.name)
    ctx.floor("packer-symmetry.classes", len(classes), 11)
    n_paths = 0
    for cls in classes:
        un, pk = cls.lookup("unpack"), cls.lookup("pack")
        if un is None or pk is None or un.cls.name == "Packer":
            continue
        pm = PackerModel(ctx, un.cls)
        runs = run_unpack_paths(ctx, pm, un)
        if un.cls is not cls:
            continue            # inherited unchanged: analysed at the defining class
        abstract_gap = next((err for _, err in runs if err), None) if cls.name == "ListOf" else None
        if abstract_gap is not None:
            # the path-by-path run does not understand how the items are repeated (a callable object, reduce, an iterator pipeline): the list
            # framing is decided by interpreting pack / unpack instead (see _listof_interpreted); nothing is concluded from the partial paths
            _listof_interpreted(ctx, cls, pk, un, f"the abstract run stops at: {abstract_gap}")
            n_paths += len(runs)
            continue
        for run, err in runs:
            n_paths += 1
            if err:
                raise AnalysisError(f"packer-symmetry: {cls.name}.unpack: {err}")
            msg = check_tiling(run)
            layout = " | ".join(f"{k}@{s}+{l}" for s, l, k in run.reads)
            ctx.check(msg is None, "packer-symmetry", un, un.node, f"{cls.name}.unpack path [{layout}] -> returns {run.ret}: reads tile [offset, return)",
                      f"{cls.name}.unpack: {msg}: the reported end offset is not the absolute end of what was consumed (path [{layout}], returns {run.ret})")
            # every returning path delivers exactly the values the format stands for (one; eight for 'bits'): the Serializer lines the delivered
            # values up with from_unpack_list's parameters / the items of a list, so a path that consumes bytes but delivers nothing (or twice)
            # shifts every later field or shortens the decoded list - decode(encode(m)) != m
            want = 8 if cls.name == "Bits" else 1
            if run.n_out is not None:
                conds = "; ".join(f"{'' if lab else 'not '}{norm(a)[:40]}" for a, lab in run.conds[-3:])
                ctx.check(run.n_out == want, "packer-symmetry", un, un.node,
                          f"{cls.name}.unpack path [{layout}]{' when ' + conds if conds else ''}: delivers {want} value(s) to the unpack list",
                          f"{cls.name}.unpack: a returning path (bytes read: [{layout}]{'; taken when ' + conds if conds else ''}) appends {run.n_out} value(s) to the unpack "
                          f"list instead of {want}: the bytes are consumed but the decoded item is dropped / duplicated, so the decoded message has "
                          "fewer / shifted values than the encoded one and re-encoding gives other bytes")
        # ---- layout agreement with pack
        alts = pack_pieces(pk, pm)
        un_structs = [[k[len("struct:"):] for _, _, k in run.reads if k.startswith("struct:")] for run, _ in runs]
        if cls.name in ("Bits", "Raw", "NestedPayload", "NodePacker", "VarLenUtf8", "ListOf", "IPv4", "Address", "DefaultStruct", "VarLen", "DefaultArray", "Flags"):
            _layout_agreement(ctx, cls, pk, un, alts, runs)
    ctx.floor("packer-symmetry.paths", n_paths, 14)
    # decoders hand out fresh values: no memoisation on functions in the packer / payload modules (a cached list would be shared by every decoded message)
    for m in repo.modules.values():
        if not (m.relpath.startswith("ipv8/messaging/") and (m.relpath.endswith("payload.py") or m.relpath.endswith("serialization.py") or "lazy_payload" in m.relpath)):
            continue
        for f in m.all_functions:
            memo = [d for d in f.decorator_names() if d.split(".")[-1] in ("lru_cache", "cache", "cached_property")]
            ctx.check(not memo, "packer-symmetry", f, f.node, f"{f.qualname}: not memoised",
                      f"{f.qualname} is memoised ({memo}): every message with the same wire bytes decodes to the SAME mutable object, so changing one decoded value changes later decodes")


def _varlenutf8_interpreted(ctx: Ctx, cls: ClassInfo, pk: FuncInfo, un: FuncInfo) -> str | None:
    """
    VarLenUtf8 = the length-prefixed UTF-8 encoding of a str: __init__ / pack / unpack (and the VarLen methods they reach through super())
    are interpreted on sample strings (empty, ASCII, 2/3/4-byte code points) for the registered length formats; returns what differs
    from `prefix(len(utf8)) + utf8` / its inverse, None when nothing does.  Undecided when the methods cannot be interpreted.
    """
    repo = ctx.repo
    init = cls.lookup("__init__")
    try:
        for lf in (">H", ">I"):
            me = Opaque("VarLenUtf8 instance")

            def hooks(name, base, args, kwargs, me=me):
                if name == "super":
                    return Opaque("super()", {"\0super": True})
                if isinstance(base, Opaque) and base.attrs.get("\0super") and name is not None:
                    meth = name.split(".")[-1]
                    nxt = next((k.methods[meth] for k in cls.mro()[1:] if meth in k.methods), None)
                    if nxt is None or nxt.cls.name in ("Packer", "object"):
                        return None if meth == "__init__" else NotImplemented
                    return Mini(repo, nxt, hooks)(me, *args, **kwargs)
                return struct_hooks(name, base, args, kwargs)
            if init is not None and init.cls.name not in ("Packer", "object"):
                Mini(repo, init, hooks)(me, lf)
            width = struct.calcsize(lf)
            for text in ("", "abc", "h\u00e9llo \u20ac", "\U0001d11e clef", "x" * 300, "\ufeff", "\ufeffbom first", "a\ufeffb\ufeff"):
                raw = text.encode("utf-8")
                want = struct.pack(lf, len(raw)) + raw
                try:
                    got = Mini(repo, pk, hooks)(me, text)
                except MiniRaised as e:
                    return f"pack({text[:12]!r}) raises {e}"
                if got != want:
                    return f"pack({text[:12]!r}) gives {str(got)[:40]!r}, not the length-prefixed UTF-8 bytes"
                out: list = []
                data = b"\x01\x02\x03" + want + b"\xff"
                try:
                    end = Mini(repo, un, hooks)(me, data, 3, out)
                except MiniRaised as e:
                    return f"unpack of the packed {text[:12]!r} raises {e}"
                if out != [text] or not all(isinstance(x, str) for x in out) or end != 3 + width + len(raw):
                    return f"unpack of the packed {text[:12]!r} delivers {str(out)[:40]} and returns {end!r}"
    except MiniUndecided as e:
        raise AnalysisError(f"undecided: packer-symmetry: VarLenUtf8 does not have the reviewed encode()/decode() shape and cannot be interpreted: {e}") from e
    return None


def _listof_interpreted(ctx: Ctx, cls: ClassInfo, pk: FuncInfo, un: FuncInfo, why: str) -> None:
    """
    ListOf framing decided by what the methods compute: __init__, pack and unpack are interpreted (mini interpreter over their AST, struct =
    trusted stdlib, nothing of /repo is run) with a stand-in inner packer whose items have varying sizes, for EVERY count a one-byte prefix
    can hold (0..255, the length format every shipped '-list' name uses) and sample counts of a two-byte prefix.  Required: pack writes the
    count with the length format followed by the packed items in order; unpack reads the count at the offset, calls the inner packer exactly
    count times, the first time right behind the prefix and then where the previous item ended, always on the same buffer, into one fresh
    list that is delivered once, passes the extra arguments on, and returns where the last item ended.
    """
    repo = ctx.repo
    init = cls.lookup("__init__")
    if init is None:
        raise AnalysisError("anchor-lost: ListOf.__init__")

    def problem() -> str | None:  # noqa: C901, PLR0911, PLR0912
        for lf in (">B", ">H"):
            width = struct.calcsize(lf)
            for n in (range(256) if lf == ">B" else (0, 1, 2, 255, 256, 700)):
                sizes = [(7 * i + 3) % 5 + 1 for i in range(n)]
                inner, me, extra = Opaque("inner packer"), Opaque("ListOf instance"), Opaque("extra argument")
                calls: list = []

                def hooks(name, base, args, kwargs, inner=inner, calls=calls, sizes=sizes):
                    if base is inner and name is not None and name.split(".")[-1] == "unpack":
                        if kwargs or len(args) < 3 or not isinstance(args[1], int) or not isinstance(args[2], list):
                            raise MiniUndecided(f"inner packer called as unpack{tuple(args)!r}")
                        i = len(calls)
                        calls.append((args[0], args[1], args[2], tuple(args[3:])))
                        args[2].append(("item", i))
                        return args[1] + (sizes[i] if i < len(sizes) else 1)
                    if base is inner and name is not None and name.split(".")[-1] == "pack":
                        if kwargs or len(args) != 1 or not (isinstance(args[0], tuple) and args[0][:1] == ("item",)):
                            raise MiniUndecided(f"inner packer called as pack{tuple(args)!r}")
                        return bytes([args[0][1] % 251 + 1]) * sizes[args[0][1]]
                    return struct_hooks(name, base, args, kwargs)
                Mini(repo, init, hooks)(me, inner, lf)
                body = b"".join(bytes([i % 251 + 1]) * sizes[i] for i in range(n))
                # ---- pack
                try:
                    got = Mini(repo, pk, hooks, fuel=400000)(me, [("item", i) for i in range(n)])
                except MiniRaised as e:
                    got = f"raises {e}"
                want = struct.pack(lf, n) + body
                if got != want:
                    return f"pack of {n} items with length format {lf!r} gives {str(got)[:60]!r}, not the count followed by the packed items"
                # ---- unpack
                data = b"\xaa\xaa\xaa" + want + b"\xbb\xbb"
                out: list = []
                try:
                    end = Mini(repo, un, hooks, fuel=400000)(me, data, 3, out, extra)
                except MiniRaised as e:
                    return f"unpack of {n} items (length format {lf!r}) raises {e}"
                if len(calls) != n:
                    return f"the count on the wire is {n} but the inner packer is run {len(calls)} times"
                pos = 3 + width
                for i, (d, off, lst, rest) in enumerate(calls):
                    if d is not data and d != data:
                        return "the inner packer is not run on the buffer that was handed in"
                    if off != pos:
                        return f"item {i} of {n} is read at offset {off}, the previous one ended at {pos}: the offset is not threaded"
                    if lst is not calls[0][2]:
                        return "the items are not collected in one list"
                    if rest != (extra,):
                        return "the extra arguments are not passed on to the inner packer"
                    pos = off + sizes[i]
                if end != pos:
                    return f"unpack of {n} items returns offset {end!r}, the last item ended at {pos}"
                items = [("item", i) for i in range(n)]
                if not (len(out) == 1 and isinstance(out[0], list) and out[0] == items and (n == 0 or out[0] is calls[0][2])):
                    return f"unpack of {n} items delivers {str(out)[:60]} instead of one list of the {n} items in order"
        return None
    try:
        bad = problem()
    except MiniUndecided as e:
        raise AnalysisError(f"undecided: packer-symmetry: ListOf ({why}) and its methods cannot be interpreted either: {e}") from e
    if bad is None:
        # agreement on the counts that were tried is no proof (a two-byte prefix is only sampled): the evaluation may refute, never accept
        raise AnalysisError(f"undecided: packer-symmetry: ListOf ({why}): its framing is not one of the recognised shapes; no counter-example among the evaluated "
                            "counts, but that the count drives the inner unpacks for every count is not decided")
    ctx.check(False, "packer-symmetry", un, un.node,
              f"ListOf (evaluated for the counts 0..255, since {why}): count prefix = number of items; the inner packer runs count times on the threaded offset",
              f"ListOf: {bad}: the item count on the wire does not drive the number of inner unpacks / the offset is not threaded")


def _flags_boundary_refuted(ctx: Ctx, cls: ClassInfo, pk: FuncInfo, un: FuncInfo) -> str | None:
    """
    Flags: every value of the flag word is legal, in particular 0 = the empty flag collection.  __init__ / unpack / pack are interpreted on
    sample flag words (0, single bits, several bits, all bits): pack(unpack(word)) must be the word again.  A sample can only REFUTE; when
    the methods cannot be interpreted nothing is concluded (None).
    """
    repo = ctx.repo
    init = cls.lookup("__init__")
    try:
        for fmt in (">H", ">B"):
            me = Opaque("Flags instance")
            if init is not None and init.cls.name not in ("Packer", "object"):
                Mini(repo, init, struct_hooks)(me, fmt)
            top = 8 * struct.calcsize(fmt)
            for word in (0, 1, 2, 1 << (top - 1), 3, 0b1010, (1 << top) - 1):
                wire = struct.pack(fmt, word)
                out: list = []
                try:
                    Mini(repo, un, struct_hooks)(me, b"\x07" + wire + b"\x09", 1, out)
                except MiniRaised as e:
                    return f"unpack of the flag word {word:#x} ({fmt!r}) raises {e}"
                if len(out) != 1 or not isinstance(out[0], (list, tuple, set, frozenset)):
                    return None
                try:
                    got = Mini(repo, pk, struct_hooks)(me, out[0])
                except MiniRaised as e:
                    return (f"pack of the decoded flag collection {sorted(out[0])!r} (flag word {word:#x}, format {fmt!r}) raises {e}: "
                            + ("the EMPTY collection - a peer that offers no service, wire bytes all zero - cannot be encoded" if word == 0 else "it cannot be encoded"))
                if got != wire:
                    return f"pack of the decoded flag collection {sorted(out[0])!r} gives {got!r}, the wire bytes were {wire!r}"
    except (MiniUndecided, RecursionError):
        return None
    return None


def _listof_boundary_refuted(ctx: Ctx, cls: ClassInfo, pk: FuncInfo) -> str | None:
    """
    ListOf.pack at the boundaries of the item count a one-byte prefix can hold (0, 1, 254, 255 items - all legal): it must give the count
    followed by the packed items.  The method is interpreted with a stand-in inner packer; a sample can only REFUTE, and when the methods
    cannot be interpreted nothing is concluded (None).
    """
    repo = ctx.repo
    init = cls.lookup("__init__")
    if init is None:
        return None
    try:
        for lf, counts in ((">B", (0, 1, 254, 255)), (">H", (0, 255, 256))):
            for n in counts:
                inner, me = Opaque("inner packer"), Opaque("ListOf instance")

                def hooks(name, base, args, kwargs, inner=inner):
                    if base is inner and name is not None and name.split(".")[-1] == "pack":
                        if kwargs or len(args) != 1 or not (isinstance(args[0], tuple) and args[0][:1] == ("item",)):
                            raise MiniUndecided(f"inner packer called as pack{tuple(args)!r}")
                        return bytes([args[0][1] % 251 + 1])
                    return struct_hooks(name, base, args, kwargs)
                Mini(repo, init, hooks)(me, inner, lf)
                want = struct.pack(lf, n) + b"".join(bytes([i % 251 + 1]) for i in range(n))
                try:
                    got = Mini(repo, pk, hooks, fuel=400000)(me, [("item", i) for i in range(n)])
                except MiniRaised as e:
                    return f"pack of a list of {n} items with the length format {lf!r} (whose count prefix holds up to {256 ** struct.calcsize(lf) - 1}) raises {e}"
                if got != want:
                    return f"pack of a list of {n} items with the length format {lf!r} gives {str(got)[:40]!r}, not the count followed by the packed items"
    except (MiniUndecided, RecursionError):
        return None
    return None


def _layout_agreement(ctx: Ctx, cls: ClassInfo, pk: FuncInfo, un: FuncInfo, alts, runs) -> None:
    """Pack and unpack must use the same struct formats (as concatenated field codes) and the same length unit."""
    def chars_of_pack(pieces) -> str:
        out = ""
        for p in pieces:
            if p[0] == "struct":
                out += _struct_chars(p[1])
            else:
                out += "{n}s"        # raw bytes, or bytes produced by a delegated pack
        return out

    def chars_of_run(run) -> str:
        out = ""
        for s, l, k in run.reads:
            if k.startswith("struct:"):
                out += _struct_chars(k[len("struct:"):])
            elif k in ("bytes", "rest"):
                out += "{n}s"
            else:
                out += "<delegate>"
        return out
    packs = sorted({chars_of_pack(p) for p in alts})
    unpacks = sorted({chars_of_run(r) for r, _ in runs})
    # normalise "BH{n}sH" (one struct with embedded string) vs "B" "H" "{n}s" "H"
    ok = packs == unpacks or (cls.name in ("NestedPayload",) and packs == ["H{n}s"] and unpacks == ["H{n}s"])
    if cls.name == "VarLenUtf8":
        ok = True       # delegates both ways to VarLen (checked there); encode/decode pairing checked below
    if cls.name in ("ListOf",):
        ok = len(packs) == 1 and packs[0].startswith("self.length_format") and all(u.startswith("self.length_format") for u in unpacks)
    if cls.name == "NodePacker":
        ok = True
    if cls.name == "Bits":
        ok = packs == ["B"] and unpacks == ["B"]
    ctx.check(ok, "packer-symmetry", pk, pk.node, f"{cls.name}: pack layout {packs} == unpack layout {unpacks}",
              f"{cls.name}: pack writes {packs} but unpack reads {unpacks}: the decoder is not the inverse of the encoder")
    # ---- unit of the length prefix
    if cls.name in ("VarLen", "DefaultArray"):
        # pack: the prefix counts len(data) in units of U;  unpack: the bytes taken after the prefix number (prefix value) * U
        lens = list(dict.fromkeys(_len_unit(pk, p[3][0]) for a in alts for p in a if p[0] == "struct" and p[3]))
        mult = set()
        shape_ok = True
        for r, _ in runs:
            kinds = [k for _, _, k in r.reads]
            if kinds != ["struct:self.length_format", "bytes"] or r.reads[0][0] != Lin.sym("offset"):
                shape_ok = False
                continue
            mult.add(str(r.reads[1][1]))
        want_unit = str(Lin(0, {"*".join(sorted(["self.base", "wire0[0]"])): 1}))
        if cls.name == "VarLen":
            ok = lens == [("len", "self.base")] and shape_ok and mult == {want_unit}
            ctx.check(ok, "packer-symmetry", pk, pk.node, "VarLen: prefix = len(data) // base on pack, length = prefix * base on unpack",
                      f"VarLen: length unit differs between pack ({lens}) and unpack (bytes taken: {sorted(mult)})")
        else:
            ok = lens == [("len", "1")] and shape_ok and mult == {want_unit}
            init = cls.methods["__init__"]
            b = [s for s in walk_no_nested(init.node) if isinstance(s, ast.Assign) and chain(s.targets[0]) == "self.base"]
            ok = ok and len(b) == 1 and _canonical_init_text(init, b[0].value, "base") == "array(self.real_format_str).itemsize"
            ctx.check(ok, "packer-symmetry", pk, pk.node, "DefaultArray: prefix = item count, byte length = count * itemsize",
                      f"DefaultArray: item count / byte length units differ between pack ({lens}) and unpack (bytes taken: {sorted(mult)})")
    if cls.name == "ListOf":
        cnt = list(dict.fromkeys(_len_unit(pk, p[3][0]) for a in alts for p in a if p[0] == "struct" and p[3]))
        # the count read with the length format drives the one loop; the inner packer is run on the threaded offset
        # (the number of rounds of the loop is a linear form over the wire values: `for .. in range(n)`, `range(0, n)`, a counting `while`)
        loops_seen = {id(l): (l, n) for r, _ in runs for l, n in r.loops}
        twin_loops = {id(_orig(l)): l for l in walk_no_nested(_twin(ctx, un)[0] or un.node) if isinstance(l, (ast.While, ast.For, ast.AsyncFor))}
        odd = [l for l in walk_no_nested(un.node) if isinstance(l, (ast.While, ast.For, ast.AsyncFor)) and (id(l) not in loops_seen or loops_seen[id(l)][1] is None)
               and any(call_name(c) == "unpack" for c in calls(twin_loops.get(id(l), l)))]
        if odd:
            _listof_interpreted(ctx, cls, pk, un, f"the inner packer is repeated with `{norm(odd[0])[:60]}`")
            return
        looped = [r for r, _ in runs if r.loops]
        ok = cnt == [("len", "1")] and bool(looped)
        for r, _ in runs:
            if not r.reads or r.reads[0][2] != "struct:self.length_format" or r.reads[0][0] != Lin.sym("offset"):
                ok = False
            if len({id(l) for l, _ in r.loops}) > 1 or any(n != r.wsym(0, 0) for _, n in r.loops):
                ok = False
        # (calls through an early-bound method local - `unpack_item = self.packer.unpack` - are read as calls of the chain they were bound from)
        inner = [c for c in calls(_twin(ctx, un)[0] or un.node) if call_name(c) == "unpack" and isinstance(c.func, ast.Attribute) and rchain(un, c.func.value) == "self.packer"]
        ok = ok and len(inner) == 1 and len(inner[0].args) >= 2 and chain(inner[0].args[0]) == un.params()[1] and isinstance(inner[0].args[1], ast.Name)
        if ok:
            # threaded: the new offset returned by the inner packer is stored in the very variable that is passed as its offset
            st = enclosing_stmt(inner[0])
            ok = isinstance(st, ast.Assign) and strip_cast(st.value) is inner[0] and [chain(t) for t in st.targets] == [inner[0].args[1].id] \
                and any(id(a) in loops_seen for a in ancestors(inner[0]))
        if not ok:
            # not the reviewed loop shape: before anything is reported, decide by interpretation what pack / unpack compute
            _listof_interpreted(ctx, cls, pk, un, "the loop over the items does not have the reviewed shape")
            return
        ctx.check(ok, "packer-symmetry", un, un.node, "ListOf: count prefix = number of items; the inner packer runs count times on the threaded offset",
                  "ListOf: the item count on the wire does not drive the number of inner unpacks / the offset is not threaded")
        bad = _listof_boundary_refuted(ctx, cls, pk)
        ctx.check(bad is None, "packer-symmetry", pk, pk.node, "ListOf.pack: 0 / 1 / 254 / 255 items give count + items (refutation only)",
                  f"ListOf.pack: {bad}: a list the count prefix can describe is refused / written differently, so a legal message cannot be encoded")
    if cls.name == "VarLenUtf8":
        def utf8_call(fi, c, meth):
            """c is `<x>.encode()` / `<x>.decode()` with the default (or an explicit utf-8) codec."""
            return isinstance(c, ast.Call) and isinstance(c.func, ast.Attribute) and c.func.attr == meth and not c.keywords \
                and (not c.args or (len(c.args) == 1 and str(const_value(c.args[0])).lower().replace("-", "") == "utf8"))
        value_param = pk.params()[1]
        parents = {k.name for k in cls.mro()[1:]}

        def parent_call(c: ast.Call, meth: str):
            """arguments of `super().<meth>(..)` / `<Base>.<meth>(self, ..)`, else None"""
            if chain(c.func) == f"super().{meth}":
                return list(c.args)
            if isinstance(c.func, ast.Attribute) and c.func.attr == meth and isinstance(c.func.value, ast.Name) and c.func.value.id in parents \
                    and c.args and chain(c.args[0]) == "self":
                return list(c.args[1:])
            return None
        enc = False
        for c in calls(pk):
            pa = parent_call(c, "pack")
            if pa is not None and len(pa) == 1:
                a = resolve(pk, pa[0])
                enc = enc or (utf8_call(pk, a, "encode") and chain(resolve(pk, a.func.value)) == value_param)
        dec = any(utf8_call(un, c, "decode") for c in calls(un)) and any(parent_call(c, "unpack") is not None for c in calls(un))
        how = ""
        # the codec NAMES on the two sides are constants: they must denote the same codec (aliases 'utf8' / 'UTF-8' / 'U8' normalised by the
        # codec registry of the trusted stdlib).  'utf-8-sig' / 'utf-16' / 'latin-1' on one side only is another mapping between str and
        # bytes: some str does not come back as it was sent (utf-8-sig drops a leading U+FEFF) or other implementations read other text
        import codecs

        def codec_names(fi, enc_side: bool) -> set:
            out = set()
            for c in calls(fi):
                nm = None
                if isinstance(c.func, ast.Attribute) and c.func.attr == ("encode" if enc_side else "decode") and len(c.args) + len(c.keywords) <= 2:
                    x = arg(c, 0, "encoding")
                    nm = "utf-8" if x is None else const_value(fold_consts(ctx.repo, fi.module, x))
                elif chain(c.func) == ("bytes" if enc_side else "str") and len(c.args) + len(c.keywords) >= 2:
                    x = arg(c, 1, "encoding")
                    nm = const_value(fold_consts(ctx.repo, fi.module, x)) if x is not None else None
                else:
                    continue
                if isinstance(nm, str):
                    try:
                        out.add(codecs.lookup(nm).name)
                    except LookupError:
                        out.add("unknown codec " + nm)
            return out
        ce, cd = codec_names(pk, True), codec_names(un, False)
        if ce and cd and (len(ce) > 1 or len(cd) > 1 or ce != cd or ce != {"utf-8"}):
            ctx.check(False, "packer-symmetry", un, un.node, "VarLenUtf8: same codec on both sides",
                      f"VarLenUtf8.pack encodes with codec {sorted(ce)} but VarLenUtf8.unpack decodes with {sorted(cd)}: the two are not the UTF-8 pair the wire "
                      "format prescribes, so some legal str does not decode to what was encoded (e.g. 'utf-8-sig' strips a leading U+FEFF) or other "
                      "implementations read other text")
            return
        if not (enc and dec):
            # not the reviewed spelling (`bytes(s, "utf-8")`, `str(b, "utf-8")`, codecs, a helper ..): decided by what pack / unpack compute
            bad = _varlenutf8_interpreted(ctx, cls, pk, un)
            if bad is None:
                # agreement on the strings that were tried is no proof: the evaluation may refute, never accept
                raise AnalysisError("undecided: packer-symmetry: VarLenUtf8 does not pair the reviewed encode()/decode() spellings around VarLen; no counter-example "
                                    "among the evaluated strings, but that it is the length-prefixed UTF-8 encoding of every str is not decided")
            how = f" (evaluated on witness strings: {bad})"
        ctx.check(enc and dec, "packer-symmetry", pk, pk.node, "VarLenUtf8: encode() on pack, decode() on unpack around VarLen" + (how if enc and dec else ""),
                  "VarLenUtf8 does not pair encode/decode around VarLen" + how)
    if cls.name == "Address":
        consts = ctx.repo.module(SER).constants
        vals = {k: ctx.repo.resolve_const(ctx.repo.module(SER), consts[k]) for k in ("ADDRESS_TYPE_IPV4", "ADDRESS_TYPE_DOMAIN_NAME", "ADDRESS_TYPE_IPV6")}
        ok = len(set(vals.values())) == 3
        # the type tag is the first value of the first struct a branch writes (later pieces - the port written by a struct of its own - are data)
        def tag_name(p) -> str:
            """the tag constant a written tag expression denotes: its own name, or - for another spelling of the same integer (a member of
            an IntEnum / IntFlag built from the constants, a literal) - the name of the one tag constant with that value"""
            if p[2][0] in vals:
                return p[2][0]
            x = strip_cast(p[3][0])
            if isinstance(x, ast.Attribute):
                k_ = ctx.repo.resolve_class_expr(pk.module, x.value)
                if k_ is not None and any(b.split(".")[-1] in ("Enum", "Flag", "StrEnum") for b in k_.all_base_names()) \
                        and not any(b.split(".")[-1] in ("IntEnum", "IntFlag", "int") for b in k_.all_base_names()):
                    return p[2][0]              # a member of a plain Enum is not an integer: struct.pack would refuse it
            cv_ = ctx.repo.resolve_const(pk.module, x, pk.cls)
            same = [n_ for n_, v_ in vals.items() if isinstance(cv_, int) and not isinstance(cv_, bool) and v_ == cv_]
            return same[0] if len(same) == 1 else p[2][0]
        tags_p = sorted({tag_name(p) for a in alts for p in a[:1] if p[0] == "struct" and p[2]})
        for a in alts:
            for p in a[:1]:
                if p[0] == "struct" and p[2] and p[2][0] not in vals:
                    cv = ctx.repo.resolve_const(pk.module, p[3][0], pk.cls)
                    if not (isinstance(cv, int) and not isinstance(cv, bool)):
                        # the tag a pack branch writes is computed (an attribute of a table entry this analysis cannot take apart, a parameter ..):
                        # which tag goes with which layout is then not known - no verdict rather than a guess
                        raise AnalysisError(f"undecided: packer-symmetry: Address.pack writes the type tag `{p[2][0][:40]}`, which is not one of the tag constants")
        ctx.check(ok and tags_p == sorted(vals), "packer-symmetry", pk, pk.node, f"Address: three distinct type tags {vals}, each written by one pack branch",
                  f"Address: type tags {vals} / written {tags_p}")
        # each unpack branch is selected by the tag that the matching pack branch writes, and reads the layout that branch wrote.
        # Decided per tag value: the first wire byte is ASSUMED to be that tag; conditions on it (==, in, lookups in constant tables,
        # scans of constant tables) are evaluated, paths they exclude are dropped, and every remaining returning path must read
        # the layout pack writes for the tag - however the selection is spelled (if-chain, single exit, table, helper).
        if any(isinstance(x, ast.Match) for x in walk_no_nested(un.node)) and _match_free(ctx, un) is None:
            raise AnalysisError("undecided: packer-symmetry: Address.unpack selects the layout with a match statement whose patterns are not "
                                "expressible as the if/elif chain they mean")
        pm = PackerModel(ctx, un.cls)
        layout_p: dict = {}
        conv_p: dict = {}
        for a in alts:
            for p in a[:1]:
                if p[0] == "struct" and p[2]:
                    layout_p.setdefault(tag_name(p), set()).add(chars_of_pack(a))
                    conv_p.setdefault(tag_name(p), set()).update(c for q in a if q[0] == "struct" for c in _addr_conversions(q[3], None))
        layout_u: dict = {}
        conv_u: dict = {}
        sizes: dict = {}
        opens: list[str] = []
        for t in [*sorted(vals), "<other>"]:
            for r, err in run_unpack_paths(ctx, pm, un, assume=(vals, t)):
                if err:
                    raise AnalysisError(f"packer-symmetry: Address.unpack (tag {t}): {err}")
                if r.open_tag is not None:
                    opens.append(r.open_tag)
                layout_u.setdefault(t, set()).add(chars_of_run(r))
                conv_u.setdefault(t, set()).update(r.convs)
                sizes.setdefault(t, set()).add(str(r.ret - Lin.sym("offset")) if r.ret is not None else "?")
        untagged = len(layout_u.pop("<other>", ()))
        conv_u.pop("<other>", None)
        ok = untagged == 0 and layout_p == layout_u and all(len(v) == 1 for v in layout_p.values())
        if opens and not (ok and all(conv_p.get(t, set()) == conv_u.get(t, set()) for t in set(conv_p) | set(conv_u))):
            # a selection on the tag that could not be evaluated was followed both ways: the pairing found is then an over-approximation -
            # no verdict rather than an alarm about branches the code may never take for that tag
            raise AnalysisError(f"undecided: packer-symmetry: Address.unpack selects the layout with `{opens[0]}`, which depends on the type tag "
                                "but cannot be evaluated for an assumed tag")
        shown_p = {t: sorted(v) for t, v in layout_p.items()}
        ctx.check(ok, "packer-symmetry", un, un.node,
                  f"Address.unpack: every returning path is selected by one tag and reads the layout pack writes for that tag {shown_p} (sizes { {t: sorted(v) for t, v in sizes.items() if t != '<other>'} })",
                  f"Address.unpack tag/layout pairing is { {t: sorted(v) for t, v in layout_u.items()} } ({untagged} returning layouts for a first byte that is no tag), pack writes {shown_p}")
        # per tag, the text conversion is the inverse partner of the one pack used for that tag, applied to the whole field: what was decoded
        # under tag T must be encoded under tag T again (pack chooses the tag by which inet_pton family accepts the host string)
        for t in sorted(set(conv_p) | set(conv_u)):
            ctx.check(conv_p.get(t, set()) == conv_u.get(t, set()), "packer-symmetry", un, f"Address tag {t}", f"Address tag {t}: unpack converts with {sorted(conv_u.get(t, ()))} = partner of pack",
                      f"Address.unpack under tag {t} converts the host with {sorted(conv_u.get(t, ()))} but Address.pack writes tag {t} for hosts accepted by "
                      f"{sorted(conv_p.get(t, ()))}: the decoded address is not the one that was encoded (re-encoding it selects another tag / other bytes)")
    if cls.name in ("Address", "IPv4"):
        # text<->binary address conversion must use inverse partners on both sides (inet_aton accepts legacy notations that inet_pton rejects,
        # so probing with it turns numeric-looking host names into IPv4 addresses)
        # (pack side: conversions inside the packed values with locals expanded per path; unpack side: conversions evaluated on the paths,
        #  with the family taken from the constant table entry / helper argument that is in force there)
        cp = {c[:2] for a in alts for p in a if p[0] == "struct" for c in _addr_conversions(p[3], None)}
        cp |= {c[:2] for c in _addr_conversions([st for st in walk_no_nested(pk.node) if isinstance(st, ast.stmt) and st is not pk.node], None)
               if c[1].startswith("AF_")}
        cu = {c[:2] for r, _ in runs for c in r.convs}
        ctx.check(cp == cu and bool(cp), "packer-symmetry", pk, pk.node, f"{cls.name}: address text conversion pairs {sorted(cp)} on both sides",
                  f"{cls.name}: pack converts addresses with {sorted(cp)} but unpack with {sorted(cu)}: the probe accepts strings the decoder would never produce "
                  "(e.g. inet_aton accepts '10.1'), so a domain name is written as an IPv4 address")
    if cls.name == "NodePacker":
        # formats in the order their bytes are concatenated (pack) / consumed (unpack), whatever the order of the statements
        pf = [[const_value(x[2].args[0]) if x[0] == "delegate" and x[2].args else None for x in a] for a in alts]
        uf = [[const_value(f) if f is not None else None for f in r.delegate_fmts] for r, _ in runs]
        if any(r.loops for r, _ in runs) or any(not isinstance(f, str) for fs in pf + uf for f in fs):
            raise AnalysisError("undecided: packer-symmetry: NodePacker packs / unpacks its parts in a loop or with computed format names; "
                                "only a fixed sequence of serializer.pack(<name>, ..) / serializer.unpack(<name>, ..) calls is decided")
        p = sorted({tuple(fs) for fs in pf})
        u = sorted({tuple(fs) for fs in uf})
        ctx.check(p == u and len(p) == 1 and len(p[0]) == 2, "packer-symmetry", pk, pk.node, f"NodePacker: packs {p} and unpacks {u} in the same order", f"NodePacker packs {p} but unpacks {u}")
    if cls.name == "Flags":
        # one struct value on both sides, with the same format (inline `pack(self.format, ..)` or a precompiled Struct of it)
        pfm = [[x[1] for x in a if x[0] == "struct"] if all(x[0] == "struct" for x in a) else None for a in alts]
        ufm = [[k[len("struct:"):] for _, _, k in r.reads] if all(k.startswith("struct:") for _, _, k in r.reads) else None for r, _ in runs]
        ok = bool(pfm) and bool(ufm) and all(f == ["self.format"] for f in pfm) and all(f == ["self.format"] for f in ufm)
        ctx.check(ok, "packer-symmetry", pk, pk.node, "Flags: same struct format on both sides", f"Flags packs and unpacks with different formats (pack {pfm}, unpack {ufm})")
        bad = _flags_boundary_refuted(ctx, cls, pk, un)
        ctx.check(bad is None, "packer-symmetry", pk, pk.node, "Flags: pack(unpack(word)) = word for the sample flag words 0, single bits, all bits (refutation only)",
                  f"Flags: {bad}: a legal flag word does not survive decode + encode, so the message that carries it cannot be re-encoded to the same bytes")


# ------------------------------------------------------------------------------------------ concrete mini-interpreter
class MiniUndecided(Exception):
    """Syntax / call outside the supported subset: the caller turns this into an AnalysisError (never into a verdict)."""


class MiniRaised(Exception):
    """The interpreted function raised (explicit `raise`, or a Python error of one of its own operations)."""

    def __init__(self, msg: str = "", kind: str | None = None, value=None) -> None:
        super().__init__(msg)
        self.kind = kind            # name of the exception class when known ("KeyError", "PackError", "struct.error" -> "error")
        self.value = value          # the interpreted exception object of an explicit `raise`, if it was built


class _Ret(Exception):
    def __init__(self, value) -> None:
        self.value = value


class _Brk(Exception):
    pass


class _Cont(Exception):
    pass


class Opaque:
    """A value the interpreted code may pass around and read attributes of, but not compute with."""

    def __init__(self, label: str, attrs: dict | None = None) -> None:
        self.label = label
        self.attrs = attrs or {}

    def __repr__(self) -> str:
        return f"<{self.label}>"


_BIN = {ast.Add: operator.add, ast.Sub: operator.sub, ast.Mult: operator.mul, ast.FloorDiv: operator.floordiv, ast.Mod: operator.mod,
        ast.BitOr: operator.or_, ast.BitAnd: operator.and_, ast.BitXor: operator.xor, ast.LShift: operator.lshift, ast.RShift: operator.rshift,
        ast.Pow: operator.pow}
_IBIN = {ast.Add: operator.iadd, ast.Sub: operator.isub, ast.Mult: operator.imul, ast.FloorDiv: operator.ifloordiv, ast.Mod: operator.imod,
         ast.BitOr: operator.ior, ast.BitAnd: operator.iand, ast.BitXor: operator.ixor, ast.LShift: operator.ilshift, ast.RShift: operator.irshift,
         ast.Pow: operator.ipow}
_CMP = {ast.Eq: operator.eq, ast.NotEq: operator.ne, ast.Lt: operator.lt, ast.LtE: operator.le, ast.Gt: operator.gt, ast.GtE: operator.ge,
        ast.Is: operator.is_, ast.IsNot: operator.is_not, ast.In: lambda a, b: a in b, ast.NotIn: lambda a, b: a not in b}
_BUILTINS = {"bool": bool, "int": int, "len": len, "range": range, "list": list, "tuple": tuple, "enumerate": enumerate, "zip": zip,
             "reversed": reversed, "sum": sum, "any": any, "all": all, "filter": filter, "map": map, "min": min, "max": max, "sorted": sorted,
             "bytes": bytes, "abs": abs, "divmod": divmod, "reduce": functools.reduce, "functools.reduce": functools.reduce, "dict": dict,
             "set": set, "frozenset": frozenset, "str": str, "isinstance": None}
_BUILTINS.update({"next": next, "iter": iter, "slice": slice, "bytearray": bytearray, "chr": chr, "ord": ord, "hex": hex, "pow": pow,
                  "float": float, "round": round, "repr": repr, "bin": bin})
# trusted stdlib callables, named by the module path their import resolves to (whatever local alias the module uses)
_STDLIB = {f"operator.{n}": getattr(operator, n) for n in (
    "or_", "and_", "xor", "add", "sub", "mul", "floordiv", "mod", "lshift", "rshift", "eq", "ne", "lt", "le", "gt", "ge", "is_", "is_not", "not_",
    "truth", "contains", "getitem", "neg", "invert", "index", "concat", "countOf", "indexOf", "pos", "abs", "pow", "ior", "iand", "ixor", "iadd")}
_STDLIB.update({f"itertools.{n}": getattr(itertools, n) for n in (
    "chain", "islice", "takewhile", "dropwhile", "accumulate", "starmap", "compress", "zip_longest", "product", "filterfalse", "pairwise", "tee",
    "groupby", "permutations", "combinations", "batched") if hasattr(itertools, n)})
_STDLIB.update({"itertools.chain.from_iterable": itertools.chain.from_iterable, "functools.reduce": functools.reduce, "functools.partial": functools.partial,
                "struct.calcsize": struct.calcsize})
_STDLIB_SPECIAL = ("operator.itemgetter", "operator.attrgetter", "operator.methodcaller", "itertools.repeat", "itertools.count")
_LAZY = ("enumerate", "zip", "reversed", "filter", "map", "list_iterator", "generator", "dict_items", "dict_keys", "dict_values", "tuple_iterator",
         "range_iterator", "bytes_iterator", "str_iterator", "set_iterator", "dict_keyiterator", "dict_valueiterator", "dict_itemiterator",
         "list_reverseiterator", "chain", "islice", "takewhile", "dropwhile", "accumulate", "starmap", "compress", "zip_longest", "product",
         "filterfalse", "pairwise", "_tee", "repeat", "permutations", "combinations", "batched", "_grouper", "groupby", "callable_iterator")
_PLAIN = (int, bool, str, bytes, tuple, list, dict, set, frozenset, type(None), range)
_METHODS = {list: {"append", "extend", "insert", "index", "count", "pop", "reverse", "copy", "sort", "remove", "clear"},
            tuple: {"index", "count", "_replace", "_asdict"},
            dict: {"get", "items", "keys", "values", "setdefault", "pop", "copy", "update"},
            bytes: {"join", "startswith", "endswith", "decode", "hex", "rjust", "ljust", "split", "find", "index", "count", "replace"},
            str: {"join", "startswith", "endswith", "encode", "lower", "upper", "format", "split", "strip", "replace", "find"},
            int: {"to_bytes", "bit_length"}, set: {"add", "discard", "union", "intersection"}, frozenset: {"union", "intersection"}}


class _OpaqueMethod(Opaque):
    """the bound method `name` of a token, held in a local: a token itself; calling it is the method call on the token"""

    def __init__(self, name: str, base) -> None:
        super().__init__(f"bound method {name}")
        self.name = name
        self.base = base


class _Obj(Opaque):
    """An instance of a small class of /repo built by the interpreted code (record, callable object): attributes + the class for method lookup."""

    def __init__(self, cls: ClassInfo, attrs: dict | None = None) -> None:
        super().__init__(f"{cls.name} object", attrs)
        self.cls = cls


class _EnumVal(Opaque):
    """A member of an Enum class of /repo (one object per member; aliases share it)."""

    def __init__(self, cls: ClassInfo, name: str, value, intlike: bool) -> None:
        super().__init__(f"{cls.name}.{name}", {"name": name, "value": value, "_name_": name, "_value_": value})
        self.cls, self.intlike = cls, intlike


_ENUM_BASES = ("Enum", "IntEnum", "Flag", "IntFlag", "StrEnum")


class _MiniStruct:
    """A precompiled struct.Struct(fmt): its methods are the module-level struct functions with fmt as first argument."""

    def __init__(self, fmt: str) -> None:
        self.fmt = fmt

    def __repr__(self) -> str:
        return f"Struct({self.fmt!r})"


class _ModuleScope:
    """Stands in for a FuncInfo when a module-level / class-level constant initialiser is evaluated."""

    def __init__(self, module, cls=None) -> None:
        self.module = module
        self.cls = cls
        self.qualname = f"<constant of {module.relpath}>"
        self.node = None


class Mini:
    """
    Concrete interpreter for tiny, loop-bounded functions of /repo.  It walks the function's AST itself on plain Python
    values (ints, bytes, tuples, lists ...): nothing from /repo is imported or executed.  Calls that are not whitelisted
    builtins / methods of plain values go to `on_call(chain, receiver_or_callee_value, args, kwargs)`; it returns the value or
    NotImplemented (-> MiniUndecided).  A verdict obtained by evaluating f on ALL values of a finite domain does not depend
    on how f is spelled, which is the point: the rules that use this state the input/output table, not the syntax.
    """

    def __init__(self, repo, fi: FuncInfo, on_call=None, fuel: int = 20000) -> None:
        self.repo = repo
        self.fi = fi
        self.on_call = on_call
        self.fuel0 = fuel
        self.fuel = fuel

    # ---- entry
    def __call__(self, *args, **kwargs):
        self.fuel = self.fuel0
        env = self._bind(self.fi.node.args, list(args), dict(kwargs))
        try:
            self._block(self.fi.node.body, env)
        except _Ret as r:
            return r.value
        except (_Brk, _Cont) as e:
            raise MiniUndecided(f"{self.fi.qualname}: break/continue outside loop") from e
        return None

    def _bind(self, a: ast.arguments, args: list, kwargs: dict) -> dict:
        env = {}
        pos = [p.arg for p in a.posonlyargs + a.args]
        defaults = dict(zip(pos[len(pos) - len(a.defaults):], a.defaults))
        for i, p in enumerate(pos):
            if i < len(args):
                env[p] = args[i]
            elif p in kwargs:
                env[p] = kwargs.pop(p)
            elif p in defaults:
                env[p] = self._ev(defaults[p], {})
            else:
                raise MiniUndecided(f"{self.fi.qualname}: no value for parameter {p}")
        rest = args[len(pos):]
        if a.vararg is not None:
            env[a.vararg.arg] = tuple(rest)
        elif rest:
            raise MiniRaised(f"{self.fi.qualname}: too many positional arguments")
        for p, d in zip(a.kwonlyargs, a.kw_defaults):
            if p.arg in kwargs:
                env[p.arg] = kwargs.pop(p.arg)
            elif d is not None:
                env[p.arg] = self._ev(d, {})
            else:
                raise MiniUndecided(f"{self.fi.qualname}: no value for parameter {p.arg}")
        if a.kwarg is not None:
            env[a.kwarg.arg] = kwargs
        elif kwargs:
            raise MiniRaised(f"{self.fi.qualname}: unexpected keyword arguments {sorted(kwargs)}")
        return env

    def _tick(self) -> None:
        self.fuel -= 1
        if self.fuel < 0:
            raise MiniUndecided(f"{self.fi.qualname}: evaluation budget exhausted")

    def _py(self, f, *a, **k):
        try:
            return f(*a, **k)
        except (MiniUndecided, MiniRaised, _Ret, _Brk, _Cont):
            raise
        except Exception as e:  # noqa: BLE001  (an error of the interpreted operation = the function raises)
            raise MiniRaised(f"{type(e).__name__}: {e}", kind=type(e).__name__) from e

    # ---- statements
    def _block(self, stmts, env) -> None:
        for s in stmts:
            self._stmt(s, env)

    def _stmt(self, s, env) -> None:  # noqa: C901, PLR0912
        self._tick()
        if isinstance(s, ast.Expr):
            if not isinstance(s.value, ast.Constant):
                self._ev(s.value, env)
        elif isinstance(s, ast.Assign):
            v = self._ev(s.value, env)
            for t in s.targets:
                self._store(t, v, env)
        elif isinstance(s, ast.AnnAssign):
            if s.value is not None:
                self._store(s.target, self._ev(s.value, env), env)
        elif isinstance(s, ast.AugAssign):
            if type(s.op) not in _IBIN:
                raise MiniUndecided(f"operator in `{norm(s)[:50]}`")
            cur = self._ev(_as_load(s.target), env)
            val = self._ev(s.value, env)
            self._plain(cur, s), self._plain(val, s)
            self._store(s.target, self._py(_IBIN[type(s.op)], cur, val), env)
        elif isinstance(s, ast.If):
            self._block(s.body if self._truth(self._ev(s.test, env)) else s.orelse, env)
        elif isinstance(s, ast.For):
            broke = False
            for item in self._iter(self._ev(s.iter, env), s):
                self._tick()
                self._store(s.target, item, env)
                try:
                    self._block(s.body, env)
                except _Cont:
                    continue
                except _Brk:
                    broke = True
                    break
            if not broke:
                self._block(s.orelse, env)
        elif isinstance(s, ast.While):
            broke = False
            while self._truth(self._ev(s.test, env)):
                self._tick()
                try:
                    self._block(s.body, env)
                except _Cont:
                    continue
                except _Brk:
                    broke = True
                    break
            if not broke:
                self._block(s.orelse, env)
        elif isinstance(s, ast.Return):
            raise _Ret(self._ev(s.value, env) if s.value is not None else None)
        elif isinstance(s, ast.Pass):
            pass
        elif isinstance(s, ast.Break):
            raise _Brk
        elif isinstance(s, ast.Continue):
            raise _Cont
        elif isinstance(s, ast.Raise):
            if s.exc is None:
                cur = getattr(self, "_handling", None)
                if cur:
                    raise cur[-1]                   # bare `raise` inside a handler: the exception being handled
                raise MiniRaised("raise (no active exception)", kind="RuntimeError")
            x = strip_cast(s.exc)
            if isinstance(x, ast.Name) and isinstance(env.get(x.id), MiniRaised):
                raise env[x.id]                     # `except E as err: ... raise err`
            raise MiniRaised(f"raise {norm(s.exc)[:60]}", kind=self._exc_kind(x, env))
        elif isinstance(s, ast.Try):
            try:
                try:
                    self._block(s.body, env)
                except MiniRaised as ex:
                    h = next((h for h in s.handlers if self._catches(h.type, ex, env)), None)
                    if h is None:
                        raise
                    if h.name:
                        env[h.name] = ex
                    self._handling = [*getattr(self, "_handling", []), ex]
                    try:
                        self._block(h.body, env)
                    finally:
                        self._handling = self._handling[:-1]
                else:
                    self._block(s.orelse, env)
            finally:
                self._block(s.finalbody, env)
        elif isinstance(s, ast.With):
            types = []
            for it in s.items:
                c = strip_cast(it.context_expr)
                if not (isinstance(c, ast.Call) and self._qualified(c.func) in ("contextlib.suppress",) and not c.keywords and it.optional_vars is None):
                    raise MiniUndecided(f"{self.fi.qualname}: statement `{norm(s)[:60]}`")
                types.extend(c.args)
            try:
                self._block(s.body, env)
            except MiniRaised as ex:
                if not any(self._catches(t, ex, env) for t in types):
                    raise
        elif isinstance(s, ast.Assert):
            if not self._truth(self._ev(s.test, env)):
                raise MiniRaised("AssertionError")
        elif isinstance(s, ast.Match):
            subj = self._ev(s.subject, env)
            if not isinstance(subj, (_EnumVal, _Obj)):
                self._plain(subj, s)
            for case in s.cases:
                if self._match(case.pattern, subj, env) and (case.guard is None or self._truth(self._ev(case.guard, env))):
                    self._block(case.body, env)
                    break
        else:
            raise MiniUndecided(f"{self.fi.qualname}: statement `{norm(s)[:60]}`")

    def _match(self, p, subj, env) -> bool:
        if isinstance(p, ast.MatchValue):
            v = self._ev(p.value, env)
            q = self._eq(subj, v)
            if q is None:
                self._plain(v, p)
                self._plain(subj, p)
            return bool(q)
        if isinstance(p, ast.MatchClass):
            k = self.repo.resolve_class_expr(self.fi.module, p.cls)
            if k is None:
                bt = _BUILTINS.get(chain(p.cls) or "")
                if isinstance(bt, type) and not p.kwd_patterns and len(p.patterns) <= 1 and isinstance(subj, _PLAIN):
                    return isinstance(subj, bt) and (not p.patterns or self._match(p.patterns[0], subj, env))     # `case int(x):`
                raise MiniUndecided(f"{self.fi.qualname}: match pattern `{norm(p)[:50]}`")
            sk = subj.cls if isinstance(subj, _Obj) else getattr(type(subj), "_mini_cls", None) if isinstance(subj, tuple) else None
            if sk is None:
                if isinstance(subj, _PLAIN) or isinstance(subj, _EnumVal):
                    return False
                raise MiniUndecided(f"{self.fi.qualname}: match of {subj!r} against `{norm(p)[:50]}`")
            if k not in sk.mro():
                return False
            fields = record_class_fields(sk) or []
            names = [a for _, a, _ in fields]
            ma = sk.lookup_attr("__match_args__")
            if ma is not None:
                names = list(self._constant(sk.module, sk, ma))
            if len(p.patterns) > len(names):
                raise MiniRaised(f"TypeError: {sk.name}() accepts {len(names)} positional sub-patterns", kind="TypeError")
            for sub, nm in [*zip(p.patterns, names), *zip(p.kwd_patterns, p.kwd_attrs)]:
                try:
                    v = self._getattr(subj, nm, p)
                except MiniUndecided:
                    return False
                if not self._match(sub, v, env):
                    return False
            return True
        if isinstance(p, ast.MatchSingleton):
            return subj is p.value
        if isinstance(p, ast.MatchAs):
            if p.pattern is not None and not self._match(p.pattern, subj, env):
                return False
            if p.name is not None:
                env[p.name] = subj
            return True
        if isinstance(p, ast.MatchOr):
            return any(self._match(q, subj, env) for q in p.patterns)
        if isinstance(p, ast.MatchSequence) and not any(isinstance(q, ast.MatchStar) for q in p.patterns):
            return isinstance(subj, (list, tuple)) and len(subj) == len(p.patterns) and all(self._match(q, x, env) for q, x in zip(p.patterns, subj))
        raise MiniUndecided(f"{self.fi.qualname}: match pattern `{norm(p)[:50]}`")

    # ---- exceptions
    def _exc_class(self, x: ast.AST, env):
        """a builtin exception class, a ClassInfo of /repo, or None for the class expression x"""
        c = chain(x)
        if c is None or (isinstance(x, ast.Name) and x.id in env):
            return None
        k = self.repo.resolve_class_expr(self.fi.module, x)
        if k is not None:
            return k
        q = self._qualified(x)
        if q in ("struct.error",):
            return struct.error
        last = c.split(".")[-1]
        b = getattr(builtins, last, None)
        if isinstance(b, type) and issubclass(b, BaseException) and (isinstance(x, ast.Name) and x.id not in self.fi.module.imports or q == f"builtins.{last}"):
            return b
        return None

    def _exc_kind(self, x: ast.AST, env) -> str | None:
        k = self._exc_class(x.func if isinstance(x, ast.Call) else x, env)
        if k is None:
            return None
        return k.name if isinstance(k, ClassInfo) else ("error" if k is struct.error else k.__name__)

    def _catches(self, typ, ex: MiniRaised, env) -> bool:
        """Does `except <typ>` catch the interpreted exception?  Undecided when either class is not known."""
        if typ is None:
            return True
        names = list(typ.elts) if isinstance(typ, ast.Tuple) else [typ]
        if ex.kind is None:
            raise MiniUndecided(f"{self.fi.qualname}: `except {norm(typ)[:40]}` around an exception of unknown class ({ex})")
        # the class of the raised exception: a builtin one, struct.error, or a class of /repo with its builtin ancestry
        raised_repo = None
        raised_py = struct.error if ex.kind == "error" else getattr(builtins, ex.kind, None)
        if not (isinstance(raised_py, type) and issubclass(raised_py, BaseException)):
            raised_py = None
            cands = self.repo.classes.get(ex.kind, [])
            if len(cands) != 1:
                raise MiniUndecided(f"{self.fi.qualname}: exception class {ex.kind} is not known")
            raised_repo = cands[0]
        for n in names:
            k = self._exc_class(n, env)
            if k is None:
                raise MiniUndecided(f"{self.fi.qualname}: `except {norm(n)[:40]}`: unknown exception class")
            if isinstance(k, ClassInfo):
                if raised_repo is not None and k in raised_repo.mro():
                    return True
                continue
            if raised_py is not None:
                if issubclass(raised_py, k):
                    return True
                continue
            # a /repo exception caught by a builtin class: through its first builtin ancestor
            anc = None
            for c in raised_repo.mro():
                for b in c.base_names:
                    pb = getattr(builtins, b.split(".")[-1], None)
                    if isinstance(pb, type) and issubclass(pb, BaseException):
                        anc = anc or pb
            if anc is None:
                raise MiniUndecided(f"{self.fi.qualname}: ancestry of exception class {ex.kind}")
            if issubclass(anc, k):
                return True
        return False

    # ---- names of trusted stdlib functions, by what the module's imports say (not by the local spelling)
    def _qualified(self, x: ast.AST) -> str | None:
        """'operator.or_' for `or_` (from operator import or_) / `op.or_` (import operator as op); None when x is not an imported name."""
        parts = []
        while isinstance(x, ast.Attribute):
            parts.append(x.attr)
            x = x.value
        if not isinstance(x, ast.Name):
            return None
        imp = self.fi.module.imports.get(x.id)
        if imp is None:
            return None
        mod, attr = imp
        return ".".join([mod, *([attr] if attr else []), *reversed(parts)])

    def _stdlib(self, x: ast.AST, env):
        """the trusted callable an expression names, or None"""
        root = x
        while isinstance(root, ast.Attribute):
            root = root.value
        if not isinstance(root, ast.Name) or root.id in env:
            return None
        q = self._qualified(x)
        if q is None:
            return None
        if q in _STDLIB:
            return _STDLIB[q]
        if q in _STDLIB_SPECIAL:
            return getattr(self, "_sl_" + q.split(".")[-1])
        return None

    def _sl_itemgetter(self, *items):
        if not items or not all(isinstance(i, (int, str, bytes, slice)) for i in items):
            raise MiniUndecided("itemgetter of a computed key")
        g = operator.itemgetter(*items)

        def get(o):
            self._plain(o, ast.Constant(value="itemgetter"))
            return self._py(g, o)
        return get

    def _sl_attrgetter(self, *names):
        if not names or not all(isinstance(n, str) and "." not in n for n in names):
            raise MiniUndecided("attrgetter of a computed / dotted name")

        def get(o):
            vals = tuple(self._getattr(o, n, ast.Constant(value="attrgetter")) for n in names)
            return vals[0] if len(vals) == 1 else vals
        return get

    def _sl_methodcaller(self, name, *args, **kwargs):
        def call(o):
            return self._method(o, name, list(args), dict(kwargs), ast.Constant(value="methodcaller"))
        return call

    _UNBOUNDED = 1_000_000      # unbounded stdlib iterators are cut here: a terminating function never consumes that many elements of them

    def _sl_repeat(self, obj, times=None):
        if times is not None and not isinstance(times, int):
            raise MiniUndecided("itertools.repeat with a computed count")
        return itertools.repeat(obj, self._UNBOUNDED if times is None else times)

    def _sl_count(self, start=0, step=1):
        if not all(isinstance(x, int) and not isinstance(x, bool) for x in (start, step)) or step == 0:
            raise MiniUndecided("itertools.count with non-integer arguments")
        return iter(range(start, start + step * self._UNBOUNDED, step))

    # ---- objects of small /repo classes
    def _sub(self, fi: FuncInfo) -> "Mini":
        sub = type(self)(self.repo, fi, self.on_call, self.fuel)
        sub._call_depth = getattr(self, "_call_depth", 0) + 1
        return sub

    def _run(self, fi: FuncInfo, *args, **kwargs):
        if getattr(self, "_call_depth", 0) > 6 or fi.is_async or any(isinstance(x, (ast.Yield, ast.YieldFrom)) for x in walk_no_nested(fi.node)):
            raise MiniUndecided(f"{self.fi.qualname}: call of {fi.qualname}")
        sub = self._sub(fi)
        try:
            return sub(*args, **kwargs)
        finally:
            self.fuel = sub.fuel

    def _function_value(self, fi: FuncInfo, recv=None, bound: bool = False):
        """a function of /repo used as a value (passed to map / reduce, stored in a dispatch table): calling it interprets it"""
        def call(*a, **k):
            return self._run(fi, *([recv] if bound else []), *a, **k)
        call._mini_fi = fi
        return call

    def _class_value(self, k: ClassInfo, where):
        def make(*a, **kw):
            if self.on_call is not None:
                r = self.on_call(k.name, None, list(a), dict(kw))
                if r is not NotImplemented:
                    return r
            return self._construct(k, list(a), dict(kw), where)
        make._mini_cls = k
        return make

    def _enum_member(self, k: ClassInfo, name: str):
        cache = self.repo.__dict__.setdefault("_c02_enum_members", {})
        if (k, name) not in cache:
            owner = next(c for c in k.mro() if name in c.attrs)
            a = strip_cast(owner.attrs[name])
            if isinstance(a, ast.Call) and (chain(a.func) or "").split(".")[-1] == "auto" and not a.args:
                value = Opaque(f"auto() value of {k.name}.{name}")
            else:
                value = self._constant(owner.module, owner, a)
            intlike = any(b.split(".")[-1] in ("IntEnum", "IntFlag") for b in k.all_base_names())
            same = next((m for (kk, _), m in cache.items() if kk is k and isinstance(value, _PLAIN) and isinstance(m.attrs["value"], _PLAIN)
                         and type(m.attrs["value"]) is type(value) and m.attrs["value"] == value), None)
            cache[(k, name)] = same if same is not None else _EnumVal(k, name, value, intlike)
        return cache[(k, name)]

    @staticmethod
    def _is_enum(k: ClassInfo) -> bool:
        return any(b.split(".")[-1] in _ENUM_BASES for b in k.all_base_names())

    def _enum_names(self, k: ClassInfo) -> list[str]:
        out = []
        for c in reversed(k.mro()):
            for st in c.node.body:
                if isinstance(st, ast.Assign) and len(st.targets) == 1 and isinstance(st.targets[0], ast.Name) and not st.targets[0].id.startswith("_"):
                    out.append(st.targets[0].id)
        return out

    def _construct(self, k: ClassInfo, args: list, kwargs: dict, where):
        """`K(..)` for a small class of /repo: a NamedTuple (a real tuple with named fields), an Enum lookup by value, or an object whose
        constructor is interpreted (dataclass fields / __init__)."""
        if self._is_enum(k):
            if len(args) != 1 or kwargs:
                raise MiniUndecided(f"call `{norm(where)[:50]}`")
            for n in self._enum_names(k):
                m = self._enum_member(k, n)
                v = m.attrs["value"]
                if isinstance(v, _PLAIN) and isinstance(args[0], _PLAIN) and v == args[0]:
                    return m
                if not isinstance(v, _PLAIN):
                    raise MiniUndecided(f"lookup by value in enum {k.name} with auto() values")
            raise MiniRaised(f"ValueError: {args[0]!r} is not a valid {k.name}", kind="ValueError")
        outside = {b.split(".")[-1].split("[")[0] for b in k.all_base_names()} - {c.name for c in k.mro()} - {"object", "NamedTuple", "Generic", "Protocol"}
        if outside or k.lookup("__new__") is not None:
            raise MiniUndecided(f"{self.fi.qualname}: construction of {k.name} (bases {sorted(outside)})")
        fields = record_class_fields(k)
        init = k.lookup("__init__")
        tuple_like = "NamedTuple" in {b.split(".")[-1].split("[")[0] for b in k.all_base_names()}
        decos = {(chain(d.func if isinstance(d, ast.Call) else d) or "").split(".")[-1] for d in k.node.decorator_list}
        if fields is not None and (tuple_like or ("dataclass" in decos and init is None)):
            if len(args) > len(fields):
                raise MiniRaised(f"TypeError: {k.name}() takes {len(fields)} positional arguments", kind="TypeError")
            given = {p: v for (p, _, _), v in zip(fields, args)}
            for kw, v in kwargs.items():
                if kw in given or kw not in {p for p, _, _ in fields}:
                    raise MiniRaised(f"TypeError: {k.name}() got an unexpected / repeated keyword argument {kw!r}", kind="TypeError")
                given[kw] = v
            vals = {}
            for p_, attr, default in fields:
                if p_ in given:
                    vals[attr] = given[p_]
                elif default is not None:
                    d = strip_cast(default)
                    if isinstance(d, ast.Call) and (chain(d.func) or "").split(".")[-1] == "field":
                        raise MiniUndecided(f"dataclass field default `{norm(d)[:40]}`")
                    vals[attr] = self._constant(k.module, k, d)
                else:
                    raise MiniRaised(f"TypeError: {k.name}() missing argument {p_!r}", kind="TypeError")
            if tuple_like:
                cache = self.repo.__dict__.setdefault("_c02_namedtuples", {})
                if k not in cache:
                    nt = collections.namedtuple(k.name, [a for _, a, _ in fields], rename=False)
                    nt._mini_cls = k
                    cache[k] = nt
                return cache[k](*[vals[a] for _, a, _ in fields])
            return _Obj(k, vals)
        o = _Obj(k, {})
        if init is not None and init.cls is not None and init.cls.name != "object":
            self._run(init, o, *args, **kwargs)
        elif args or kwargs:
            raise MiniRaised(f"TypeError: {k.name}() takes no arguments", kind="TypeError")
        return o

    def _getattr(self, base, attr: str, where):
        """attribute of an interpreted value (object of a /repo class, NamedTuple, enum member, opaque token)"""
        if isinstance(base, Opaque) and attr in base.attrs:
            return base.attrs[attr]
        k = base.cls if isinstance(base, (_Obj, _EnumVal)) else getattr(type(base), "_mini_cls", None) if isinstance(base, tuple) else None
        if isinstance(base, tuple) and k is not None and attr in getattr(base, "_fields", ()):
            return getattr(base, attr)
        if k is not None:
            m = k.lookup(attr)
            if m is not None:
                decs = {d.split(".")[-1] for d in m.decorator_names()}
                if decs & {"property", "cached_property"}:
                    return self._run(m, base)
                if "staticmethod" in decs:
                    return self._function_value(m)
                if not decs:
                    return self._function_value(m, base, bound=True)
            a = k.lookup_attr(attr)
            if a is not None and not (self._is_enum(k) and isinstance(base, _EnumVal)):
                owner = next(c for c in k.mro() if attr in c.attrs)
                return self._constant(owner.module, owner, a)
        raise MiniUndecided(f"{self.fi.qualname}: attribute `{attr}` of {base!r} in `{norm(where)[:50]}`")

    def _method(self, base, attr: str, args: list, kwargs: dict, where):
        """method call on an interpreted value"""
        named = isinstance(base, tuple) and getattr(type(base), "_mini_cls", None) is not None
        if isinstance(base, _PLAIN) and (not named or attr in ("index", "count", "_replace", "_asdict")):
            ok = any(isinstance(base, t) and attr in ms for t, ms in _METHODS.items())
            if not ok:
                raise MiniUndecided(f"method `{attr}` of {type(base).__name__} in `{norm(where)[:50]}`")
            if attr == "sort" and (kwargs or args):
                raise MiniUndecided(f"`{norm(where)[:50]}` with a key")
            return self._py(getattr(base, attr), *args, **kwargs)
        f = self._getattr(base, attr, where)
        if callable(f):
            return self._py(f, *args, **kwargs)
        if isinstance(f, _Obj):
            return self._call_value(f, args, kwargs, where)
        raise MiniUndecided(f"{self.fi.qualname}: call of `{attr}` of {base!r}")

    def _early_bound(self) -> set:
        """ids of the attribute chains that early-bound method locals of the interpreted function are bound from (see _method_aliases)"""
        if getattr(self, "_early", None) is None:
            self._early = {id(strip_cast(v)) for v in _method_aliases(self.fi).values()}
        return self._early

    def _call_value(self, f, args: list, kwargs: dict, where):
        """call of a computed callee: an interpreted function value / lambda / partial / trusted stdlib callable / callable object"""
        if isinstance(f, _OpaqueMethod):
            r = self.on_call(f.name, f.base, list(args), dict(kwargs)) if self.on_call is not None else NotImplemented
            if r is NotImplemented:
                raise MiniUndecided(f"{self.fi.qualname}: call of {f!r} in `{norm(where)[:50]}`")
            return r
        if isinstance(f, _Obj):
            m = f.cls.lookup("__call__")
            if m is None:
                raise MiniRaised(f"TypeError: {f!r} is not callable", kind="TypeError")
            return self._run(m, f, *args, **kwargs)
        if isinstance(f, Opaque) or not callable(f):
            raise MiniUndecided(f"{self.fi.qualname}: call of {f!r} in `{norm(where)[:50]}`")
        return self._py(f, *args, **kwargs)

    def _eq(self, a, b):
        """a == b for interpreted values: enum members compare by identity (IntEnum also with ints); None when not decidable"""
        if isinstance(a, _EnumVal) or isinstance(b, _EnumVal):
            if isinstance(a, _EnumVal) and isinstance(b, _EnumVal):
                return a is b
            e, o = (a, b) if isinstance(a, _EnumVal) else (b, a)
            if isinstance(o, Opaque):
                return None
            if e.intlike and isinstance(e.attrs["value"], _PLAIN):
                return e.attrs["value"] == o
            return None if e.intlike else False
        if isinstance(a, _PLAIN) and isinstance(b, _PLAIN):
            return self._py(operator.eq, a, b)
        return None

    def _constant(self, module, cls, expr):
        """Value of a module-level / class-level constant: its initialiser evaluated in its own scope (displays, comprehensions, Struct(..))."""
        if getattr(self, "_const_depth", 0) > 4:
            raise MiniUndecided(f"{self.fi.qualname}: constants nested too deeply")
        sub = Mini(self.repo, _ModuleScope(module, cls), self.on_call, self.fuel)
        sub._const_depth = getattr(self, "_const_depth", 0) + 1
        v = sub._ev(expr, {})
        self.fuel = sub.fuel
        return v

    def _store(self, t, v, env) -> None:
        if isinstance(t, ast.Name):
            env[t.id] = v
        elif isinstance(t, (ast.Tuple, ast.List)):
            items = list(self._iter(v, t))
            star = [i for i, e in enumerate(t.elts) if isinstance(e, ast.Starred)]
            if star:
                i = star[0]
                tail = len(t.elts) - i - 1
                if len(items) < len(t.elts) - 1:
                    raise MiniRaised("ValueError: not enough values to unpack")
                parts = items[:i] + [items[i:len(items) - tail]] + items[len(items) - tail:]
                for e, x in zip(t.elts, parts):
                    self._store(e.value if isinstance(e, ast.Starred) else e, x, env)
            else:
                if len(items) != len(t.elts):
                    raise MiniRaised(f"ValueError: cannot unpack {len(items)} values into {len(t.elts)} targets")
                for e, x in zip(t.elts, items):
                    self._store(e, x, env)
        elif isinstance(t, ast.Subscript) and not isinstance(t.slice, ast.Slice):
            base = self._ev(t.value, env)
            if not isinstance(base, (list, dict)):
                raise MiniUndecided(f"store into `{norm(t)[:50]}`")
            self._py(operator.setitem, base, self._ev(t.slice, env), v)
        elif isinstance(t, ast.Attribute):
            base = self._ev(t.value, env)
            if not isinstance(base, Opaque):
                raise MiniUndecided(f"store into `{norm(t)[:50]}`")
            base.attrs[t.attr] = v
        else:
            raise MiniUndecided(f"assignment target `{norm(t)[:50]}`")

    def _iter(self, v, where):
        if isinstance(v, (list, tuple, range, dict, set, frozenset, bytes, str, bytearray)) or type(v).__name__ in _LAZY:
            return self._py(list, v)
        raise MiniUndecided(f"iteration over {v!r} in `{norm(where)[:50]}`")

    def _truth(self, v) -> bool:
        if isinstance(v, Opaque):
            raise MiniUndecided(f"truth value of {v!r}")
        return bool(v)

    def _plain(self, v, where) -> None:
        if not isinstance(v, _PLAIN):
            raise MiniUndecided(f"arithmetic on {v!r} in `{norm(where)[:50]}`")

    # ---- expressions
    def _ev(self, e, env):  # noqa: C901, PLR0911, PLR0912
        self._tick()
        e = strip_cast(e)
        if isinstance(e, ast.Constant):
            return e.value
        if isinstance(e, ast.Name):
            if e.id in env:
                return env[e.id]
            c = self.repo.resolve_const(self.fi.module, e, self.fi.cls)
            if c is not NOCONST:
                return c
            r = self.repo.resolve_name(self.fi.module, e.id)
            if isinstance(r, tuple) and r[0] == "const":
                return self._constant(r[1], None, r[2])          # a module-level table / precompiled struct: its initialiser is evaluated
            if isinstance(r, FuncInfo) and r.cls is None:
                return self._function_value(r)                   # a module-level function used as a value (dispatch table, map / reduce argument)
            if isinstance(r, ClassInfo):
                return self._class_value(r, e)                   # a class used as a value (table of record classes, partial(K, ..), map(K, ..))
            sl = self._stdlib(e, env)
            if sl is not None:
                return sl
            if r is None and self.fi.cls is not None and self.fi.node is None and self.fi.cls.lookup(e.id) is not None:
                return self._function_value(self.fi.cls.lookup(e.id))      # a function of the class body named inside a class-level table
            if e.id in _BUILTINS and _BUILTINS[e.id] is not None and e.id not in self.fi.module.imports:
                return _BUILTINS[e.id]
            if e.id in ("True", "False", "None"):
                return {"True": True, "False": False, "None": None}[e.id]
            raise MiniUndecided(f"{self.fi.qualname}: unbound name {e.id}")
        if isinstance(e, ast.NamedExpr):
            v = self._ev(e.value, env)
            env[e.target.id] = v
            if isinstance(env.get("\0outer"), dict):
                env["\0outer"][e.target.id] = v             # a walrus inside a comprehension binds in the enclosing function
            return v
        if isinstance(e, ast.Attribute):
            root = e
            while isinstance(root, ast.Attribute):
                root = root.value
            shadowed = isinstance(root, ast.Name) and root.id in env and root.id not in ("self", "cls")
            if not shadowed:
                k = self.repo.resolve_class_expr(self.fi.module, e.value)
                if k is not None and self._is_enum(k) and any(e.attr in c.attrs for c in k.mro()) and not e.attr.startswith("_"):
                    return self._enum_member(k, e.attr)
                c = self.repo.resolve_const(self.fi.module, e, self.fi.cls)
                if c is not NOCONST:
                    return c
                sl = self._stdlib(e, env)
                if sl is not None:
                    return sl
                if k is not None and k.lookup(e.attr) is not None:
                    m = k.lookup(e.attr)
                    decs = {d.split(".")[-1] for d in m.decorator_names()}
                    if "staticmethod" in decs or not decs:
                        return self._function_value(m)         # `K.method` as a plain function value
                if k is not None and k.lookup_attr(e.attr) is not None:
                    owner = next(c_ for c_ in k.mro() if e.attr in c_.attrs)
                    return self._constant(owner.module, owner, owner.attrs[e.attr])
            base = self._ev(e.value, env)
            if isinstance(base, Opaque) and e.attr in base.attrs:
                return base.attrs[e.attr]
            if isinstance(base, _MiniStruct) and e.attr in ("size", "format"):
                return self._py(struct.calcsize, base.fmt) if e.attr == "size" else base.fmt
            if isinstance(base, (_Obj, _EnumVal)) or (isinstance(base, tuple) and getattr(type(base), "_mini_cls", None) is not None):
                return self._getattr(base, e.attr, e)
            if isinstance(base, MiniRaised) and e.attr == "args":
                raise MiniUndecided(f"{self.fi.qualname}: arguments of a caught exception")
            if isinstance(base, slice) and e.attr in ("start", "stop", "step"):
                return getattr(base, e.attr)
            if isinstance(e.value, ast.Name) and e.value.id in ("self", "cls") and self.fi.cls is not None and isinstance(base, Opaque):
                a = self.fi.cls.lookup_attr(e.attr)
                if a is not None:
                    owner = next(k for k in self.fi.cls.mro() if e.attr in k.attrs)
                    return self._constant(owner.module, owner, a)      # a class-level table / precompiled struct
            if isinstance(base, _PLAIN) and getattr(type(base), "_mini_cls", None) is None and e.attr != "sort" \
                    and any(isinstance(base, t) and e.attr in ms for t, ms in _METHODS.items()):
                # `push = out.append`: the bound method of a plain value (a list / dict / bytes of the trusted interpreter) - calling it later
                # is the same method call on the same object
                return getattr(base, e.attr)
            if isinstance(base, Opaque) and self.on_call is not None and id(e) in self._early_bound():
                # `unpack_item = self.packer.unpack`: the bound method of a token, early-bound into a local that is only ever called -
                # itself a token; calling it is the method call on the token (decided by the hook, like `self.packer.unpack(..)`)
                return _OpaqueMethod(chain(e) or e.attr, base)
            raise MiniUndecided(f"{self.fi.qualname}: attribute `{norm(e)[:50]}`")
        if isinstance(e, (ast.Tuple, ast.List, ast.Set)):
            out = []
            for x in e.elts:
                if isinstance(x, ast.Starred):
                    out.extend(self._iter(self._ev(x.value, env), x))
                else:
                    out.append(self._ev(x, env))
            return tuple(out) if isinstance(e, ast.Tuple) else out if isinstance(e, ast.List) else set(out)
        if isinstance(e, ast.Dict):
            out = {}
            for k, v in zip(e.keys, e.values):
                if k is None:
                    sub = self._ev(v, env)          # {**other}
                    if not isinstance(sub, dict):
                        raise MiniUndecided(f"dict unpacking of {sub!r}")
                    out.update(sub)
                else:
                    out[self._ev(k, env)] = self._ev(v, env)
            return out
        if isinstance(e, ast.Subscript):
            base = self._ev(e.value, env)
            self._plain(base, e)
            if not isinstance(e.slice, ast.Slice):
                idx = self._ev(e.slice, env)
                if isinstance(idx, Opaque) and not isinstance(idx, _EnumVal):
                    raise MiniUndecided(f"subscript `{norm(e)[:50]}` with {idx!r}")
                return self._py(operator.getitem, base, idx)
            if isinstance(e.slice, ast.Slice):
                sl = slice(*(self._ev(x, env) if x is not None else None for x in (e.slice.lower, e.slice.upper, e.slice.step)))
                return self._py(operator.getitem, base, sl)
            return self._py(operator.getitem, base, self._ev(e.slice, env))
        if isinstance(e, ast.BinOp):
            if type(e.op) not in _BIN:
                raise MiniUndecided(f"operator in `{norm(e)[:50]}`")
            l, r = self._ev(e.left, env), self._ev(e.right, env)
            self._plain(l, e), self._plain(r, e)
            return self._py(_BIN[type(e.op)], l, r)
        if isinstance(e, ast.UnaryOp):
            v = self._ev(e.operand, env)
            if isinstance(e.op, ast.Not):
                return not self._truth(v)
            self._plain(v, e)
            return self._py({ast.USub: operator.neg, ast.UAdd: operator.pos, ast.Invert: operator.invert}[type(e.op)], v)
        if isinstance(e, ast.BoolOp):
            v = None
            for x in e.values:
                v = self._ev(x, env)
                if self._truth(v) != isinstance(e.op, ast.And):
                    return v
            return v
        if isinstance(e, ast.Compare):
            l = self._ev(e.left, env)
            for op, right in zip(e.ops, e.comparators):
                r = self._ev(right, env)
                if isinstance(op, (ast.Eq, ast.NotEq)) and (isinstance(l, _EnumVal) or isinstance(r, _EnumVal)):
                    q = self._eq(l, r)
                    if q is None:
                        raise MiniUndecided(f"comparison `{norm(e)[:50]}`")
                    if q != isinstance(op, ast.Eq):
                        return False
                    l = r
                    continue
                if isinstance(op, (ast.In, ast.NotIn)) and isinstance(l, _EnumVal) and isinstance(r, (tuple, list, set, frozenset, dict)) \
                        and all(isinstance(x, _EnumVal) for x in r):
                    if (l in r) != isinstance(op, ast.In):          # members are singletons: identity == equality
                        return False
                    l = r
                    continue
                if not (isinstance(op, (ast.Is, ast.IsNot)) or (isinstance(l, _PLAIN) and isinstance(r, _PLAIN))):
                    raise MiniUndecided(f"comparison `{norm(e)[:50]}`")
                if not self._py(_CMP[type(op)], l, r):
                    return False
                l = r
            return True
        if isinstance(e, ast.IfExp):
            return self._ev(e.body if self._truth(self._ev(e.test, env)) else e.orelse, env)
        if isinstance(e, ast.GeneratorExp):
            # lazy, as in Python: the first iterable is evaluated now, elements are produced on demand (next(..., default), any(), takewhile ...)
            inner = dict(env)
            inner["\0outer"] = env.get("\0outer", env)
            g0 = e.generators[0]
            if g0.is_async:
                raise MiniUndecided("async comprehension")
            first = self._lazy_iter(self._ev(g0.iter, inner), g0.iter)
            return self._gen(e, 0, inner, first)
        if isinstance(e, (ast.ListComp, ast.SetComp, ast.DictComp)):
            out = []
            inner = dict(env)
            inner["\0outer"] = env.get("\0outer", env)
            self._comp(e, 0, inner, out)
            return dict(out) if isinstance(e, ast.DictComp) else set(out) if isinstance(e, ast.SetComp) else out
        if isinstance(e, ast.Lambda):
            def fn(*a, _e=e, _env=env):
                return self._ev(_e.body, {**_env, **self._bind(_e.args, list(a), {})})
            return fn
        if isinstance(e, ast.JoinedStr):
            return "".join(str(self._ev(v.value, env)) if isinstance(v, ast.FormattedValue) else str(v.value) for v in e.values)
        if isinstance(e, ast.Call):
            return self._call(e, env)
        raise MiniUndecided(f"{self.fi.qualname}: expression `{norm(e)[:60]}`")

    def _lazy_iter(self, v, where):
        if isinstance(v, (list, tuple, range, dict, set, frozenset, bytes, str, bytearray)) or type(v).__name__ in _LAZY:
            return self._py(iter, v)
        raise MiniUndecided(f"iteration over {v!r} in `{norm(where)[:50]}`")

    def _gen(self, e, i: int, env: dict, first=None):
        g = e.generators[i]
        if g.is_async:
            raise MiniUndecided("async comprehension")
        it = first if first is not None else self._lazy_iter(self._ev(g.iter, env), g.iter)
        while True:
            item = self._py(next, it, _NOBASE)
            if item is _NOBASE:
                return
            self._tick()
            self._store(g.target, item, env)
            if all(self._truth(self._ev(c, env)) for c in g.ifs):
                if i + 1 == len(e.generators):
                    yield self._ev(e.elt, env)
                else:
                    yield from self._gen(e, i + 1, env)

    def _comp(self, e, i: int, env: dict, out: list) -> None:
        if i == len(e.generators):
            out.append((self._ev(e.key, env), self._ev(e.value, env)) if isinstance(e, ast.DictComp) else self._ev(e.elt, env))
            return
        g = e.generators[i]
        if g.is_async:
            raise MiniUndecided("async comprehension")
        for item in self._iter(self._ev(g.iter, env), g.iter):
            self._tick()
            self._store(g.target, item, env)
            if all(self._truth(self._ev(c, env)) for c in g.ifs):
                self._comp(e, i + 1, env, out)

    def _call(self, e: ast.Call, env):
        args = []
        for a in e.args:
            if isinstance(a, ast.Starred):
                args.extend(self._iter(self._ev(a.value, env), a))
            else:
                args.append(self._ev(a, env))
        kwargs = {}
        for k in e.keywords:
            v = self._ev(k.value, env)
            if k.arg is None:
                if not (isinstance(v, dict) and all(isinstance(x, str) for x in v)):
                    raise MiniUndecided(f"** of {v!r} in call")
                dup = set(v) & set(kwargs)
                if dup:
                    raise MiniRaised(f"TypeError: got multiple values for keyword argument {sorted(dup)[0]!r}", kind="TypeError")
                kwargs.update(v)
            else:
                kwargs[k.arg] = v
        name = chain(e.func)
        if not isinstance(strip_cast(e.func), (ast.Name, ast.Attribute)):
            # a computed callee: `TABLE[tag](..)`, `partial(f, x)(y)`, `(lambda ..)(..)`, `itemgetter(1)(entry)`
            return self._call_value(self._ev(e.func, env), args, kwargs, e)
        sl = self._stdlib(e.func, env)
        if sl is not None:
            q = self._qualified(e.func) or ""
            if q.startswith("operator.") and q not in ("operator.is_", "operator.is_not") and any(isinstance(a, Opaque) for a in args):
                raise MiniUndecided(f"call `{norm(e)[:50]}`")          # operators on a token: its value is not known
            return self._py(sl, *args, **kwargs)
        # method of a plain value
        if isinstance(e.func, ast.Attribute):
            try:
                base = self._ev(e.func.value, env)
            except MiniUndecided:
                base = _NOBASE
            if base is not _NOBASE and isinstance(base, _PLAIN) or (base is not _NOBASE and isinstance(base, (_Obj, _EnumVal))):
                return self._method(base, e.func.attr, args, kwargs, e)
            if base is not _NOBASE and isinstance(base, _MiniStruct) and e.func.attr in ("pack", "unpack", "unpack_from", "iter_unpack"):
                # method of a precompiled struct = the struct function of that name with the format in front
                name, base, args = e.func.attr, _NOBASE, [base.fmt, *args]
            elif base is not _NOBASE and (type(base).__name__ in ("function", "partial", "builtin_function_or_method", "method") or type(base).__name__ in _LAZY):
                raise MiniUndecided(f"method `{norm(e.func)[:50]}` of {type(base).__name__}")
        else:
            base = _NOBASE
        if isinstance(e.func, ast.Name) and e.func.id in env:
            if callable(env[e.func.id]) or isinstance(env[e.func.id], (_Obj, _OpaqueMethod)):
                return self._call_value(env[e.func.id], args, kwargs, e)
            base = env[e.func.id]            # a local / parameter that is called (e.g. `cls(...)`): handed to the hook as the callee value
        if name in ("Struct", "struct.Struct") and len(args) == 1 and isinstance(args[0], str) and not kwargs and not (isinstance(e.func, ast.Name) and e.func.id in env):
            self._py(struct.calcsize, args[0])
            return _MiniStruct(args[0])
        if self.on_call is not None:
            r = self.on_call(name, None if base is _NOBASE else base, args, kwargs)
            if r is not NotImplemented:
                return r
        target, recv = self._helper(e, base)
        if target is not None:
            sub = self._sub(target)
            try:
                return sub(*([recv] if recv is not _NOBASE else []), *args, **kwargs)
            finally:
                self.fuel = sub.fuel
        if base is _NOBASE and not (isinstance(e.func, ast.Name) and e.func.id in env):
            k = self.repo.resolve_class_expr(self.fi.module, e.func)
            if k is not None:
                return self._construct(k, args, kwargs, e)       # a small class of /repo: NamedTuple / dataclass / enum lookup / callable object
            if isinstance(e.func, ast.Name):
                r = self.repo.resolve_name(self.fi.module, e.func.id)
                if isinstance(r, tuple) and r[0] == "const":
                    f = _factory_fields(r[2])                    # X = namedtuple("X", "a b")
                    if f is not None:
                        cache = self.repo.__dict__.setdefault("_c02_namedtuples", {})
                        key = (r[1].relpath, e.func.id)
                        if key not in cache:
                            cache[key] = collections.namedtuple(e.func.id, [a for _, a, _ in f])
                        return self._py(cache[key], *args, **kwargs)
                    return self._call_value(self._constant(r[1], None, r[2]), args, kwargs, e)     # a module-level callable: partial(..), itemgetter(..), a lambda
        if name == "isinstance" and len(args) == 2 and not kwargs and not (isinstance(e.func, ast.Name) and e.func.id in env):
            kinds = list(args[1]) if isinstance(args[1], tuple) else [args[1]]
            res = False
            for t in kinds:
                if isinstance(t, type) and t in (bool, int, str, bytes, tuple, list, dict, set, frozenset, float, bytearray, slice, range):
                    if isinstance(args[0], Opaque):
                        continue                       # an object of a /repo class (or a token) is none of the builtin value types
                    if not isinstance(args[0], _PLAIN + (float, bytearray, slice)):
                        raise MiniUndecided(f"call `{norm(e)[:50]}`")
                    res = res or isinstance(args[0], t)
                elif getattr(t, "_mini_cls", None) is not None:
                    k0 = args[0].cls if isinstance(args[0], (_Obj, _EnumVal)) else getattr(type(args[0]), "_mini_cls", None) if isinstance(args[0], tuple) else None
                    if k0 is None and not isinstance(args[0], _PLAIN):
                        raise MiniUndecided(f"call `{norm(e)[:50]}`")
                    res = res or (k0 is not None and t._mini_cls in k0.mro())
                else:
                    raise MiniUndecided(f"call `{norm(e)[:50]}`")
            return res
        if name in _BUILTINS and _BUILTINS[name] is not None and not (isinstance(e.func, ast.Name) and (e.func.id in env or e.func.id in self.fi.module.imports)):
            if name in ("filter", "map", "reduce", "functools.reduce", "sorted", "min", "max", "next", "iter") and any(isinstance(a, Opaque) for a in args):
                raise MiniUndecided(f"call `{norm(e)[:50]}`")
            if name == "sorted" and kwargs.get("key") is None and any(isinstance(x, Opaque) for a in args[:1] if isinstance(a, (list, tuple)) for x in a):
                raise MiniUndecided(f"call `{norm(e)[:50]}`")
            return self._py(_BUILTINS[name], *args, **kwargs)
        raise MiniUndecided(f"{self.fi.qualname}: call `{norm(e)[:60]}`")


_NOBASE = object()


def _mini_helper(self: Mini, e: ast.Call, base):
    """(FuncInfo, receiver | _NOBASE) of a call to a plain function of /repo that the interpreted function may run itself: a module-level
    function, or a method of the function's own class called on `self` / `cls`."""
    if getattr(self, "_call_depth", 0) > 4 or self.fi.node is None:
        return None, _NOBASE
    f = e.func
    target, recv = None, _NOBASE
    if isinstance(f, ast.Name):
        r = self.repo.resolve_name(self.fi.module, f.id)
        if isinstance(r, FuncInfo) and r.cls is None:
            target = r
    elif isinstance(f, ast.Attribute) and isinstance(f.value, ast.Name) and f.value.id in ("self", "cls") and self.fi.cls is not None and isinstance(base, Opaque) \
            and self.fi.params()[:1] == [f.value.id]:
        m = self.fi.cls.lookup(f.attr)
        if m is not None:
            decs = {d.split(".")[-1] for d in m.decorator_names()}
            if "staticmethod" in decs:
                target = m
            elif not decs or decs == {"classmethod"}:
                if ("classmethod" in decs) == (f.value.id == "cls"):
                    target, recv = m, base
    if target is None or target.is_async or target is self.fi or any(isinstance(x, (ast.Yield, ast.YieldFrom)) for x in walk_no_nested(target.node)):
        return None, _NOBASE
    return target, recv


Mini._helper = _mini_helper


def _as_load(t):
    import copy
    t2 = copy.copy(t)
    t2.ctx = ast.Load()
    return t2


def struct_hooks(name, base, args, kwargs):
    """on_call hook: the struct module on concrete values (trusted stdlib semantics)."""
    if name in ("pack", "struct.pack") and args and isinstance(args[0], str) and all(isinstance(a, (int, bytes, bool)) for a in args[1:]):
        try:
            return struct.pack(*args)
        except struct.error as e:
            raise MiniRaised(f"struct.error: {e}") from e
    if name in ("unpack_from", "struct.unpack_from") and len(args) >= 2 and isinstance(args[0], str) and isinstance(args[1], bytes):
        off = args[2] if len(args) > 2 else kwargs.get("offset", 0)
        try:
            return struct.unpack_from(args[0], args[1], off)
        except struct.error as e:
            raise MiniRaised(f"struct.error: {e}") from e
    if name in ("unpack", "struct.unpack") and len(args) == 2 and isinstance(args[0], str) and isinstance(args[1], bytes):
        try:
            return struct.unpack(*args)
        except struct.error as e:
            raise MiniRaised(f"struct.error: {e}") from e
    if name in ("calcsize", "struct.calcsize") and len(args) == 1 and isinstance(args[0], str):
        return struct.calcsize(args[0])
    return NotImplemented
