"""C05 - Circuits are isolated from each other and from third parties."""
from __future__ import annotations

import ast

from ..core import Ctx
from ..match import arg, call_name, calls, facts_at, local_defs, resolve, single_def, unreachable_assuming
from ..model import AnalysisError, FuncInfo, chain, const_value, enclosing_stmt, norm, strip_cast, walk_no_nested

LEVEL = "other"
EXPLANATION = (
    "Table-level isolation as dominance facts on every mutation site of the three routing tables: each remove_* in "
    "on_destroy is dominated by `peer == <entry for the destroyed id>.hop.peer` and on_destroy is an authenticated "
    "handler; every store keyed by a wire-controlled circuit id is dominated by `id not in T` for all three tables "
    "(checks against time-limited request caches do not count); data delivery is dominated by the origin/neighbour "
    "test; the exit socket's return path uses its own circuit id and hop; CellPayload.unwrap injects the header's "
    "circuit id; closed list of functions that write the tables and of "
    "functions that call remove_* (new private helpers of a listed function and super() overrides inherit the permission); nothing "
    "reachable from on_create removes an entry; no except-handler that can receive CryptoException (class hierarchy) leads to a "
    "remove_* call; layers of an own circuit are removed only when it has at least one keyed hop (a circuit whose first CREATE is "
    "outstanding accepts plaintext cells only). Interleavings of concurrent circuits are not explored."
)

TC = "ipv8/messaging/anonymization/community.py"
HS = "ipv8/messaging/anonymization/hidden_services.py"
TABLES = {"circuits": "self.circuits", "relay_from_to": "self.relay_from_to", "exit_sockets": "self.exit_sockets"}


def rule_destroy(ctx: Ctx) -> None:
    repo = ctx.repo
    fi = repo.method("TunnelCommunity", "on_destroy", TC)
    from .c01 import classify_handler
    ctx.check(classify_handler(ctx, fi) == "authenticated", "destroy-authorised", fi, fi.node,
              "on_destroy is an authenticated handler (peer = verified signer)", "on_destroy is not behind a signature-verifying decorator")
    cfg = ctx.cfg(fi)
    params = fi.params()
    peer, payload = params[1], params[2]
    ctx.check(not local_defs(fi, peer), "destroy-authorised", fi, fi.node, "peer parameter not rebound", "on_destroy rebinds the authenticated peer")

    def is_cid(e) -> bool:
        return norm(resolve(fi, e)) == f"{payload}.circuit_id"

    def relay_get_of(e, inner_pred) -> bool:
        """
        Every value e can hold where it is dereferenced is self.relay_from_to.get(K) with inner_pred(K).
        All definitions of a local are followed (conditional expression or `x = None; if c: x = T.get(k)`); the None
        alternative is dropped because every use site dereferences e (`e.hop.peer` in a comparison that held,
        `e.circuit_id` as an evaluated argument), which raises on None before any removal can happen.
        """
        alts = [a for a in _alternatives(fi, e) if not (isinstance(a, ast.Constant) and a.value is None)]
        return bool(alts) and all(isinstance(a, ast.Call) and chain(a.func) == "self.relay_from_to.get" and len(a.args) == 1
                                  and not a.keywords and inner_pred(a.args[0]) for a in alts)

    removes = [c for c in calls(fi) if call_name(c) in ("remove_relay", "remove_exit_socket", "remove_circuit")]
    ctx.floor("destroy-authorised", len(removes), 4)
    for c in removes:
        facts = facts_at(cfg, c)
        target = strip_cast(arg(c, 0))
        kind = call_name(c)
        ok = False
        why = ""
        if kind == "remove_relay":
            # sender must be the neighbour on the side the destroy came from:
            # peer == relay_from_to.get(relay_from_to.get(cid).circuit_id).hop.peer
            for f in facts:
                if f.op == "eq" and f.pos:
                    sides = [f.left, f.right]
                    ps = [s for s in sides if chain(s) == peer]
                    es = [s for s in sides if isinstance(s, ast.Attribute) and s.attr == "peer" and isinstance(s.value, ast.Attribute) and s.value.attr == "hop"]
                    if ps and es:
                        entry = es[0].value.value
                        def inner(k):
                            k = resolve(fi, k)
                            return isinstance(k, ast.Attribute) and k.attr == "circuit_id" and relay_get_of(k.value, is_cid)
                        if relay_get_of(entry, inner):
                            ok = True
            # which id is removed: the destroyed id itself or the other direction of the same relay pair
            target = resolve(fi, target)
            t_ok = is_cid(target) or (isinstance(target, ast.Attribute) and target.attr == "circuit_id"
                                      and relay_get_of(target.value, is_cid))
            ok = ok and t_ok
            why = "remove_relay must be dominated by peer == relay_from_to[relay_from_to[cid].circuit_id].hop.peer and remove cid or its paired id"
        else:
            table = "self.exit_sockets" if kind == "remove_exit_socket" else "self.circuits"
            member = any(f.op == "in" and f.pos and is_cid(f.left) and chain(f.right) == table for f in facts)
            auth = False
            for f in facts:
                if f.op == "eq" and f.pos:
                    sides = [f.left, f.right]
                    ps = [s for s in sides if chain(s) == peer]
                    es = [s for s in sides if isinstance(s, ast.Attribute) and s.attr == "peer"
                          and isinstance(s.value, ast.Attribute) and s.value.attr == "hop"
                          and isinstance(s.value.value, ast.Subscript) and chain(s.value.value.value) == table
                          and is_cid(s.value.value.slice)]
                    if ps and es:
                        auth = True
            ok = member and auth and is_cid(target)
            why = f"{kind} must be dominated by cid in {table} and peer == {table}[cid].hop.peer"
        ctx.check(ok, "destroy-authorised", fi, c, f"{kind}({norm(target)}) authorised by the adjacent peer of that entry",
                  "a destroy message can remove a circuit/relay/exit entry without being signed by the adjacent node: " + why,
                  [str(f) for f in facts])


def _alternatives(fi: FuncInfo, e: ast.AST, depth: int = 4) -> list[ast.AST]:
    """All expressions a value may come from: every definition of a local (flow-insensitive), both arms of `a if c else b`."""
    e = strip_cast(e)
    if depth <= 0:
        return [e]
    if isinstance(e, ast.IfExp):
        return _alternatives(fi, e.body, depth - 1) + _alternatives(fi, e.orelse, depth - 1)
    if isinstance(e, ast.Name) and e.id not in fi.params():
        defs = local_defs(fi, e.id)
        if defs and all(v is not None and idx is None for _, v, idx in defs):
            return [a for _, v, _ in defs for a in _alternatives(fi, v, depth - 1)]
    return [e]


def _table_of(chain_str: str | None) -> str | None:
    if chain_str is None:
        return None
    for t, c in TABLES.items():
        if chain_str == c + "[]":
            return t
    for t, c in {"circuits": "self.circuits", "relay_from_to": "self.relays", "exit_sockets": "self.exit_sockets"}.items():
        if chain_str == c + "[]":
            return t
    return None


WIRE_PAYLOAD_PARAMS = ("payload", "create_payload")


def _wire_controlled(ctx: Ctx, fi: FuncInfo, key: ast.AST) -> tuple[bool, str]:
    """Is the key taken from a message field (rather than generated locally or read from our own table entry)?"""
    k = resolve(fi, key)
    txt = norm(k)
    if isinstance(k, ast.Call) and chain(k.func) == "self._generate_circuit_id":
        return False, "locally generated"
    base = k
    while isinstance(base, (ast.Attribute, ast.Subscript, ast.Call)):
        base = base.value if not isinstance(base, ast.Call) else base.func
    bname = base.id if isinstance(base, ast.Name) else None
    if bname in fi.params() and bname != "self":
        ann = next((p.annotation for p in fi.node.args.args if p.arg == bname), None)
        at = norm(ann) if ann is not None else ""
        if "Payload" in at:
            return True, f"field of message parameter {bname}: {at}"
        if at in ("int", "int | None") and bname == "circuit_id":
            # circuit id of the cell that carried the message: names an existing table entry (validated by lookup)
            return False, "cell circuit id"
    if isinstance(base, ast.Name):
        d = single_def(fi, base.id)
        if d is not None:
            src = norm(d[0])
            if "request_cache" in src:
                return False, "stored in our own request cache entry"
            if any(t in src for t in ("self.exit_sockets", "self.relay_from_to", "self.circuits", "self.rendezvous_point_for")):
                return False, "read from our own table entry"
    return False, f"not a message field ({txt})"


def rule_no_overwrite(ctx: Ctx) -> None:
    repo = ctx.repo
    n = 0
    writers = {}
    for fi in repo.all_functions():
        if not fi.module.relpath.startswith("ipv8/messaging/anonymization/"):
            continue
        for st in walk_no_nested(fi.node):
            if not isinstance(st, ast.Assign):
                continue
            for t in st.targets:
                tab = _table_of(chain(t)) if isinstance(t, ast.Subscript) else None
                if tab is None:
                    continue
                n += 1
                writers.setdefault(fi.qualname, []).append(tab)
                wire, how = _wire_controlled(ctx, fi, t.slice)
                if not wire:
                    ctx.instance("no-overwrite-live-id", fi.where, f"{norm(t)} key: {how}", line=st.lineno)
                    continue
                cfg = ctx.cfg(fi)
                facts = facts_at(cfg, st)
                key_txt = norm(resolve(fi, t.slice))
                missing = []
                for tname, tchain in TABLES.items():
                    has = any(f.op == "in" and not f.pos and norm(resolve(fi, f.left)) == key_txt and chain(f.right) == tchain
                              for f in facts)
                    if not has:
                        missing.append(tname)
                ctx.check(not missing, "no-overwrite-live-id", fi, st,
                          f"store {norm(t)} with wire-controlled key is dominated by `key not in T` for all three tables",
                          f"a request naming circuit id `{key_txt}` ({how}) can replace a live entry: no dominating "
                          f"`not in` check for {missing} (a time-limited request-cache check does not protect a live entry)",
                          [str(f) for f in facts])
    ctx.floor("no-overwrite-live-id", n, 6)
    ctx.extra["table_writers"] = writers
    # closed set of writers
    allowed = {"TunnelCommunity.create_circuit", "TunnelCommunity.join_circuit", "TunnelCommunity.on_created",
               "HiddenTunnelCommunity.on_link_e2e"}
    for w in writers:
        ctx.check(w in allowed, "table-writers", next(f.where for f in repo.all_functions() if f.qualname == w), w, f"{w} is a reviewed writer of the routing tables",
                  f"{w} stores into a routing table but is not one of the reviewed writers {sorted(allowed)}")
    # pops / deletions
    for fi in repo.all_functions():
        if not fi.module.relpath.startswith("ipv8/messaging/anonymization/"):
            continue
        for c in calls(fi):
            ch = chain(c.func) or ""
            if call_name(c) in ("pop", "clear", "popitem", "update", "setdefault") and any(
                    ch.startswith(p + ".") for p in ("self.circuits", "self.relay_from_to", "self.exit_sockets", "self.relays")):
                ok = fi.qualname in ("TunnelCommunity.remove_circuit", "TunnelCommunity.remove_relay", "TunnelCommunity.remove_exit_socket")
                ctx.check(ok, "table-writers", fi, c, f"{ch} in {fi.qualname}", "routing-table entry removed/rewritten outside remove_*")
        for st in walk_no_nested(fi.node):
            if isinstance(st, ast.Delete):
                for t in st.targets:
                    if _table_of(chain(t)):
                        ctx.check(False, "table-writers", fi, st, "no del on routing tables", "routing-table entry deleted outside remove_*")
    # create-window (weaker, holds today): join_circuit only when no pending CreatedRequestCache and flags set
    oc = repo.method("TunnelCommunity", "on_create", TC)
    cfg = ctx.cfg(oc)
    for c in ctx.anchor(calls(oc, "self.join_circuit"), "join_circuit call in on_create"):
        facts = facts_at(cfg, c)
        no_pending = any(f.op == "truthy" and not f.pos and isinstance(f.left, ast.Call) and chain(f.left.func) == "self.request_cache.has"
                         and chain(f.left.args[0]) == "CreatedRequestCache" and norm(f.left.args[1]).endswith(".circuit_id") for f in facts)
        flags = any(f.op == "truthy" and f.pos and chain(f.left) == "self.settings.peer_flags" for f in facts)
        ctx.check(no_pending and flags, "create-window", oc, c, "join only without a pending created-cache for that id and with peer flags set",
                  "a create for an id with a pending CreatedRequestCache (or with no peer flags) is joined", [str(f) for f in facts])
    # _generate_circuit_id retries while the id is in use
    g = repo.method("TunnelCommunity", "_generate_circuit_id", TC)
    loops = [w for w in walk_no_nested(g.node) if isinstance(w, ast.While)]
    ok = bool(loops) and isinstance(loops[0].test, ast.Compare) and isinstance(loops[0].test.ops[0], ast.In) \
        and chain(loops[0].test.comparators[0]) == "self.circuits"
    ctx.check(ok, "no-overwrite-live-id", g, g.node, "_generate_circuit_id loops while the id is in self.circuits",
              "locally generated circuit ids may collide with live circuits")


def rule_data_origin(ctx: Ctx) -> None:
    repo = ctx.repo
    fi = repo.method("TunnelCommunity", "on_data", TC)
    cfg = ctx.cfg(fi)
    sock = fi.params()[1]
    deliver = [c for c in calls(fi) if chain(c.func) in ("self.on_packet_from_circuit", "self.endpoint.notify_listeners", "self.on_raw_data")]
    ctx.floor("data-origin", len(deliver), 3)
    for c in deliver:
        facts = facts_at(cfg, c)
        circ = any(f.op == "truthy" and f.pos and chain(f.left) == "circuit" for f in facts)
        org = any(f.op == "truthy" and f.pos and chain(f.left) == "origin" for f in facts)
        nb = any(f.op == "eq" and f.pos and {norm(f.left), norm(f.right)} == {sock, "circuit.hop.address"} for f in facts)
        d = single_def(fi, "circuit")
        src = d is not None and isinstance(strip_cast(d[0]), ast.Call) and chain(strip_cast(d[0]).func) == "self.circuits.get" \
            and norm(resolve(fi, strip_cast(d[0]).args[0])).endswith(".circuit_id")
        ctx.check(circ and org and nb and src, "data-origin", fi, c,
                  "delivery dominated by circuit and origin and sock_addr == circuit.hop.address (circuit looked up by the cell's id)",
                  "tunnel data is delivered upward without checking that it came from the circuit's first hop", [str(f) for f in facts])
    # exit branch: exit_data returns for unknown ids
    ex = repo.method("TunnelCommunity", "exit_data", TC)
    cfgx = ctx.cfg(ex)
    cid = ex.params()[1]
    for c in [c for c in calls(ex) if call_name(c) in ("sendto", "enable")]:
        facts = facts_at(cfgx, c)
        ok = any(f.op == "in" and f.pos and norm(f.left) == cid and chain(f.right) == "self.exit_sockets" for f in facts)
        ctx.check(ok, "data-origin", ex, c, "exit only for circuit ids present in exit_sockets", "data exits for an unknown circuit id")


def rule_return_path(ctx: Ctx) -> None:
    repo = ctx.repo
    td = repo.method("TunnelExitSocket", "tunnel_data", "ipv8/messaging/anonymization/exit_socket.py")
    sd = ctx.anchor(calls(td, "self.overlay.send_data"), "send_data in TunnelExitSocket.tunnel_data")
    for c in sd:
        ok = norm(arg(c, 0)) == "self.hop.address" and norm(arg(c, 1)) == "self.circuit_id" \
            and const_value(arg(c, 2)) == ("0.0.0.0", 0) and chain(arg(c, 3)) == td.params()[1] and chain(arg(c, 4)) == td.params()[2]
        ctx.check(ok, "return-path-bound", td, c, "return traffic goes to the socket's own hop under its own circuit id, destination null, origin = outside source",
                  "return traffic of an exit socket is not bound to that socket's own circuit/hop")
    # circuit_id / hop of an exit socket are set once in __init__ from the constructor arguments
    es = repo.cls("TunnelExitSocket")
    for m, fi, a in repo.attribute_uses("circuit_id"):
        p = getattr(a, "_parent", None)
        if isinstance(a.ctx, ast.Store) and fi is not None:
            ok = (fi.name == "__init__" and chain(a.value) == "self") \
                or (fi.qualname == "PythonCryptoEndpoint.relay_cell" and chain(a.value) == "cell") \
                or not fi.module.relpath.startswith("ipv8/messaging/anonymization/")
            ctx.check(ok, "return-path-bound", fi, enclosing_stmt(a), f"circuit_id assigned in {fi.qualname}",
                      "the circuit id of a routing object is reassigned after construction")
    unwrap = repo.method("CellPayload", "unwrap", "ipv8/messaging/anonymization/payload.py")
    packs = [c for c in calls(unwrap, "pack")]
    ok = len(packs) == 1 and const_value(packs[0].args[0]) == "!I" and norm(packs[0].args[1]) == "self.circuit_id"
    ctx.check(ok, "return-path-bound", unwrap, unwrap.node, "unwrap re-injects the header's circuit id", "unwrap injects a circuit id other than the cell header's")
    fb = repo.method("CellPayload", "from_bin", "ipv8/messaging/anonymization/payload.py")
    rets = [r for r in walk_no_nested(fb.node) if isinstance(r, ast.Return)]
    ok = False
    if rets and isinstance(rets[0].value, ast.Call):
        a0 = rets[0].value.args[0] if rets[0].value.args else None
        d = single_def(fb, a0.id) if isinstance(a0, ast.Name) else None
        ok = d is not None and d[1] == 0 and isinstance(strip_cast(d[0]), ast.Call) and chain(strip_cast(d[0]).func) == "unpack_from"
    ctx.check(ok, "return-path-bound", fb, fb.node, "cell circuit id is the first header field", "from_bin takes the circuit id from somewhere other than the cell header")
    # process_cell / routing use cell.circuit_id for all three lookups
    pc = repo.method("PythonCryptoEndpoint", "process_cell", "ipv8/messaging/anonymization/crypto.py")
    gets = [c for c in calls(pc) if chain(c.func) in ("self.relays.get", "self.circuits.get")]
    for c in gets:
        k = norm(resolve(pc, c.args[0]))
        ctx.check(k in ("cell.circuit_id", "next_relay.circuit_id"), "return-path-bound", pc, c, f"routing lookup keyed by {k}",
                  "process_cell routes by something other than the cell's circuit id")
    for name in ("incoming_crypto", "outgoing_crypto"):
        f2 = repo.method("PythonCryptoEndpoint", name, "ipv8/messaging/anonymization/crypto.py")
        for c in [c for c in calls(f2) if chain(c.func) in ("self.relays.get", "self.circuits.get", "self.exit_sockets.get")]:
            k = norm(resolve(f2, c.args[0]))
            ctx.check(k == "cell.circuit_id", "return-path-bound", f2, c, f"{name}: keys looked up by the cell's circuit id",
                      f"{name} selects session keys by something other than the cell's circuit id")


def rule_authenticated_accounting(ctx: Ctx) -> None:
    """A cell changes the state of an originator circuit only after it was decrypted with that circuit's keys."""
    pc = ctx.repo.method("PythonCryptoEndpoint", "process_cell", "ipv8/messaging/anonymization/crypto.py")
    cfg = ctx.cfg(pc)
    n = 0
    for node in walk_no_nested(pc.node):
        tgt = None
        if isinstance(node, ast.Call) and call_name(node) == "beat_heart":
            tgt = node.func.value
        elif isinstance(node, ast.AugAssign) and isinstance(node.target, ast.Attribute) and node.target.attr in ("bytes_down", "bytes_up"):
            tgt = node.target.value
        if tgt is None or not isinstance(tgt, ast.Name):
            continue
        src = resolve(pc, tgt)
        if not (isinstance(src, ast.Call) and chain(src.func) == "self.circuits.get"):
            continue        # relay accounting: a relay cannot authenticate backward traffic (it only adds a layer)
        n += 1
        fs = facts_at(cfg, node)
        ok = any(f.op == "truthy" and f.pos and isinstance(f.left, ast.Call) and chain(f.left.func) == "self.incoming_crypto" for f in fs)
        ctx.check(ok, "data-origin", pc, node, f"`{norm(node)[:40]}` on an originator circuit happens only after incoming_crypto accepted the cell",
                  f"process_cell updates the circuit's activity/traffic counters (`{norm(node)[:40]}`) before the cell is authenticated: anyone who knows a circuit id can keep "
                  "a dead circuit alive or push it over the traffic limit without holding its keys", [str(f) for f in fs])
    ctx.floor("data-origin.accounting", n, 2)
    # per-instance state of routing objects is created in __init__ (a class-level deque/list/dict would be shared by all circuits)
    ro = ctx.repo.cls("RoutingObject", "ipv8/messaging/anonymization/tunnel.py")
    for c in [ro, *ro.all_subclasses()]:
        for name, val in c.attrs.items():
            v = strip_cast(val)
            mutable = isinstance(v, (ast.List, ast.Dict, ast.Set)) or (isinstance(v, ast.Call) and chain(v.func) in ("deque", "list", "dict", "set", "defaultdict", "OrderedDict", "Counter"))
            ctx.check(not mutable, "return-path-bound", c.where, f"{c.name}.{name}", f"{c.name}.{name} is not a shared mutable class attribute",
                      f"{c.name}.{name} is a class-level mutable container ({norm(v)}): it is ONE object shared by every {c.name}, so data queued for one circuit is flushed "
                      "through another circuit's socket")


PKG = "ipv8/messaging/anonymization/"
REMOVERS = ("remove_circuit", "remove_relay", "remove_exit_socket")
# Reviewed call sites of remove_*: local API / timers / unload (not driven by a cell), and the cell handlers whose
# removal is tied to the entry the cell itself belongs to.
REMOVE_CALLERS = {
    "TunnelEndpoint.speed_test_new_circuit": "REST: removes the circuit it created itself",
    "IPRequestCache.on_timeout": "timer: our own pending circuit",
    "RPRequestCache.on_timeout": "timer: our own pending circuit",
    "RetryRequestCache.on_timeout": "timer: our own pending circuit",
    "TunnelCommunity.unload": "shutdown",
    "TunnelCommunity.do_remove": "periodic maintenance (inactive / old / over the traffic limit)",
    "TunnelCommunity.send_extend": "our own circuit that cannot be extended",
    "TunnelCommunity._ours_on_created_extended": "our own circuit, malformed handshake reply matched by request identifier",
    "TunnelCommunity.on_created": "exit entry of the request's own circuit is converted into a relay pair",
    "TunnelCommunity.on_destroy": "checked by destroy-authorised",
    "HiddenTunnelCommunity.leave_swarm": "local API",
    "HiddenTunnelCommunity.on_link_e2e": "the two exit entries being linked, both looked up from the cell / cookie",
}
# reviewed private helpers: when one has been inlined (no longer exists) its reviewed callers inherit the permission
REMOVE_HELPER_CALLERS = {
    "TunnelCommunity._ours_on_created_extended": ("TunnelCommunity.on_created", "TunnelCommunity.on_extended"),
    "TunnelCommunity.do_remove": ("TunnelCommunity.do_circuits",),
}


def _pkg_functions(repo):
    return [fi for fi in repo.all_functions() if fi.module.relpath.startswith(PKG)]


def _callers_within(repo, fi: FuncInfo) -> list[FuncInfo | None]:
    """Functions that call (or reference as a callback) fi by name; None for a module-level / unknown site."""
    out = []
    for _m, caller, _c in repo.callers_of_name(fi.name):
        out.append(caller)
    for _m, user, a in repo.attribute_uses(fi.name):
        if isinstance(a.ctx, ast.Load) and not (isinstance(getattr(a, "_parent", None), ast.Call) and a._parent.func is a):
            out.append(user)        # passed around as a value (callback): caller unknown -> the using function stands for it
    return out


def rule_removers(ctx: Ctx) -> None:
    """Closed set of functions that may call remove_circuit / remove_relay / remove_exit_socket."""
    repo = ctx.repo
    allowed = set(REMOVE_CALLERS)
    existing = {fi.qualname for fi in repo.all_functions()}
    for helper, callers in REMOVE_HELPER_CALLERS.items():
        if helper not in existing:
            allowed.update(callers)
    by_q: dict[str, list[FuncInfo]] = {}
    for fi in repo.all_functions():
        by_q.setdefault(fi.qualname, []).append(fi)

    def permitted(fi: FuncInfo | None, seen: frozenset = frozenset()) -> bool:
        if fi is None:
            return False
        q = fi.qualname
        if q in allowed:
            return True
        if fi.name in REMOVERS and any(isinstance(n, ast.Call) and isinstance(n.func, ast.Attribute) and n.func.attr == fi.name
                                       and isinstance(n.func.value, ast.Call) and chain(n.func.value.func) == "super"
                                       for n in walk_no_nested(fi.node)):
            return True             # override that delegates to super().remove_*: same operation
        # a private helper every use of which lies in a permitted function
        if not fi.name.startswith("_") or fi.name.startswith("__") or q in seen:
            return False
        users = _callers_within(repo, fi)
        return bool(users) and all(permitted(u, seen | {q}) for u in users)

    n = 0
    for name in REMOVERS:
        for _m, fi, c in repo.callers_of_name(name):
            n += 1
            where = fi if fi is not None else _m.relpath
            ctx.check(permitted(fi), "table-removers", where, c,
                      f"{name} called from reviewed function {fi.qualname if fi else '<module>'}",
                      f"{fi.qualname if fi else 'module-level code'} calls {name} but is not one of the reviewed places that may "
                      f"remove a circuit/relay/exit entry: an entry disappears for a reason other than an authorised destroy, "
                      f"its own timers/limits, or an action of its owner")
    ctx.floor("table-removers", n, 20)

    # opening a circuit changes nothing about existing circuits: nothing reachable from on_create removes an entry
    tc = repo.cls("TunnelCommunity", TC)
    starts = []
    for c in [tc, *tc.all_subclasses()]:
        m = c.methods.get("on_create")
        if m is not None:
            starts.append(m)
    ctx.anchor(starts, "TunnelCommunity.on_create")
    seen: dict[int, tuple[FuncInfo, FuncInfo | None]] = {}
    todo: list[tuple[FuncInfo, FuncInfo | None]] = [(s, None) for s in starts]
    while todo:
        fi, par = todo.pop()
        if id(fi.node) in seen:
            continue
        seen[id(fi.node)] = (fi, par)
        for c in calls(fi, nested=True):
            for t in repo.resolve_call(fi, c):
                if isinstance(t, FuncInfo) and t.module.relpath.startswith(PKG) and t.name not in REMOVERS:
                    todo.append((t, fi))
    reached = {fi.qualname for fi, _ in seen.values()}
    ctx.check({"TunnelCommunity.should_join_circuit", "TunnelCommunity.join_circuit"} <= reached or len(reached) >= 3,
              "create-changes-nothing", starts[0], starts[0].node, "call graph below on_create resolved (admission test and join reached)",
              "undecided: the calls made by on_create could not be resolved")
    for fi, par in seen.values():
        path = [fi.qualname]
        p = par
        while p is not None and len(path) < 8:
            path.append(p.qualname)
            p = seen[id(p.node)][1]
        via = " <- ".join(path)
        bad = [c for c in calls(fi, nested=True) if call_name(c) in REMOVERS]
        for c in calls(fi, nested=True):
            ch = chain(c.func) or ""
            if call_name(c) in ("pop", "clear", "popitem") and any(ch.startswith(p + ".") for p in (*TABLES.values(), "self.relays")):
                bad.append(c)
        for st in ast.walk(fi.node):
            if isinstance(st, ast.Delete) and any(_table_of(chain(t)) for t in st.targets):
                bad.append(st)
        ctx.check(not bad, "create-changes-nothing", fi, bad[0] if bad else fi.node,
                  f"{fi.qualname} (reached from on_create) removes no circuit/relay/exit entry",
                  f"handling a CREATE cell - plaintext, for a circuit id nobody holds keys for - removes an existing entry "
                  f"(`{norm(bad[0])[:70] if bad else ''}`, reached via {via}): a third party can tear down other peers' circuits by asking to open new ones")


def _builtin_exc_ancestors(names) -> set[str]:
    import builtins
    out = set()
    for n in names:
        k = getattr(builtins, n, None)
        if isinstance(k, type) and issubclass(k, BaseException):
            out.update(b.__name__ for b in k.__mro__ if b is not object)
    return out


def rule_auth_failure_inert(ctx: Ctx) -> None:
    """
    A cell that fails authentication (CryptoException: wrong handshake authenticator, undecryptable cell) must be
    dropped without touching the tables: no except-handler that can receive a CryptoException leads to remove_*.
    """
    repo = ctx.repo
    ce = repo.cls("CryptoException", "ipv8/messaging/anonymization/crypto.py")
    caught_names = {c.name for c in ce.mro()} | set(ce.all_base_names())
    caught_names |= _builtin_exc_ancestors(caught_names)
    caught_names |= {"Exception", "BaseException"}      # every exception class is caught by these

    def catches_ce(h: ast.ExceptHandler) -> bool:
        if h.type is None:
            return True
        for e in (h.type.elts if isinstance(h.type, ast.Tuple) else [h.type]):
            c = chain(e)
            if c is None:
                return True             # computed exception class: assume it may match
            if c.rsplit(".", 1)[-1] in caught_names:
                return True
        return False

    def swallowed(fi: FuncInfo, node: ast.AST) -> bool:
        """node lies in the body of a try (inside fi) one of whose handlers catches CryptoException and does not re-raise."""
        from ..model import ancestors
        child = node
        for a in ancestors(node):
            if a is fi.node:
                break
            if isinstance(a, ast.Try) and any(child is s for s in a.body):
                hs = [h for h in a.handlers if catches_ce(h)]
                if hs and not any(isinstance(x, ast.Raise) for x in walk_no_nested(hs[0])):
                    return True
            child = a
        return False

    def raises_ce_directly(fi: FuncInfo, r: ast.Raise) -> bool:
        e = r.exc
        if isinstance(e, ast.Call):
            e = e.func
        c = chain(e) if e is not None else None
        return c is not None and c.rsplit(".", 1)[-1] in {k.name for k in [ce, *ce.all_subclasses()]}

    funcs = _pkg_functions(repo)
    raisers: set[str] = set()           # names of functions out of which a CryptoException may propagate
    changed = True
    while changed:
        changed = False
        for fi in funcs:
            if fi.name in raisers:
                continue
            hit = False
            for n in walk_no_nested(fi.node):
                if isinstance(n, ast.Raise) and raises_ce_directly(fi, n) and not swallowed(fi, n):
                    hit = True
                elif isinstance(n, ast.Call) and call_name(n) in raisers and not swallowed(fi, n):
                    hit = True
                if hit:
                    break
            if hit:
                raisers.add(fi.name)
                changed = True
    ctx.anchor("verify_and_generate_shared_secret" in raisers, "verify_and_generate_shared_secret raises CryptoException on a wrong authenticator")

    n = 0
    for fi in funcs:
        tries = [t for t in walk_no_nested(fi.node) if isinstance(t, ast.Try) and t.handlers]
        if not tries:
            continue
        removals = [c for c in calls(fi) if call_name(c) in REMOVERS]
        for t in tries:
            body_nodes = [x for s in t.body for x in walk_no_nested(s)]
            src = [x for x in body_nodes if (isinstance(x, ast.Call) and call_name(x) in raisers)
                   or (isinstance(x, ast.Raise) and raises_ce_directly(fi, x))]
            if not src:
                continue
            cfg = ctx.cfg(fi)
            for h in t.handlers:
                if not catches_ce(h):
                    ctx.instance("auth-failure-inert", fi.where, f"`{norm(h.type)}` handler around `{norm(src[0])[:50]}` cannot receive CryptoException",
                                 line=h.lineno)
                    n += 1
                    continue
                n += 1
                hn = [x for x in cfg.by_ast.get(id(h), []) if x.kind == "handler"]
                without = cfg.reach(cut_nodes=hn)
                everything = cfg.reach()
                only_via = [c for c in removals
                            if any(x in everything and x not in without for x in cfg.nodes_for(c))]
                # removal hidden in a callee invoked only from the handler
                for c in calls(fi):
                    if call_name(c) in REMOVERS or not any(x in everything and x not in without for x in cfg.nodes_for(c)):
                        continue
                    for tgt in repo.resolve_call(fi, c):
                        if isinstance(tgt, FuncInfo) and tgt.module.relpath.startswith(PKG) and tgt.name not in REMOVERS \
                                and any(call_name(k) in REMOVERS for k in calls(tgt, nested=True)):
                            only_via.append(c)
                ctx.check(not only_via, "auth-failure-inert", fi, only_via[0] if only_via else h,
                          f"handler `except {norm(h.type) if h.type is not None else ''}` that can receive CryptoException removes no entry",
                          f"`except {norm(h.type) if h.type is not None else ''}` around `{norm(src[0])[:60]}` also receives CryptoException "
                          f"(bases of CryptoException: {sorted(caught_names - {'BaseException'})}) and its handler removes a circuit/relay/exit entry: "
                          f"a cell that FAILS authentication (bogus handshake authenticator / undecryptable cell, no keys needed) tears the entry down "
                          f"instead of being dropped")
    ctx.floor("auth-failure-inert", n, 3)


def rule_unkeyed_circuit(ctx: Ctx) -> None:
    """A circuit that has no verified hop yet has no keys: `decrypt_cell(cell, BACKWARD, *circuit.hops)` over zero hops returns
    the cell unchanged, so a non-plaintext cell would be accepted without any key (defect fixed by 3cadd29)."""
    ic = ctx.repo.method("PythonCryptoEndpoint", "incoming_crypto", "ipv8/messaging/anonymization/crypto.py")
    cfg = ctx.cfg(ic)

    def hops_of_own_circuit(e) -> bool:
        e = resolve(ic, e)
        if not (isinstance(e, ast.Attribute) and e.attr in ("hops", "_hops")):
            return False
        base = resolve(ic, e.value)
        return isinstance(base, ast.Call) and chain(base.func) in ("self.circuits.get",) or \
            (isinstance(base, ast.Subscript) and chain(base.value) == "self.circuits")

    def nonempty_fact(f) -> bool:
        if f.op == "truthy" and f.pos:
            if hops_of_own_circuit(f.left):
                return True
            l = resolve(ic, f.left)
            return isinstance(l, ast.Call) and call_name(l) == "len" and l.args and hops_of_own_circuit(l.args[0])
        def is_len(x):
            x = resolve(ic, x)
            return isinstance(x, ast.Call) and call_name(x) == "len" and x.args and hops_of_own_circuit(x.args[0])
        if f.op == "lt" and f.pos and const_value(f.left) == 0 and is_len(f.right):
            return True                                   # 0 < len(hops)
        if f.op == "lt" and not f.pos and is_len(f.left) and const_value(f.right) == 1:
            return True                                   # not len(hops) < 1
        if f.op == "eq" and not f.pos and ((is_len(f.left) and const_value(f.right) == 0) or (is_len(f.right) and const_value(f.left) == 0)):
            return True
        return False

    def plaintext_fact(f) -> bool:
        return f.op == "truthy" and f.pos and (chain(resolve(ic, f.left)) or "").endswith(".plaintext")

    sites = []
    for c in calls(ic):
        if call_name(c) != "decrypt_cell":
            continue
        for a in c.args:
            if isinstance(a, ast.Starred) and hops_of_own_circuit(a.value):
                sites.append(c)
    ctx.anchor(sites, "decrypt_cell(cell, BACKWARD, *circuit.hops) in incoming_crypto")
    def own_circuit_absent(f) -> bool:
        l = resolve(ic, f.left)
        is_own = isinstance(l, ast.Call) and chain(l.func) == "self.circuits.get"
        if not is_own:
            return False
        return (f.op == "truthy" and not f.pos) or (f.op == "is" and const_value(f.right) is None and f.pos)

    for c in sites:
        fs = facts_at(cfg, c)
        # assume: the circuit exists, has no hop, and the cell is not plaintext -> the layer removal must be unreachable
        ok = unreachable_assuming(cfg, c, lambda f: nonempty_fact(f) or plaintext_fact(f) or own_circuit_absent(f))
        ctx.check(ok, "keys-required", ic, c, "layers of an own circuit are removed only when the circuit has at least one keyed hop (or the cell is the plaintext created)",
                  "an own circuit without verified hops has no keys: removing zero layers accepts any non-plaintext cell naming its id, so a third party "
                  "that knows the circuit id has data delivered as if it came through the circuit", [str(f) for f in fs])


def run(ctx: Ctx) -> None:
    rule_authenticated_accounting(ctx)
    rule_unkeyed_circuit(ctx)
    rule_destroy(ctx)
    rule_no_overwrite(ctx)
    rule_data_origin(ctx)
    rule_return_path(ctx)
    rule_removers(ctx)
    rule_auth_failure_inert(ctx)
    ctx.assume("no shared mutable state between circuits besides the three routing tables and request caches (structural argument; interleavings not explored)")
    ctx.assume("collision of locally generated 32-bit ids with relay/exit ids is a 2^-32 event and not decided")


WITNESSES = [
    {"name": "cells accepted for a circuit without keys (defect fixed by 3cadd29)", "file": "ipv8/messaging/anonymization/crypto.py", "rule": "keys-required",
     "old": """        if circuit and not circuit.hops and not cell.plaintext:
            self.logger.debug("Got encrypted cell for circuit %d, which has no session keys yet", circuit_id)
            return None

""", "new": ""},
    {"name": "pre-fix: join_circuit overwrites live id", "file": TC, "rule": "no-overwrite-live-id",
     "old": "        if circuit_id in self.circuits or circuit_id in self.relay_from_to or circuit_id in self.exit_sockets:\n            self.logger.warning(\"Refusing to join circuit %d: circuit id is already in use\", circuit_id)\n            return\n",
     "new": ""},
    {"name": "live-id check misses relay table", "file": TC, "rule": "no-overwrite-live-id",
     "old": "if circuit_id in self.circuits or circuit_id in self.relay_from_to or circuit_id in self.exit_sockets:",
     "new": "if circuit_id in self.circuits or circuit_id in self.exit_sockets:"},
    {"name": "destroy of exit socket unauthenticated neighbour", "file": TC, "rule": "destroy-authorised",
     "old": "        elif circuit_id in self.exit_sockets and peer == self.exit_sockets[circuit_id].hop.peer:",
     "new": "        elif circuit_id in self.exit_sockets:"},
    {"name": "destroy of circuit compares address only", "file": TC, "rule": "destroy-authorised",
     "old": "        elif circuit_id in self.circuits and peer == self.circuits[circuit_id].hop.peer:",
     "new": "        elif circuit_id in self.circuits and source_address == self.circuits[circuit_id].hop.address:"},
    {"name": "relay destroy checks wrong side", "file": TC, "rule": "destroy-authorised",
     "old": "        if prev_relay and peer == prev_relay.hop.peer:", "new": "        if next_relay and prev_relay and peer == next_relay.hop.peer:"},
    {"name": "on_destroy made unsigned", "rule": "destroy-authorised",
     "edits": [{"file": TC, "old": "    @lazy_wrapper(DestroyPayload)\n    def on_destroy(self, peer: Peer, payload: DestroyPayload) -> None:",
                "new": "    @lazy_wrapper_unsigned(DestroyPayload)\n    def on_destroy(self, peer: Peer, payload: DestroyPayload) -> None:"},
               {"file": TC, "old": "from ...lazy_community import lazy_wrapper\n", "new": "from ...lazy_community import lazy_wrapper, lazy_wrapper_unsigned\n"}]},
    {"name": "create-window check removed", "file": TC, "rule": "create-window",
     "old": "        if self.request_cache.has(CreatedRequestCache, payload.circuit_id):\n            self.logger.warning(\"Already have a request for circuit %d\", payload.circuit_id)\n            return\n",
     "new": ""},
    {"name": "data accepted from any sender", "file": TC, "rule": "data-origin",
     "old": "if circuit and origin and sock_addr == circuit.hop.address:", "new": "if circuit and origin:"},
    {"name": "return path uses caller-supplied circuit", "file": "ipv8/messaging/anonymization/exit_socket.py", "rule": "return-path-bound",
     "old": "self.overlay.send_data(self.hop.address, self.circuit_id, (\"0.0.0.0\", 0), source, data)",
     "new": "self.overlay.send_data(self.hop.address, self.overlay.exit_sockets and next(iter(self.overlay.exit_sockets)), (\"0.0.0.0\", 0), source, data)"},
    {"name": "new table writer", "file": TC, "rule": "table-writers",
     "old": "        exit_socket = self.exit_sockets.get(payload.circuit_id)\n        if exit_socket:\n            exit_socket.beat_heart()\n\n        self.send_cell(source_address, PongPayload",
     "new": "        exit_socket = self.exit_sockets.get(payload.circuit_id)\n        if exit_socket:\n            exit_socket.beat_heart()\n            self.exit_sockets[payload.identifier] = exit_socket\n\n        self.send_cell(source_address, PongPayload"},
    {"name": "unwrap takes circuit id from body", "file": "ipv8/messaging/anonymization/payload.py", "rule": "return-path-bound",
     "old": "                         pack(\"!I\", self.circuit_id),\n                         self.message[1:]])",
     "new": "                         self.message[1:5],\n                         self.message[5:]])"},
    {"name": "handshake authentication failure tears the circuit down", "file": TC, "rule": "auth-failure-inert",
     "old": "        except ValueError:\n            self.remove_circuit(circuit.circuit_id, \"error while verifying shared secret\")",
     "new": "        except Exception:\n            self.remove_circuit(circuit.circuit_id, \"error while verifying shared secret\")"},
    {"name": "create admission evicts an existing relay", "file": TC, "rule": "create-changes-nothing",
     "old": "            self.logger.warning(\"Too many relays (%d)\", (len(self.relay_from_to) + len(self.exit_sockets)))\n            return False\n",
     "new": "            self.logger.warning(\"Too many relays (%d)\", (len(self.relay_from_to) + len(self.exit_sockets)))\n            self.remove_relay(next(iter(self.relay_from_to)), \"make room\")\n"},
    {"name": "ping handler removes an exit entry", "file": TC, "rule": "table-removers",
     "old": "        exit_socket = self.exit_sockets.get(payload.circuit_id)\n        if exit_socket:\n            exit_socket.beat_heart()\n\n        self.send_cell(source_address, PongPayload",
     "new": "        exit_socket = self.exit_sockets.get(payload.circuit_id)\n        if exit_socket:\n            exit_socket.beat_heart()\n        else:\n            self.remove_exit_socket(payload.identifier)\n\n        self.send_cell(source_address, PongPayload"},
]
