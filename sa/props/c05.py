"""C05 - Circuits are isolated from each other and from third parties."""
from __future__ import annotations

import ast

from ..core import Ctx
from ..match import arg, call_name, calls, fact_of, facts_at, local_defs, resolve, single_def, unreachable_assuming
from ..model import NOCONST, AnalysisError, FuncInfo, chain, const_value, enclosing_stmt, head, norm, strip_cast, walk_no_nested

LEVEL = "other"
EXPLANATION = (
    "Table-level isolation as dominance facts on every mutation site of the three routing tables: each remove_* in "
    "on_destroy is dominated by `peer == <entry for the destroyed id>.hop.peer` and on_destroy is an authenticated "
    "handler; every store keyed by a wire-controlled circuit id is dominated by `id not in T` for all three tables "
    "(checks against time-limited request caches do not count); data delivery is dominated by the origin/neighbour "
    "test; the exit socket's return path uses its own circuit id and hop; CellPayload.unwrap injects the header's "
    "circuit id; closed list of functions that write the tables and of "
    "functions that call remove_* (new private helpers of a listed function and super() overrides inherit the permission); nothing "
    "reachable from on_create removes an entry; no except-handler that can receive CryptoException (class hierarchy) leads to a "
    "remove_* call; layers of an own circuit are removed only when it has at least one keyed hop (a circuit whose first CREATE is "
    "outstanding accepts plaintext cells only); the adjacent hop of a routing entry (hop / hop.peer / hop.peer.address, which is where its return "
    "traffic goes) is never assigned after construction; a store into a routing table under an id that is not wire-controlled uses a freshly "
    "generated id (also one parked in our own request cache by the function that generated it) or converts an entry that exists under that id in "
    "another table; the PythonCryptoEndpoint that removes the layers is built around the endpoint the community itself is registered on "
    "(`self.endpoint`, not one of its interfaces), so no interface is left on which datagrams reach the cell handlers undecrypted. "
    "A destroy-forwarding call made by on_destroy itself needs the same adjacency test as the removal. In the handlers of the plaintext "
    "CREATED / EXTENDED cells (on_created, on_extended and the private steps they call) an entry is removed only on paths on which "
    "verify_and_generate_shared_secret completed normally (the exit-socket -> relay-pair conversion under one id excepted); the removal in the "
    "`except ValueError` of that step is a known finding of the unmodified tree. Paired steps written as a private context manager "
    "(__exit__ / @contextmanager handler around the yield) are read as the try/except they are; T.update({k: v}) / setdefault / |= with "
    "enumerable keys are item stores; `T.get(k, SENTINEL) is SENTINEL` with a module-private `object()` sentinel is `k not in T`. "
    "Guards are read off the function's control-flow graph first; where that reading fails the same question is asked path by "
    "path on a symbolic walk (locals expanded to the expressions they were bound to, tests over constants folded, loops over literal tuples "
    "unrolled, generator helpers stepped with the consuming loop, private helpers entered with parameters bound to the arguments). "
    "on_link_e2e writes the relay entry of the rendezvous circuit registered under the cell's cookie: that registration is dropped while "
    "on_link_e2e runs (by itself or by the synchronous part of the remove_exit_socket it calls), so a cookie links once. "
    "Values picked from a table of rows written in place (next() over (test, action) rows, {state: bound method}.get(state)) are followed row "
    "by row; functools.partial objects and generator objects bound to a local are the call / the generator body they stand for. "
    "Interleavings of concurrent circuits are not explored."
)

TC = "ipv8/messaging/anonymization/community.py"
HS = "ipv8/messaging/anonymization/hidden_services.py"
TABLES = {"circuits": "self.circuits", "relay_from_to": "self.relay_from_to", "exit_sockets": "self.exit_sockets"}


# ---------------------------------------------------------------- predicates over expanded expressions / facts
def _is_none(e) -> bool:
    return isinstance(e, ast.Constant) and e.value is None


_SENTINELS: set = set()        # module-level names of the package bound once to a fresh `object()` and only ever used as a lookup default / in `is` tests
_SENTINEL_REPO: list = [None]


def _ensure_sentinels(repo) -> None:
    """
    A private sentinel `_MISSING = object()` used as `T.get(k, _MISSING) is _MISSING` is the `k not in T` test: the object is created once,
    is never stored anywhere (every use of the name is a default argument of get/pop or an operand of is / is not) and therefore differs from
    every entry.  The names are collected per analysed tree.
    """
    if _SENTINEL_REPO[0] is repo:
        return
    _SENTINEL_REPO[0] = repo
    _SENTINELS.clear()
    bad: set = set()
    for m in repo.by_relpath.values() if hasattr(repo, "by_relpath") else []:
        if not m.relpath.startswith("ipv8/messaging/anonymization/"):
            continue
        cand = {}
        for st in m.tree.body:
            if isinstance(st, (ast.Assign, ast.AnnAssign)) and st.value is not None:
                tg = st.targets if isinstance(st, ast.Assign) else [st.target]
                v = strip_cast(st.value)
                if len(tg) == 1 and isinstance(tg[0], ast.Name) and isinstance(v, ast.Call) and isinstance(v.func, ast.Name) and v.func.id == "object" \
                        and not v.args and not v.keywords:
                    cand[tg[0].id] = cand.get(tg[0].id, 0) + 1
        cand = {k for k, c in cand.items() if c == 1}
        if not cand:
            continue
        for n in ast.walk(m.tree):
            if isinstance(n, ast.Name) and n.id in cand:
                par = getattr(n, "_parent", None)
                if isinstance(n.ctx, ast.Store):
                    if par not in m.tree.body and not (isinstance(par, (ast.Assign, ast.AnnAssign)) and par in m.tree.body):
                        bad.add(n.id)
                    continue
                ok = False
                if isinstance(par, ast.Compare) and all(isinstance(o, (ast.Is, ast.IsNot)) for o in par.ops):
                    ok = True
                elif isinstance(par, ast.Call) and isinstance(par.func, ast.Attribute) and par.func.attr in ("get", "pop") and len(par.args) == 2 \
                        and par.args[1] is n:
                    ok = True
                if not ok:
                    bad.add(n.id)
            elif isinstance(n, (ast.Global, ast.Nonlocal)) and set(n.names) & cand:
                bad.update(set(n.names) & cand)
        _SENTINELS.update(cand)
    _SENTINELS.difference_update(bad)


def _default_of(e):
    """for a lookup `T.get(k)` / `T.get(k, D)`: "none" when absent keys yield None, the sentinel's name when D is a private sentinel, else None"""
    e = strip_cast(e)
    if not (isinstance(e, ast.Call) and isinstance(e.func, ast.Attribute) and e.func.attr == "get" and not e.keywords and 1 <= len(e.args) <= 2):
        return None
    if len(e.args) == 1 or _is_none(strip_cast(e.args[1])):
        return "none"
    d = strip_cast(e.args[1])
    return d.id if isinstance(d, ast.Name) and d.id in _SENTINELS else None


def _entry_of(e, tables, keyp) -> bool:
    """e denotes the entry of one of `tables` under a key accepted by keyp: T[k], T.get(k), T.get(k, None), T.get(k, <private sentinel>)"""
    e = strip_cast(e)
    tables = (tables,) if isinstance(tables, str) else tables
    if isinstance(e, ast.Subscript):
        return chain(e.value) in tables and bool(keyp(strip_cast(e.slice)))
    if isinstance(e, ast.Call) and isinstance(e.func, ast.Attribute) and e.func.attr == "get" and chain(e.func.value) in tables \
            and not e.keywords and 1 <= len(e.args) <= 2 and not isinstance(e.args[0], ast.Starred):
        return _default_of(e) is not None and bool(keyp(strip_cast(e.args[0])))
    return False


def _missing_marker(a, b) -> bool:
    """b is exactly what lookup a yields for an absent key (None for T.get(k), the sentinel for T.get(k, SENTINEL))"""
    d = _default_of(a)
    b = strip_cast(b)
    if d == "none" or isinstance(strip_cast(a), ast.Subscript):
        return _is_none(b)
    return d is not None and isinstance(b, ast.Name) and b.id == d


def _present(f, tables, keyp) -> bool:
    """fact f states that the entry under the key exists: `k in T`, `T.get(k)` truthy / is not None / != None, `T.get(k, S) is not S`"""
    tables = (tables,) if isinstance(tables, str) else tables
    if f.op == "in":
        return f.pos and bool(keyp(strip_cast(f.left))) and chain(_container(f.right)) in tables
    if f.op == "truthy":
        return f.pos and _entry_of(f.left, tables, keyp) and (isinstance(strip_cast(f.left), ast.Subscript) or _default_of(f.left) == "none")
    if f.op in ("is", "eq") and f.right is not None:
        for a, b in ((f.left, f.right), (f.right, f.left)):
            if _entry_of(a, tables, keyp) and _missing_marker(a, b) and (f.op == "is" or _is_none(strip_cast(b))):
                return not f.pos
    return False


def _absent(f, tables, keyp) -> bool:
    """fact f states that there is no entry under the key: `k not in T`, `T.get(k) is None`, `not T.get(k)`, `T.get(k, S) is S`"""
    tables = (tables,) if isinstance(tables, str) else tables
    if f.op == "in":
        return not f.pos and bool(keyp(strip_cast(f.left))) and chain(_container(f.right)) in tables
    if f.op == "truthy":
        return not f.pos and _entry_of(f.left, tables, keyp) and not isinstance(strip_cast(f.left), ast.Subscript) and _default_of(f.left) == "none"
    if f.op in ("is", "eq") and f.right is not None:
        for a, b in ((f.left, f.right), (f.right, f.left)):
            if _entry_of(a, tables, keyp) and not isinstance(strip_cast(a), ast.Subscript) and _missing_marker(a, b) \
                    and (f.op == "is" or _is_none(strip_cast(b))):
                return f.pos
    return False


def _eq_sides(f):
    return ((f.left, f.right), (f.right, f.left)) if f.op == "eq" and f.pos and f.right is not None else ()


def _hop_field_of(e, field: str):
    """X for `X.hop.<field>`, else None"""
    e = strip_cast(e)
    if isinstance(e, ast.Attribute) and e.attr == field and isinstance(strip_cast(e.value), ast.Attribute) and strip_cast(e.value).attr == "hop":
        return strip_cast(strip_cast(e.value).value)
    return None


# ---------------------------------------------------------------- struct (un)packing, whatever the spelling
_STRUCT_OPS = ("pack", "unpack", "unpack_from", "pack_into", "iter_unpack")


def _single_top_binding(m, name: str) -> bool:
    """module-level `name` is bound exactly once (a constant, not a variable the module keeps re-pointing)"""
    n = 0
    for st in ast.walk(m.tree):
        if isinstance(st, ast.Name) and st.id == name and isinstance(st.ctx, (ast.Store, ast.Del)):
            n += 1
        elif isinstance(st, ast.Global) and name in st.names:
            return False
    return n == 1


def _const_in(repo, m, cls, e, depth: int = 0):
    """
    Value of a constant expression written in module m (class cls): literals, module / class constants, arithmetic over them,
    calcsize(<fmt>), <Struct object>.size, len(<constant bytes>).  NOCONST when it is not a constant.
    """
    import struct as _struct
    e = strip_cast(e)
    v = repo.resolve_const(m, e, cls)
    if v is not NOCONST or depth > 8:
        return v
    if isinstance(e, ast.BinOp):
        l, r = _const_in(repo, m, cls, e.left, depth + 1), _const_in(repo, m, cls, e.right, depth + 1)
        if l is NOCONST or r is NOCONST:
            return NOCONST
        try:
            if isinstance(e.op, ast.Add):
                return l + r
            if isinstance(e.op, ast.Sub):
                return l - r
            if isinstance(e.op, ast.Mult):
                return l * r
            if isinstance(e.op, ast.FloorDiv):
                return l // r
        except Exception:  # noqa: BLE001
            return NOCONST
        return NOCONST
    if isinstance(e, ast.Attribute) and e.attr == "size":
        fmt = _struct_fmt(repo, m, cls, e.value, depth + 1)
        if fmt is not None:
            try:
                return _struct.calcsize(fmt)
            except _struct.error:
                return NOCONST
    if isinstance(e, ast.Call) and not e.keywords and len(e.args) == 1 and not isinstance(e.args[0], ast.Starred):
        f = e.func
        if isinstance(f, ast.Name) and f.id == "len":
            v = _const_in(repo, m, cls, e.args[0], depth + 1)
            return len(v) if isinstance(v, (bytes, str, tuple, list)) else NOCONST
        if _struct_function(m, f) == "calcsize":
            fmt = _const_in(repo, m, cls, e.args[0], depth + 1)
            if isinstance(fmt, (str, bytes)):
                try:
                    return _struct.calcsize(fmt)
                except _struct.error:
                    return NOCONST
    if isinstance(e, ast.Name):
        r = repo.resolve_name(m, e.id)
        if isinstance(r, tuple) and r[0] == "const" and (e.id not in r[1].constants or _single_top_binding(r[1], e.id)):
            return _const_in(repo, r[1], None, r[2], depth + 1)
    if isinstance(e, ast.Attribute):
        owner, val = _class_attr(repo, m, cls, e)
        if val is not None:
            return _const_in(repo, owner.module, owner, val, depth + 1)
    return NOCONST


def _class_attr(repo, m, cls, e: ast.Attribute):
    """(owning class, value expression) of `self.X` / `cls.X` / `ClassName.X` when X is a class-level attribute, else (None, None)"""
    c = None
    if isinstance(e.value, ast.Name) and e.value.id in ("self", "cls") and cls is not None:
        c = cls
    else:
        c = repo.resolve_class_expr(m, e.value)
    if c is not None and c.lookup_attr(e.attr) is not None:
        owner = next(k for k in c.mro() if e.attr in k.attrs)
        return owner, owner.attrs[e.attr]
    return None, None


def _struct_function(m, f) -> str | None:
    """name of the function of the `struct` module that the callee expression f denotes in module m (import aliases followed)"""
    if isinstance(f, ast.Name):
        imp = m.imports.get(f.id)
        if imp is not None:
            return imp[1] if imp[0] == "struct" and imp[1] is not None else None
        return f.id if f.id in (*_STRUCT_OPS, "calcsize", "Struct") and f.id not in m.functions and f.id not in m.classes \
            and f.id not in m.constants else None
    if isinstance(f, ast.Attribute) and isinstance(f.value, ast.Name):
        imp = m.imports.get(f.value.id)
        if (imp is not None and imp == ("struct", None)) or (imp is None and f.value.id == "struct"):
            return f.attr
    return None


def _struct_fmt(repo, m, cls, e, depth: int = 0) -> str | None:
    """format string of the precompiled struct.Struct object e denotes: Struct(<fmt>) in place, a module constant, a class attribute"""
    e = strip_cast(e)
    if depth > 8:
        return None
    if isinstance(e, ast.Call):
        if _struct_function(m, e.func) == "Struct" and len(e.args) + len(e.keywords) == 1 and not any(isinstance(a, ast.Starred) for a in e.args):
            a = e.args[0] if e.args else (e.keywords[0].value if e.keywords[0].arg == "format" else None)
            v = _const_in(repo, m, cls, a, depth + 1) if a is not None else NOCONST
            if isinstance(v, bytes):
                v = v.decode("latin-1")
            return v if isinstance(v, str) else None
        return None
    if isinstance(e, ast.Name):
        r = repo.resolve_name(m, e.id)
        if isinstance(r, tuple) and r[0] == "const" and (e.id not in r[1].constants or _single_top_binding(r[1], e.id)):
            return _struct_fmt(repo, r[1], None, r[2], depth + 1)
        return None
    if isinstance(e, ast.Attribute):
        owner, val = _class_attr(repo, m, cls, e)
        if val is not None:
            return _struct_fmt(repo, owner.module, owner, val, depth + 1)
    return None


def _struct_call(repo, fi: FuncInfo, call):
    """
    (operation, format string, operands) of a struct (un)packing call in any of its spellings - `pack(fmt, ...)`, `struct.pack(fmt, ...)`,
    `S.pack(...)` with S a precompiled Struct(fmt) (module constant / class attribute / written in place) - the format given as a literal
    or a named constant.  None when the call is not one of these or its format is not a constant.
    """
    call = strip_cast(call)
    if not isinstance(call, ast.Call) or any(isinstance(a, ast.Starred) for a in call.args[:1]):
        return None
    m, cls = fi.module, fi.cls
    f = call.func
    op = _struct_function(m, f)
    if op in _STRUCT_OPS:
        fa = call.args[0] if call.args else next((k.value for k in call.keywords if k.arg == "format"), None)
        if fa is None:
            return None
        fmt = _const_in(repo, m, cls, fa)
        if isinstance(fmt, bytes):
            fmt = fmt.decode("latin-1")
        rest = call.args[1:] if call.args else []
        return (op, fmt, list(rest), {k.arg: k.value for k in call.keywords if k.arg and k.arg != "format"}) if isinstance(fmt, str) else None
    if op is None and isinstance(f, ast.Attribute) and f.attr in _STRUCT_OPS:
        fmt = _struct_fmt(repo, m, cls, f.value)
        if fmt is not None:
            return f.attr, fmt, list(call.args), {k.arg: k.value for k in call.keywords if k.arg}
    return None


def _fmt_operands(fmt: str) -> list | None:
    """
    [(code, byte offset, size)] per operand of a big-endian / network-order struct format (no padding in these modes): "!cI??" ->
    [("c", 0, 1), ("I", 1, 4), ("?", 5, 1), ("?", 6, 1)].  None for other byte orders or a format that does not parse.
    """
    import re
    import struct as _struct
    if fmt[:1] not in ("!", ">"):
        return None
    out, off = [], 0
    items = re.findall(r"\s*(\d*)([A-Za-z?])", fmt[1:])
    if "".join(f"{c}{k}" for c, k in items) != re.sub(r"\s", "", fmt[1:]):
        return None
    for cnt, code in items:
        try:
            if code in ("s", "p"):
                size = _struct.calcsize("!" + cnt + code)
                out.append((code, off, size))
                off += size
                continue
            one = _struct.calcsize("!" + code)
        except _struct.error:
            return None
        for _ in range(int(cnt) if cnt else 1):
            if code != "x":
                out.append((code, off, one))
            off += one
    return out


def _is_uint32(code: str) -> bool:
    return code in ("I", "L")           # 4 bytes, unsigned, in standard (network / big-endian) mode: what a cell's circuit id is on the wire


def _try_walk(ctx: Ctx, fi: FuncInfo, force=()):
    """the path walk of fi, or None when the walk itself is undecided (the caller then has only its direct reading of the function)"""
    _ensure_sentinels(ctx.repo)
    try:
        return _walk(ctx, fi, force)
    except AnalysisError as e:
        ctx.note(f"path walk of {fi.qualname} undecided: {e}")
        return None


def _call_groups(ctx: Ctx, fi: FuncInfo, match, force=()):
    """
    {(id(call node), matched name): (call node, name, [one _Hit per path that executes it])} for the calls executed by fi or by the
    private helpers it steps into; match(chain of the expanded callee, expanded callee) -> name | None.  None when undecided.
    """
    w = _try_walk(ctx, fi, force)
    if w is None:
        return None
    out: dict = {}
    for h in w.hits:
        if h.kind != "call":
            continue
        for f in h.funcs():
            nm = match(chain(f), f)
            if nm:
                out.setdefault((id(h.orig), nm), (h.orig, nm, []))[2].append(h)
    return out


def _decide(ctx: Ctx, rule: str, fi: FuncInfo, node, direct_ok, hits, path_ok, desc: str, reason: str, facts=None, *,
            callers: bool = False) -> bool:
    """
    One site.  direct_ok: verdict of the reading of fi's own control-flow graph (None: the site is not written in fi itself).
    Otherwise every path of the walk that executes the site has to satisfy path_ok.  Undecided walk and no direct verdict: exit 2.
    callers=True: a site that is not guarded inside fi is still fine when fi is only ever entered through call sites that establish
    the guard (fi is stepped into from each of its callers, the tests passed in the caller count for the site).
    """
    at = ctx.repo.function_of(node) if getattr(node, "_parent", None) is not None else None
    at = at if isinstance(at, FuncInfo) else fi
    if direct_ok:
        return ctx.check(True, rule, at, node, desc, reason, facts)
    if hits is None:
        if direct_ok is None:
            raise AnalysisError(f"undecided: {rule}: `{norm(node)[:80]}` in {fi.qualname} could not be followed")
        return ctx.check(False, rule, at, node, desc, reason, facts)
    bad = [h for h in hits if not path_ok(h)]
    if hits and not bad:
        return ctx.check(True, rule, at, node, desc, reason, facts)
    if hits and callers and _guarded_by_callers(ctx, fi, hits[0].orig, path_ok):
        return ctx.check(True, rule, at, node, desc + " (established by every caller)", reason, facts)
    if bad:
        facts = [str(f) for f in bad[0].facts()] + [f"(path {bad[0].via()})"]
    return ctx.check(False, rule, at, node, desc, reason, facts)


def _guarded_by_callers(ctx: Ctx, fi: FuncInfo, orig, path_ok) -> bool:
    repo = ctx.repo
    sites = []
    for _m, caller, c in repo.callers_of_name(fi.name):
        if caller is None:
            return False
        if caller.node is fi.node:
            continue
        if not any(t.node is fi.node for t in repo.resolve_call(caller, c) if isinstance(t, FuncInfo)):
            if isinstance(c.func, ast.Attribute) and not (isinstance(c.func.value, ast.Name) and c.func.value.id == "self"):
                continue            # <other object>.name(...): resolved to something else or nothing
            if isinstance(c.func, ast.Name) and fi.cls is not None:
                continue            # a bare function of the same name, fi is a method
        sites.append((caller, c))
    for _m, user, a in repo.attribute_uses(fi.name):
        if isinstance(a.ctx, ast.Load) and not (isinstance(getattr(a, "_parent", None), ast.Call) and a._parent.func is a) \
                and isinstance(a.value, ast.Name) and a.value.id == "self":
            return False            # handed around as a callback: entered from places that cannot be enumerated
    if not sites or not fi.module.relpath.startswith(PKG) or any(not c.module.relpath.startswith(PKG) for c, _ in sites):
        return False
    if len(ctx.repo.dispatch(fi.cls, fi.name)) > 1 if fi.cls is not None else False:
        return False                # overridden: the callers may enter another implementation, and others may enter this one
    for caller in {c for c, _ in sites}:
        w = _try_walk(ctx, caller, force=(fi,))
        if w is None:
            return False
        hs = [h for h in w.hits if h.orig is orig]
        if not hs or not all(path_ok(h) for h in hs):
            return False
    return True


def rule_destroy(ctx: Ctx) -> None:
    repo = ctx.repo
    fi = repo.method("TunnelCommunity", "on_destroy", TC)
    from .c01 import classify_handler
    ctx.check(classify_handler(ctx, fi) == "authenticated", "destroy-authorised", fi, fi.node,
              "on_destroy is an authenticated handler (peer = verified signer)", "on_destroy is not behind a signature-verifying decorator")
    cfg = ctx.cfg(fi)
    params = fi.params()
    peer, payload = params[1], params[2]
    ctx.check(not local_defs(fi, peer), "destroy-authorised", fi, fi.node, "peer parameter not rebound", "on_destroy rebinds the authenticated peer")

    def is_cid(e) -> bool:
        return norm(resolve(fi, e)) == f"{payload}.circuit_id"

    def relay_get_of(e, inner_pred) -> bool:
        """
        Every value e can hold where it is dereferenced is self.relay_from_to.get(K) with inner_pred(K).
        All definitions of a local are followed (conditional expression or `x = None; if c: x = T.get(k)`); the None
        alternative is dropped because every use site dereferences e (`e.hop.peer` in a comparison that held,
        `e.circuit_id` as an evaluated argument), which raises on None before any removal can happen.
        """
        alts = [a for a in _alternatives(fi, e) if not (isinstance(a, ast.Constant) and a.value is None)]
        return bool(alts) and all(isinstance(a, ast.Call) and chain(a.func) == "self.relay_from_to.get" and len(a.args) == 1
                                  and not a.keywords and inner_pred(a.args[0]) for a in alts)

    removes = [c for c in calls(fi) if call_name(c) in ("remove_relay", "remove_exit_socket", "remove_circuit")]
    # the same question asked path by path: covers removals reached through a decision tag, a (table, remover) dispatch
    # sequence, a remover bound to a local, or a private helper that acts on the decision
    groups = _call_groups(ctx, fi, lambda ch, f: f.attr if isinstance(f, ast.Attribute) and f.attr in REMOVERS and chain(f.value) == "self" else None)
    sites: dict = {(id(c), call_name(c)): (c, call_name(c)) for c in removes}
    for k, (orig, nm, _hits) in (groups or {}).items():
        sites.setdefault(k, (orig, nm))
    examined = {(k, norm(arg(h.node(), 0, "circuit_id"))) for k, (_o, _n, hs) in (groups or {}).items() for h in hs} | \
        {(k, None) for k in sites if k not in (groups or {})}
    ctx.floor("destroy-authorised", max(len(sites), len({(k, t) for k, t in examined})), 4)
    direct: dict = {}
    for c in removes:
        facts = facts_at(cfg, c)
        target = strip_cast(arg(c, 0))
        kind = call_name(c)
        ok = False
        if kind == "remove_relay":
            # sender must be the neighbour on the side the destroy came from:
            # peer == relay_from_to.get(relay_from_to.get(cid).circuit_id).hop.peer
            for f in facts:
                if f.op == "eq" and f.pos:
                    sides = [f.left, f.right]
                    ps = [s for s in sides if chain(s) == peer]
                    es = [s for s in sides if isinstance(s, ast.Attribute) and s.attr == "peer" and isinstance(s.value, ast.Attribute) and s.value.attr == "hop"]
                    if ps and es:
                        entry = es[0].value.value
                        def inner(k):
                            k = resolve(fi, k)
                            return isinstance(k, ast.Attribute) and k.attr == "circuit_id" and relay_get_of(k.value, is_cid)
                        if relay_get_of(entry, inner):
                            ok = True
            # which id is removed: the destroyed id itself or the other direction of the same relay pair
            target = resolve(fi, target)
            t_ok = is_cid(target) or (isinstance(target, ast.Attribute) and target.attr == "circuit_id"
                                      and relay_get_of(target.value, is_cid))
            ok = ok and t_ok
        else:
            table = "self.exit_sockets" if kind == "remove_exit_socket" else "self.circuits"
            member = any(f.op == "in" and f.pos and is_cid(f.left) and chain(f.right) == table for f in facts)
            auth = False
            for f in facts:
                if f.op == "eq" and f.pos:
                    sides = [f.left, f.right]
                    ps = [s for s in sides if chain(s) == peer]
                    es = [s for s in sides if isinstance(s, ast.Attribute) and s.attr == "peer"
                          and isinstance(s.value, ast.Attribute) and s.value.attr == "hop"
                          and isinstance(s.value.value, ast.Subscript) and chain(s.value.value.value) == table
                          and is_cid(s.value.value.slice)]
                    if ps and es:
                        auth = True
            ok = member and auth and is_cid(target)
        direct[(id(c), kind)] = (ok, [str(f) for f in facts])

    RT = "self.relay_from_to"

    def x_cid(e) -> bool:
        return norm(strip_cast(e)) == f"{payload}.circuit_id"

    def x_first(e) -> bool:                     # relay_from_to[cid]: the route the destroyed id is relayed to
        return _entry_of(e, RT, x_cid)

    def x_pair_key(k) -> bool:                  # relay_from_to[cid].circuit_id
        return isinstance(k, ast.Attribute) and k.attr == "circuit_id" and x_first(k.value)

    def path_ok(h: _Hit, kind: str) -> bool:
        facts = h.facts()
        call = h.node()
        target = arg(call, 0, "circuit_id")
        if target is None:
            return False
        target = strip_cast(target)
        if kind == "remove_relay":
            auth = any(chain(a) == peer and _hop_field_of(b, "peer") is not None
                       and _entry_of(_hop_field_of(b, "peer"), RT, x_pair_key) for f in facts for a, b in _eq_sides(f))
            return auth and (x_cid(target) or x_pair_key(target))
        table = "self.exit_sockets" if kind == "remove_exit_socket" else "self.circuits"
        auth = any(chain(a) == peer and _hop_field_of(b, "peer") is not None
                   and _entry_of(_hop_field_of(b, "peer"), table, x_cid) for f in facts for a, b in _eq_sides(f))
        # `peer == T[cid].hop.peer` (or T.get(cid).hop.peer) was EVALUATED and held: the entry exists (KeyError / None.hop otherwise)
        return auth and x_cid(target)

    for key, (c, kind) in sites.items():
        d_ok, d_facts = direct.get(key, (None, None))
        hits = None if groups is None else groups.get(key, (None, None, []))[2]
        if kind == "remove_relay":
            why = "remove_relay must be dominated by peer == relay_from_to[relay_from_to[cid].circuit_id].hop.peer and remove cid or its paired id"
        else:
            table = "self.exit_sockets" if kind == "remove_exit_socket" else "self.circuits"
            why = f"{kind} must be dominated by cid in {table} and peer == {table}[cid].hop.peer"
        tgt = arg(c, 0, "circuit_id")
        _decide(ctx, "destroy-authorised", fi, c, d_ok, hits, lambda h, kind=kind: path_ok(h, kind),
                f"{kind}({norm(resolve(fi, strip_cast(tgt))) if tgt is not None else ''}) authorised by the adjacent peer of that entry",
                "a destroy message can remove a circuit/relay/exit entry without being signed by the adjacent node: " + why, d_facts)

    # passing the destroy on is acting on it: the next node sees a destroy signed by ITS adjacent node (us) and removes its entry, so a
    # forwarding call made by on_destroy itself needs the same authorisation as the removal of the relay pair (seeded C05-m15)
    fw_direct = [c for c in calls(fi) if call_name(c) in DESTROY_SENDERS]
    fw_groups = _call_groups(ctx, fi, lambda ch, f: f.attr if isinstance(f, ast.Attribute) and f.attr in DESTROY_SENDERS and chain(f.value) == "self" else None)
    fw_sites: dict = {(id(c), call_name(c)): c for c in fw_direct}
    for k, (orig, _nm, _hits) in (fw_groups or {}).items():
        fw_sites.setdefault(k, orig)

    def fw_ok(h: _Hit) -> bool:
        facts = h.facts()
        for tab in (RT, "self.exit_sockets", "self.circuits"):
            keyp = x_pair_key if tab == RT else x_cid
            if any(chain(a) == peer and _hop_field_of(b, "peer") is not None and _entry_of(_hop_field_of(b, "peer"), tab, keyp)
                   for f in facts for a, b in _eq_sides(f)):
                return True
        return False

    for key, c in fw_sites.items():
        hits = None if fw_groups is None else fw_groups.get(key, (None, None, []))[2]
        _decide(ctx, "destroy-authorised", fi, c, None if hits else False, hits or None, fw_ok,
                f"{key[1]}(...) issued by on_destroy is authorised by the adjacent peer of the entry",
                f"on_destroy passes the destroy on (`{norm(c)[:60]}`) on a path where the sender was not compared with the adjacent node of the entry: "
                "the relay re-issues ANY validly signed destroy naming one of its circuit ids under its own signature, and the next node - which "
                "correctly checks that the destroy comes from its adjacent node - removes its exit socket / circuit / relay pair")
    ctx.instance("destroy-authorised", fi.where, f"{len(fw_sites)} destroy-forwarding call(s) made by on_destroy itself, each behind the adjacency test")


DESTROY_SENDERS = ("destroy_relay", "destroy_circuit", "destroy_exit_socket", "send_destroy")


def _alternatives(fi: FuncInfo, e: ast.AST, depth: int = 4) -> list[ast.AST]:
    """All expressions a value may come from: every definition of a local (flow-insensitive), both arms of `a if c else b`."""
    e = strip_cast(e)
    if depth <= 0:
        return [e]
    if isinstance(e, ast.IfExp):
        return _alternatives(fi, e.body, depth - 1) + _alternatives(fi, e.orelse, depth - 1)
    if isinstance(e, ast.Name) and e.id not in fi.params():
        defs = local_defs(fi, e.id)
        if defs and all(v is not None and idx is None for _, v, idx in defs):
            return [a for _, v, _ in defs for a in _alternatives(fi, v, depth - 1)]
    return [e]


def _table_of(chain_str: str | None) -> str | None:
    if chain_str is None:
        return None
    for t, c in TABLES.items():
        if chain_str == c + "[]":
            return t
    for t, c in {"circuits": "self.circuits", "relay_from_to": "self.relays", "exit_sockets": "self.exit_sockets"}.items():
        if chain_str == c + "[]":
            return t
    return None


def _pairs_of(e) -> list | None:
    """[(key expr, value expr)] of a literal mapping / literal sequence of pairs, else None"""
    e = strip_cast(e)
    if isinstance(e, ast.Call) and isinstance(e.func, ast.Name) and e.func.id in ("dict", "list", "tuple") and len(e.args) == 1 and not e.keywords:
        e = strip_cast(e.args[0])
    if isinstance(e, ast.Dict):
        if any(k is None for k in e.keys):
            return None
        return list(zip(e.keys, e.values))
    if isinstance(e, (ast.List, ast.Tuple)):
        out = []
        for x in e.elts:
            x = strip_cast(x)
            if not (isinstance(x, (ast.Tuple, ast.List)) and len(x.elts) == 2 and not any(isinstance(y, ast.Starred) for y in x.elts)):
                return None
            out.append((x.elts[0], x.elts[1]))
        return out
    return None


def _store_forms(n) -> list:
    """
    The item stores `T[k] = v` that a call / augmented assignment on a routing table performs, each as a synthesised `T[k]` target (kept on
    the node, so the same object is handed out every time): T.update({k: v, ...}) / T.update([(k, v), ...]) store under every k in order,
    T.setdefault(k, v) and T.__setitem__(k, v) store under k (setdefault only when k is absent from T - still a store), T |= {k: v}.
    [] when n is no such store or its keys cannot be enumerated.
    """
    got = getattr(n, "_c05_stores", None)
    if got is not None:
        return got
    out: list = []
    recv = pairs = None
    if isinstance(n, ast.Call) and isinstance(n.func, ast.Attribute) and not n.keywords and not any(isinstance(a, ast.Starred) for a in n.args):
        recv = n.func.value
        if n.func.attr == "update" and len(n.args) == 1:
            pairs = _pairs_of(n.args[0])
        elif n.func.attr in ("setdefault", "__setitem__") and len(n.args) == 2:
            pairs = [(n.args[0], n.args[1])]
    elif isinstance(n, ast.AugAssign) and isinstance(n.op, ast.BitOr):
        recv, pairs = n.target, _pairs_of(n.value)
    if recv is not None and pairs and _table_of((chain(recv) or "") + "[]"):
        from ..model import clone
        for k, _v in pairs:
            base = clone(recv)
            for x in ast.walk(base):
                if hasattr(x, "ctx"):
                    x.ctx = ast.Load()
            t = ast.copy_location(ast.Subscript(value=base, slice=k, ctx=ast.Store()), n)
            out.append(t)
    try:
        n._c05_stores = out
    except AttributeError:
        pass
    return out


def _table_stores(fi: FuncInfo) -> list:
    """(statement, `T[k]` target) for every store into a routing table written in fi: item assignments and the forms of _store_forms"""
    out = []
    for st in walk_no_nested(fi.node):
        if isinstance(st, ast.Assign):
            out.extend((st, t) for t in st.targets if isinstance(t, ast.Subscript) and _table_of(chain(t)))
        elif isinstance(st, ast.AugAssign):
            out.extend((st, t) for t in _store_forms(st))
        elif isinstance(st, ast.Call):
            forms = _store_forms(st)
            if forms:
                try:
                    stmt = enclosing_stmt(st)
                except Exception:  # noqa: BLE001
                    stmt = st
                out.extend((stmt or st, t) for t in forms)
    return out


WIRE_PAYLOAD_PARAMS = ("payload", "create_payload")


def _wire_controlled(ctx: Ctx, fi: FuncInfo, key: ast.AST) -> tuple[bool, str]:
    """Is the key taken from a message field (rather than generated locally or read from our own table entry)?"""
    k = resolve(fi, key)
    txt = norm(k)
    if isinstance(k, ast.Call) and chain(k.func) == "self._generate_circuit_id":
        return False, "locally generated"
    base = k
    while isinstance(base, (ast.Attribute, ast.Subscript, ast.Call)):
        base = base.value if not isinstance(base, ast.Call) else base.func
    bname = base.id if isinstance(base, ast.Name) else None
    if bname in fi.params() and bname != "self":
        ann = next((p.annotation for p in fi.node.args.args if p.arg == bname), None)
        at = norm(ann) if ann is not None else ""
        if "Payload" in at:
            return True, f"field of message parameter {bname}: {at}"
        if at in ("int", "int | None") and bname == "circuit_id":
            # circuit id of the cell that carried the message: names an existing table entry (validated by lookup)
            return False, "cell circuit id"
    if isinstance(base, ast.Name):
        d = single_def(fi, base.id)
        if d is not None:
            src = norm(d[0])
            if "request_cache" in src:
                return False, "stored in our own request cache entry"
            if any(t in src for t in ("self.exit_sockets", "self.relay_from_to", "self.circuits", "self.rendezvous_point_for")):
                return False, "read from our own table entry"
    return False, f"not a message field ({txt})"


def rule_no_overwrite(ctx: Ctx) -> None:
    repo = ctx.repo
    n = 0
    writers = {}
    for fi in repo.all_functions():
        if not fi.module.relpath.startswith("ipv8/messaging/anonymization/"):
            continue
        for st, t in _table_stores(fi):
            if True:
                tab = _table_of(chain(t))
                n += 1
                writers.setdefault(fi.qualname, []).append(tab)
                wire, how = _wire_controlled(ctx, fi, t.slice)
                if not wire:
                    ctx.instance("no-overwrite-live-id", fi.where, f"{norm(t)} key: {how}", line=st.lineno)
                    continue
                cfg = ctx.cfg(fi)
                facts = facts_at(cfg, st)
                key_txt = norm(resolve(fi, t.slice))
                missing = []
                for tname, tchain in TABLES.items():
                    has = any(f.op == "in" and not f.pos and norm(resolve(fi, f.left)) == key_txt and chain(f.right) == tchain
                              for f in facts)
                    if not has:
                        missing.append(tname)
                w = _try_walk(ctx, fi) if missing else None
                hits = None if w is None else [h for h in w.hits if h.kind == "store" and h.orig is t]

                def path_ok(h: _Hit) -> bool:
                    # on this path the key (as stored) has been tested absent from every table: `k not in T`, `T.get(k) is None`,
                    # any()/all() over the tables, a union of the tables, a private helper returning the answer
                    key = norm(strip_cast(h.node().slice))
                    return all(any(_absent(f, tchain, lambda k: norm(k) == key) for f in h.facts()) for tchain in TABLES.values())

                _decide(ctx, "no-overwrite-live-id", fi, st, not missing, hits, path_ok,
                        f"store {norm(t)} with wire-controlled key is dominated by `key not in T` for all three tables",
                        f"a request naming circuit id `{key_txt}` ({how}) can replace a live entry: no dominating "
                        f"`not in` check for {missing} (a time-limited request-cache check does not protect a live entry)",
                        [str(f) for f in facts], callers=True)
    if n < 6:
        # one store statement may stand for several stores (a loop over a literal {id: route} mapping): count (statement, id stored under)
        seen = set()
        reviewed = {"TunnelCommunity.create_circuit", "TunnelCommunity.join_circuit", "TunnelCommunity.on_created", "HiddenTunnelCommunity.on_link_e2e"}
        helpers = tuple(f for f in _pkg_functions(repo) if f.qualname in writers and f.qualname not in reviewed)
        for fi in _pkg_functions(repo):
            if fi.qualname in reviewed:
                w = _try_walk(ctx, fi, force=helpers)
                for h in (w.hits if w is not None else []):
                    if h.kind == "store" and isinstance(h.orig, ast.Subscript) and _table_of(chain(h.orig)):
                        seen.add((id(h.orig), norm(h.node().slice)))
        n = max(n, len(seen))
    ctx.floor("no-overwrite-live-id", n, 6)
    ctx.extra["table_writers"] = writers
    # closed set of writers (a private helper used only by reviewed writers is part of them)
    allowed = {"TunnelCommunity.create_circuit", "TunnelCommunity.join_circuit", "TunnelCommunity.on_created",
               "HiddenTunnelCommunity.on_link_e2e"}

    def writer_ok(fi: FuncInfo | None, seen: frozenset = frozenset()) -> bool:
        if fi is None:
            return False
        if fi.qualname in allowed:
            return True
        users = _helper_users(repo, fi) if fi.qualname not in seen else None
        return bool(users) and all(writer_ok(u, seen | {fi.qualname}) for u in users)

    for w in writers:
        wf = next(f for f in repo.all_functions() if f.qualname == w)
        ctx.check(writer_ok(wf), "table-writers", wf.where, w, f"{w} is a reviewed writer of the routing tables",
                  f"{w} stores into a routing table but is not one of the reviewed writers {sorted(allowed)}")
    # pops / deletions
    for fi in repo.all_functions():
        if not fi.module.relpath.startswith("ipv8/messaging/anonymization/"):
            continue
        for c in calls(fi):
            ch = chain(c.func) or ""
            if call_name(c) in ("pop", "clear", "popitem", "update", "setdefault") and any(
                    ch.startswith(p + ".") for p in ("self.circuits", "self.relay_from_to", "self.exit_sockets", "self.relays")):
                ok = fi.qualname in ("TunnelCommunity.remove_circuit", "TunnelCommunity.remove_relay", "TunnelCommunity.remove_exit_socket")
                if not ok and _store_forms(c):
                    continue        # stores under enumerated keys: each of them was judged above as the item assignment it is
                ctx.check(ok, "table-writers", fi, c, f"{ch} in {fi.qualname}", "routing-table entry removed/rewritten outside remove_*")
        for st in walk_no_nested(fi.node):
            if isinstance(st, ast.Delete):
                for t in st.targets:
                    if _table_of(chain(t)):
                        ctx.check(False, "table-writers", fi, st, "no del on routing tables", "routing-table entry deleted outside remove_*")
    # create-window (weaker, holds today): join_circuit only when no pending CreatedRequestCache and flags set
    oc = repo.method("TunnelCommunity", "on_create", TC)
    cfg = ctx.cfg(oc)
    joins = calls(oc, "self.join_circuit")
    groups = _call_groups(ctx, oc, lambda ch, f: "join_circuit" if ch == "self.join_circuit" else None)
    sites = {(id(c), "join_circuit"): c for c in joins}
    for k, (orig, _nm, _h) in (groups or {}).items():
        sites.setdefault(k, orig)
    ctx.anchor(list(sites), "join_circuit call in on_create")

    def pending_cache_lookup(e, how: str) -> bool:
        e = strip_cast(e)
        return isinstance(e, ast.Call) and chain(e.func) == "self.request_cache." + how and len(e.args) >= 2 \
            and chain(e.args[0]) == "CreatedRequestCache" and norm(e.args[1]).endswith(".circuit_id")

    def path_ok(h: _Hit) -> bool:
        fs = h.facts()
        no_pending = any((f.op == "truthy" and not f.pos and (pending_cache_lookup(f.left, "has") or pending_cache_lookup(f.left, "get")))
                         or (f.op in ("is", "eq") and f.pos and _is_none(strip_cast(f.right)) and pending_cache_lookup(f.left, "get"))
                         for f in fs)
        flags = any(f.op == "truthy" and f.pos and chain(f.left) == "self.settings.peer_flags" for f in fs)
        return no_pending and flags

    for key, c in sites.items():
        d_ok = d_facts = None
        if any(c is j for j in joins):
            facts = facts_at(cfg, c)
            no_pending = any(f.op == "truthy" and not f.pos and isinstance(f.left, ast.Call) and chain(f.left.func) == "self.request_cache.has"
                             and chain(f.left.args[0]) == "CreatedRequestCache" and norm(f.left.args[1]).endswith(".circuit_id") for f in facts)
            flags = any(f.op == "truthy" and f.pos and chain(f.left) == "self.settings.peer_flags" for f in facts)
            d_ok, d_facts = no_pending and flags, [str(f) for f in facts]
        _decide(ctx, "create-window", oc, c, d_ok, None if groups is None else groups.get(key, (None, None, []))[2], path_ok,
                "join only without a pending created-cache for that id and with peer flags set",
                "a create for an id with a pending CreatedRequestCache (or with no peer flags) is joined", d_facts)
    # _generate_circuit_id retries while the id is in use
    g = repo.method("TunnelCommunity", "_generate_circuit_id", TC)
    loops = [w for w in walk_no_nested(g.node) if isinstance(w, ast.While)]
    ok = bool(loops) and isinstance(loops[0].test, ast.Compare) and isinstance(loops[0].test.ops[0], ast.In) \
        and chain(loops[0].test.comparators[0]) == "self.circuits"
    if not ok:
        # every way out of the function returns a value that was tested `not in self.circuits` last
        w = _try_walk(ctx, g)
        if w is None:
            raise AnalysisError("undecided: _generate_circuit_id could not be followed")
        rets = [(st, v) for kind, st, v in w.ends if kind == "return" and v is not None]

        def tested_free(st, v) -> bool:
            if any(_absent(fact_of(a, pol), "self.circuits", lambda k, v=v: norm(k) == norm(v)) for a, pol in st.conds):
                return True
            # the value is picked out of a stream of candidates by a test: next(c for c in <stream> if c not in self.circuits),
            # next(filter(<test>, <stream>)), next(filterfalse / dropwhile(<in self.circuits>, <stream>))
            sel = _selected(v, st.env)
            return sel is not None and any(_absent(fact_of(a, pol), "self.circuits", lambda k: norm(k) == sel[0]) for a, pol in sel[1])

        ok = bool(rets) and all(tested_free(st, v) for st, v in rets) and not any(kind == "next" for kind, _st, _v in w.ends)
    ctx.check(ok, "no-overwrite-live-id", g, g.node, "_generate_circuit_id loops while the id is in self.circuits",
              "locally generated circuit ids may collide with live circuits")


DELIVER = ("self.on_packet_from_circuit", "self.endpoint.notify_listeners", "self.on_raw_data")


def rule_data_origin(ctx: Ctx) -> None:
    repo = ctx.repo
    fi = repo.method("TunnelCommunity", "on_data", TC)
    cfg = ctx.cfg(fi)
    sock = fi.params()[1]
    deliver = [c for c in calls(fi) if chain(c.func) in DELIVER]
    groups = _call_groups(ctx, fi, lambda ch, f: ch if ch in DELIVER else None)
    sites = {(id(c), chain(c.func)): c for c in deliver}
    for k, (orig, _nm, _h) in (groups or {}).items():
        sites.setdefault(k, orig)
    ctx.floor("data-origin", len(sites), 3)

    def cell_cid(k) -> bool:
        return norm(k).endswith(".circuit_id")

    def path_ok(h: _Hit) -> bool:
        fs = h.facts()
        # the own circuit looked up by the cell's id exists ...
        known: set[str] = set()
        for f in fs:
            got: list[str] = []
            if _present(f, "self.circuits", lambda k, got=got: cell_cid(k) and (got.append(norm(k)) or True)):
                known.update(got)
        # ... the packet names an origin ...
        org = any(f.op == "truthy" and f.pos and (chain(strip_cast(f.left)) or "").endswith(".org_address") for f in fs)
        # ... and it was sent by that circuit's first hop
        nb = any(chain(a) == sock and _hop_field_of(b, "address") is not None
                 and _entry_of(_hop_field_of(b, "address"), "self.circuits", lambda k: norm(k) in known)
                 for f in fs for a, b in _eq_sides(f))
        return bool(known) and org and nb

    for key, c in sites.items():
        d_ok = d_facts = None
        if any(c is x for x in deliver):
            facts = facts_at(cfg, c)
            circ = any(f.op == "truthy" and f.pos and chain(f.left) == "circuit" for f in facts)
            org = any(f.op == "truthy" and f.pos and chain(f.left) == "origin" for f in facts)
            nb = any(f.op == "eq" and f.pos and {norm(f.left), norm(f.right)} == {sock, "circuit.hop.address"} for f in facts)
            d = single_def(fi, "circuit")
            src = d is not None and isinstance(strip_cast(d[0]), ast.Call) and chain(strip_cast(d[0]).func) == "self.circuits.get" \
                and norm(resolve(fi, strip_cast(d[0]).args[0])).endswith(".circuit_id")
            d_ok, d_facts = circ and org and nb and src, [str(f) for f in facts]
        _decide(ctx, "data-origin", fi, c, d_ok, None if groups is None else groups.get(key, (None, None, []))[2], path_ok,
                "delivery dominated by circuit and origin and sock_addr == circuit.hop.address (circuit looked up by the cell's id)",
                "tunnel data is delivered upward without checking that it came from the circuit's first hop", d_facts)
    # exit branch: exit_data returns for unknown ids
    ex = repo.method("TunnelCommunity", "exit_data", TC)
    cfgx = ctx.cfg(ex)
    cid = ex.params()[1]
    direct = [c for c in calls(ex) if call_name(c) in ("sendto", "enable")]
    groups = _call_groups(ctx, ex, lambda ch, f: f.attr if isinstance(f, ast.Attribute) and f.attr in ("sendto", "enable") else None)
    sites = {(id(c), call_name(c)): c for c in direct}
    for k, (orig, _nm, _h) in (groups or {}).items():
        sites.setdefault(k, orig)

    def is_cid(k) -> bool:
        return norm(k) == cid

    def exit_path_ok(h: _Hit) -> bool:
        # the socket that emits is the entry registered under the cell's circuit id, and that entry exists
        recv = h.funcs()[0].value if len(h.funcs()) == 1 and isinstance(h.funcs()[0], ast.Attribute) else None
        # (`self.exit_sockets[cid]` that was evaluated is an existing entry: an unknown id raises KeyError before anything is sent)
        return recv is not None and _entry_of(recv, "self.exit_sockets", is_cid) and \
            (isinstance(strip_cast(recv), ast.Subscript) or any(_present(f, "self.exit_sockets", is_cid) for f in h.facts()))

    for key, c in sites.items():
        d_ok = None
        if any(c is x for x in direct):
            facts = facts_at(cfgx, c)
            d_ok = any(f.op == "in" and f.pos and norm(f.left) == cid and chain(f.right) == "self.exit_sockets" for f in facts)
        _decide(ctx, "data-origin", ex, c, d_ok, None if groups is None else groups.get(key, (None, None, []))[2], exit_path_ok,
                "exit only for circuit ids present in exit_sockets", "data exits for an unknown circuit id")


def _cursor_read(repo, fb: FuncInfo, call):
    """
    `<K(args)>.m(margs)` (locals of fb already expanded) for a small class K of fb's module whose __init__ only stores its parameters and
    whose method m computes its result from the fields BEFORE it changes any of them: the expression m returns, written over fb's names
    (fields replaced by the constructor arguments, m's parameters by margs) - provided that call is the only state-changing use of the object
    in fb (so it sees the object as constructed).  None when that cannot be established.
    """
    from ..model import clone
    if not (isinstance(call, ast.Call) and isinstance(call.func, ast.Attribute) and isinstance(strip_cast(call.func.value), ast.Call)):
        return None
    ctor = strip_cast(call.func.value)
    k = repo.resolve_class_expr(fb.module, ctor.func)
    if k is None or k.module is not fb.module or [b for b in k.all_base_names() if b != "object"]:
        return None
    init, meth = k.methods.get("__init__"), k.methods.get(call.func.attr)
    if init is None or meth is None or meth.decorators or init.decorators:
        return None

    def body(f):
        b = list(f.node.body)
        return b[1:] if b and isinstance(b[0], ast.Expr) and isinstance(b[0].value, ast.Constant) and isinstance(b[0].value.value, str) else b

    def bind(f, c):
        a = f.node.args
        if a.vararg or a.kwarg or a.kwonlyargs or a.posonlyargs or any(isinstance(x, ast.Starred) for x in c.args) or any(kw.arg is None for kw in c.keywords):
            return None
        names = [x.arg for x in a.args][1:]
        out = dict(zip(names, c.args))
        if len(c.args) > len(names):
            return None
        for kw in c.keywords:
            if kw.arg not in names or kw.arg in out:
                return None
            out[kw.arg] = kw.value
        for nm, d in zip(reversed(names), reversed(a.defaults)):
            out.setdefault(nm, d)
        return out if set(out) == set(names) else None

    def self_stores(f) -> bool:
        return any(isinstance(x, ast.Attribute) and isinstance(x.ctx, (ast.Store, ast.Del)) for x in ast.walk(f.node)) or \
            any(isinstance(x, ast.Call) and isinstance(x.func, ast.Attribute) and chain(x.func.value) == "self" for x in ast.walk(f.node))

    cargs, margs = bind(init, ctor), bind(meth, call)
    if cargs is None or margs is None:
        return None
    fields = {}
    for st in body(init):
        if not (isinstance(st, ast.Assign) and len(st.targets) == 1 and isinstance(st.targets[0], ast.Attribute) and chain(st.targets[0].value) == "self"
                and isinstance(st.value, ast.Name) and st.value.id in cargs and st.targets[0].attr not in fields):
            return None
        fields[st.targets[0].attr] = cargs[st.value.id]
    # the object in fb: one local bound once to the constructor call, used only as the receiver of method calls, outside loops; this call is
    # the only one of them whose method changes the object
    holders = [n for n in {x.id for x in ast.walk(fb.node) if isinstance(x, ast.Name)} if (d := single_def(fb, n)) is not None and d[1] is None
               and isinstance(strip_cast(d[0]), ast.Call) and repo.resolve_class_expr(fb.module, strip_cast(d[0]).func) is k]
    if len(holders) != 1:
        return None
    changing = 0
    for x in walk_no_nested(fb.node):
        if isinstance(x, ast.Name) and x.id == holders[0] and isinstance(x.ctx, ast.Load):
            par = getattr(x, "_parent", None)
            use = getattr(par, "_parent", None)
            if not (isinstance(par, ast.Attribute) and isinstance(use, ast.Call) and use.func is par):
                return None
            m2 = k.methods.get(par.attr)
            if m2 is None or m2.decorators:
                return None
            from ..model import ancestors
            if self_stores(m2):
                changing += 1
                if par.attr != call.func.attr or any(isinstance(a, (ast.For, ast.AsyncFor, ast.While, ast.ListComp, ast.SetComp, ast.DictComp,
                                                                     ast.GeneratorExp, ast.Lambda)) for a in ancestors(x) if a is not fb.node):
                    return None
    if changing != 1 or any(isinstance(x, (ast.FunctionDef, ast.AsyncFunctionDef, ast.Lambda)) for x in ast.walk(fb.node) if x is not fb.node):
        return None
    # m: local assignments computed from the untouched fields, then the field updates, then `return <local / expression without self>`
    env: dict = {}
    stmts = body(meth)
    i = 0

    class Sub(ast.NodeTransformer):
        def __init__(self):
            self.ok = True

        def visit_Name(self, n):
            if n.id in env:
                return clone(env[n.id])
            if n.id in margs:
                return clone(margs[n.id])
            if n.id == "self":
                self.ok = False
            return n

        def visit_Attribute(self, n):
            if isinstance(n.value, ast.Name) and n.value.id == "self":
                if n.attr in fields and isinstance(n.ctx, ast.Load):
                    return clone(fields[n.attr])
                self.ok = False
                return n
            return self.generic_visit(n)

    def expand(e):
        sub = Sub()
        out = sub.visit(clone(e))
        return out if sub.ok and not any(isinstance(x, (ast.NamedExpr, ast.Lambda, ast.Await, ast.Yield)) for x in ast.walk(out)) else None

    while i < len(stmts) and isinstance(stmts[i], ast.Assign) and len(stmts[i].targets) == 1 and isinstance(stmts[i].targets[0], ast.Name):
        v = expand(stmts[i].value)
        if v is None or stmts[i].targets[0].id in margs:
            return None
        env[stmts[i].targets[0].id] = v
        i += 1
    while i < len(stmts) and isinstance(stmts[i], (ast.Assign, ast.AugAssign)):
        tg = stmts[i].targets if isinstance(stmts[i], ast.Assign) else [stmts[i].target]
        if not all(isinstance(t, ast.Attribute) and chain(t.value) == "self" for t in tg):
            return None
        i += 1
    if i != len(stmts) - 1 or not isinstance(stmts[i], ast.Return) or stmts[i].value is None:
        return None
    mutated = any(isinstance(x, (ast.Assign, ast.AugAssign)) and not isinstance((x.targets[0] if isinstance(x, ast.Assign) else x.target), ast.Name)
                  for x in stmts)
    if mutated and any(isinstance(x, ast.Name) and x.id == "self" for x in ast.walk(stmts[i].value)):
        return None
    # names of the method's module are names of fb's module (same module); locals of fb inside the constructor / call arguments were expanded
    return expand(stmts[i].value)


def rule_return_path(ctx: Ctx) -> None:
    repo = ctx.repo
    td = repo.method("TunnelExitSocket", "tunnel_data", "ipv8/messaging/anonymization/exit_socket.py")
    sd_direct = calls(td, "self.overlay.send_data")
    # (the call may be made through a local the bound method / a partial application of it was put in)
    sd_groups = _call_groups(ctx, td, lambda ch, f: "send_data" if ch == "self.overlay.send_data" else None) if not sd_direct else None
    sd = ctx.anchor(sd_direct or [orig for orig, _nm, _hs in (sd_groups or {}).values()], "send_data in TunnelExitSocket.tunnel_data")
    sd_fn = repo.method("TunnelCommunity", "send_data", TC)
    SD = sd_fn.params()[1:6]                # operands may be given by position or by the parameter's name

    def sd_arg(call, i):
        return arg(call, i, SD[i] if i < len(SD) else None)

    def bound(call) -> bool:
        if any(isinstance(a, ast.Starred) for a in call.args) or any(k.arg is None for k in call.keywords) or len(SD) != 5 \
                or any(sd_arg(call, i) is None for i in range(5)):
            return False
        return norm(strip_cast(sd_arg(call, 0))) == "self.hop.address" and norm(strip_cast(sd_arg(call, 1))) == "self.circuit_id" \
            and const_value(sd_arg(call, 2)) == ("0.0.0.0", 0) and chain(sd_arg(call, 3)) == td.params()[1] and chain(sd_arg(call, 4)) == td.params()[2]

    for c in sd:
        ok = bool(sd_direct) and bound(c)
        w = None if ok else _try_walk(ctx, td)
        _decide(ctx, "return-path-bound", td, c, ok if sd_direct else None, None if w is None else [h for h in w.hits if h.orig is c],
                lambda h: isinstance(h.node(), ast.Call) and bound(h.node()),
                "return traffic goes to the socket's own hop under its own circuit id, destination null, origin = outside source",
                "return traffic of an exit socket is not bound to that socket's own circuit/hop")
    # circuit_id / hop of an exit socket are set once in __init__ from the constructor arguments
    def part_of_relay_cell(f: FuncInfo | None, seen: frozenset = frozenset()) -> bool:
        """relay_cell, or a private helper that is only ever used by it (its re-labelling step moved out)"""
        if f is None:
            return False
        if f.qualname == "PythonCryptoEndpoint.relay_cell":
            return True
        users = _helper_users(repo, f) if f.qualname not in seen else None
        return bool(users) and all(part_of_relay_cell(u, seen | {f.qualname}) for u in users)

    for m, fi, a in repo.attribute_uses("circuit_id"):
        if isinstance(a.ctx, ast.Store) and fi is not None:
            base = chain(a.value)
            is_cell = base == "cell" or (base in fi.params() and "CellPayload" in norm(next(
                (p.annotation for p in fi.node.args.args if p.arg == base and p.annotation is not None), ast.Constant(value=""))))
            ok = (fi.name == "__init__" and base == "self") \
                or (is_cell and part_of_relay_cell(fi)) \
                or not fi.module.relpath.startswith("ipv8/messaging/anonymization/")
            ctx.check(ok, "return-path-bound", fi, enclosing_stmt(a), f"circuit_id assigned in {fi.qualname}",
                      "the circuit id of a routing object is reassigned after construction")
    unwrap = repo.method("CellPayload", "unwrap", "ipv8/messaging/anonymization/payload.py")
    packs = [c for c in calls(unwrap, "pack")]
    ok = len(packs) == 1 and len(packs[0].args) == 2 and const_value(packs[0].args[0]) == "!I" and norm(packs[0].args[1]) == "self.circuit_id"
    if not ok:
        # same thing per path: every 4-byte id packed into the re-ordered cell is the header's circuit id (locals expanded; the packing
        # may be spelled pack("!I", v), <Struct("!I")>.pack(v) with the Struct held in a module / class constant, or v.to_bytes(4, "big"))
        w = _try_walk(ctx, unwrap)

        def packed_id(h: _Hit):
            """the value packed as one big-endian unsigned 32-bit integer by this call, else None"""
            if h.kind != "call":
                return None
            n = h.node()
            sc = _struct_call(repo, h.fi, n)
            if sc is not None:
                op, fmt, rest, kw = sc
                ops = _fmt_operands(fmt)
                vals = rest[2:] if op == "pack_into" else rest
                if op not in ("pack", "pack_into") or ops is None or kw or any(isinstance(x, ast.Starred) for x in rest) or len(vals) != len(ops):
                    return None
                ids = [v for v, (code, _o, _s) in zip(vals, ops) if _is_uint32(code)]
                # (several 32-bit fields in one pack: each of them has to be the header's id)
                return ids[0] if ids and all(norm(strip_cast(x)) == norm(strip_cast(ids[0])) for x in ids) else \
                    (ast.Constant(value="<several different values>") if ids else None)
            if h.names() == ["to_bytes"] and isinstance(n.func, ast.Attribute):
                a = [_const_in(repo, h.fi.module, h.fi.cls, x) for x in n.args]
                k = {x.arg: _const_in(repo, h.fi.module, h.fi.cls, x.value) for x in n.keywords}
                length = a[0] if a else k.get("length", 1)
                order = a[1] if len(a) > 1 else k.get("byteorder", "big")
                if len(a) <= 2 and (length, order) == (4, "big") and k.get("signed", False) is False and set(k) <= {"length", "byteorder", "signed"} \
                        and not any(isinstance(x, ast.Starred) for x in n.args):
                    return n.func.value
            return None

        hs = [(h, packed_id(h)) for h in (w.hits if w is not None else [])]
        hs = [(h, v) for h, v in hs if v is not None]
        ok = bool(hs) and len({id(h.orig) for h, _v in hs}) == 1 and all(norm(strip_cast(v)) == "self.circuit_id" for _h, v in hs)
    ctx.check(ok, "return-path-bound", unwrap, unwrap.node, "unwrap re-injects the header's circuit id", "unwrap injects a circuit id other than the cell header's")
    fb = repo.method("CellPayload", "from_bin", "ipv8/messaging/anonymization/payload.py")
    rets = [r for r in walk_no_nested(fb.node) if isinstance(r, ast.Return)]
    ok = False
    if rets and isinstance(rets[0].value, ast.Call):
        a0 = rets[0].value.args[0] if rets[0].value.args else None
        d = single_def(fb, a0.id) if isinstance(a0, ast.Name) else None
        ok = d is not None and d[1] == 0 and isinstance(strip_cast(d[0]), ast.Call) and chain(strip_cast(d[0]).func) == "unpack_from"
    if not ok:
        # per path: every constructed cell gets, as its circuit id, field 0 of an unpack of the packet header
        w = _try_walk(ctx, fb)
        ends = [(st, v) for kind, st, v in (w.ends if w is not None else []) if kind == "return"]

        def header_field0(v) -> bool:
            v = strip_cast(v) if v is not None else None
            if not isinstance(v, ast.Call):
                return False
            cid = arg(v, 0, "circuit_id")
            cid = strip_cast(cid) if cid is not None else None
            if isinstance(cid, ast.Starred) or cid is None:
                return False

            def cv(x):
                return _const_in(repo, fb.module, fb.cls, x) if x is not None else NOCONST

            def header_bytes(b, size) -> bool:
                """b is packet[23:23+size]"""
                b = strip_cast(b)
                if isinstance(b, ast.Call) and isinstance(b.func, ast.Name) and b.func.id in ("bytes", "memoryview") and len(b.args) == 1 and not b.keywords:
                    b = strip_cast(b.args[0])
                if not (isinstance(b, ast.Subscript) and isinstance(b.slice, ast.Slice) and b.slice.step is None and packet_of(b.value)):
                    return False
                lo, hi = cv(b.slice.lower), cv(b.slice.upper)
                return lo == 23 and hi == 23 + size

            def packet_of(b) -> bool:
                b = strip_cast(b)
                if isinstance(b, ast.Call) and isinstance(b.func, ast.Name) and b.func.id == "memoryview" and len(b.args) == 1 and not b.keywords:
                    b = strip_cast(b.args[0])
                return isinstance(b, ast.Name) and b.id in fb.params()

            # int.from_bytes(packet[23:27], "big"): the same four bytes read without struct
            if isinstance(cid, ast.Call) and chain(cid.func) == "int.from_bytes" and cid.args and not isinstance(cid.args[0], ast.Starred):
                order = cv(cid.args[1]) if len(cid.args) > 1 else next((cv(k.value) for k in cid.keywords if k.arg == "byteorder"), "big")
                signed = next((cv(k.value) for k in cid.keywords if k.arg == "signed"), False)
                return len(cid.args) <= 2 and order == "big" and signed is False and header_bytes(cid.args[0], 4)
            if not (isinstance(cid, ast.Subscript) and isinstance(cv(cid.slice), int) and not isinstance(cv(cid.slice), bool)
                    and isinstance(strip_cast(cid.value), ast.Call)):
                return False
            # the header may be read through a private cursor object (`r = _Reader(packet, 23)`, `r.take("!I??")`): its first - and only -
            # advancing call reads at the offset the cursor was constructed with
            through = _cursor_read(repo, fb, strip_cast(cid.value))
            if through is not None:
                cid = ast.Subscript(value=through, slice=cid.slice, ctx=ast.Load())
            sc = _struct_call(repo, fb, strip_cast(cid.value))
            if sc is None:
                return False
            op, fmt, rest, kw = sc
            ops = _fmt_operands(fmt)
            idx = cv(cid.slice)
            if ops is None or any(isinstance(x, ast.Starred) for x in rest) or not -len(ops) <= idx < len(ops) or not _is_uint32(ops[idx][0]):
                return False
            code, field_off, _size = ops[idx]
            total = ops[-1][1] + ops[-1][2]
            # the id sits behind prefix (22) + message id (1), where to_bin() put it: the field read must start at byte 23 of the packet
            if op == "unpack_from":
                buf = rest[0] if rest else kw.get("buffer")
                off = rest[1] if len(rest) > 1 else kw.get("offset")
                start = cv(off) if off is not None else 0
                return len(rest) <= 2 and buf is not None and packet_of(buf) and isinstance(start, int) and start + field_off == 23
            if op == "unpack":
                if len(rest) != 1 or kw:
                    return False
                b = strip_cast(rest[0])
                if isinstance(b, ast.Call) and isinstance(b.func, ast.Name) and b.func.id in ("bytes", "memoryview") and len(b.args) == 1 and not b.keywords:
                    b = strip_cast(b.args[0])
                if not (isinstance(b, ast.Subscript) and isinstance(b.slice, ast.Slice) and b.slice.step is None and packet_of(b.value)):
                    return False
                lo = cv(b.slice.lower) if b.slice.lower is not None else 0
                hi = cv(b.slice.upper)
                # (unpack() accepts exactly `total` bytes: any other slice raises instead of yielding an id)
                return isinstance(lo, int) and lo >= 0 and lo + field_off == 23 and (hi == lo + total)
            return False
        ok = bool(ends) and all(header_field0(v) for _st, v in ends)
    ctx.check(ok, "return-path-bound", fb, fb.node, "cell circuit id is the first header field", "from_bin takes the circuit id from somewhere other than the cell header")
    # process_cell / routing use cell.circuit_id for all three lookups
    CR = "ipv8/messaging/anonymization/crypto.py"

    cell_params: set[str] = {"cell"}

    def cell_of(v) -> bool:                     # the received cell: decoded from the datagram, or the cell handed to the crypto step
        v = strip_cast(v)
        return (isinstance(v, ast.Name) and v.id in cell_params) or (isinstance(v, ast.Call) and (chain(v.func) or "").endswith("CellPayload.from_bin"))

    def cell_cid(k) -> bool:
        k = strip_cast(k)
        return isinstance(k, ast.Attribute) and k.attr == "circuit_id" and cell_of(k.value)

    def paired_cid(k) -> bool:                  # the id the cell's relay route forwards to
        k = strip_cast(k)
        return isinstance(k, ast.Attribute) and k.attr == "circuit_id" and _entry_of(k.value, "self.relays", cell_cid)

    def lookups(fn: FuncInfo, tables, direct_texts, path_key, desc, reason) -> None:
        cell_params.clear()
        cell_params.update(a.arg for a in fn.node.args.args if a.annotation is not None and "CellPayload" in norm(a.annotation))
        direct = [c for c in calls(fn) if chain(c.func) in tables]
        groups = _call_groups(ctx, fn, lambda ch, f: ch if ch in tables else None)
        sites = {(id(c), chain(c.func)): c for c in direct}
        for k, (orig, _nm, _h) in (groups or {}).items():
            sites.setdefault(k, orig)
        for key, c in sites.items():
            d_ok = None
            ktxt = norm(resolve(fn, c.args[0])) if c.args else "-"
            if any(c is x for x in direct):
                d_ok = ktxt in direct_texts
            _decide(ctx, "return-path-bound", fn, c, d_ok, None if groups is None else groups.get(key, (None, None, []))[2],
                    lambda h: bool(h.node().args) and path_key(h.node().args[0]), desc.format(k=ktxt), reason)

    pc = repo.method("PythonCryptoEndpoint", "process_cell", CR)
    lookups(pc, ("self.relays.get", "self.circuits.get"), ("cell.circuit_id", "next_relay.circuit_id"),
            lambda k: cell_cid(k) or paired_cid(k), "routing lookup keyed by {k}", "process_cell routes by something other than the cell's circuit id")
    for name in ("incoming_crypto", "outgoing_crypto"):
        f2 = repo.method("PythonCryptoEndpoint", name, CR)
        lookups(f2, ("self.relays.get", "self.circuits.get", "self.exit_sockets.get"), ("cell.circuit_id",), cell_cid,
                name + ": keys looked up by the cell's circuit id", f"{name} selects session keys by something other than the cell's circuit id")


def rule_authenticated_accounting(ctx: Ctx) -> None:
    """A cell changes the state of an originator circuit only after it was decrypted with that circuit's keys."""
    pc = ctx.repo.method("PythonCryptoEndpoint", "process_cell", "ipv8/messaging/anonymization/crypto.py")
    cfg = ctx.cfg(pc)
    reason = ("process_cell updates the circuit's activity/traffic counters (`{c}`) before the cell is authenticated: anyone who knows a circuit id can keep "
              "a dead circuit alive or push it over the traffic limit without holding its keys")
    direct: dict = {}
    for node in walk_no_nested(pc.node):
        tgt = None
        if isinstance(node, ast.Call) and call_name(node) == "beat_heart":
            tgt = node.func.value
        elif isinstance(node, ast.AugAssign) and isinstance(node.target, ast.Attribute) and node.target.attr in ("bytes_down", "bytes_up"):
            tgt = node.target.value
        if tgt is None or not isinstance(tgt, ast.Name):
            continue
        src = resolve(pc, tgt)
        if not (isinstance(src, ast.Call) and chain(src.func) == "self.circuits.get"):
            continue        # relay accounting: a relay cannot authenticate backward traffic (it only adds a layer)
        fs = facts_at(cfg, node)
        ok = any(f.op == "truthy" and f.pos and isinstance(f.left, ast.Call) and chain(f.left.func) == "self.incoming_crypto" for f in fs)
        direct[id(node if isinstance(node, ast.Call) else node.target)] = (node, ok, [str(f) for f in fs])
    # the same per path (accounting moved into a helper, circuit bound on several paths): state of an entry of self.circuits
    w = _try_walk(ctx, pc)
    paths: dict = {}
    for h in (w.hits if w is not None else []):
        if h.kind == "call" and len(h.funcs()) == 1 and isinstance(h.funcs()[0], ast.Attribute) and h.funcs()[0].attr == "beat_heart":
            owner = h.funcs()[0].value
        elif h.kind == "store" and isinstance(h.orig, ast.Attribute) and h.orig.attr in ("bytes_down", "bytes_up") \
                and isinstance(getattr(h.orig, "_parent", None), ast.AugAssign):
            owner = h.node().value
        else:
            continue
        if _entry_of(owner, "self.circuits", lambda k: True):
            paths.setdefault(id(h.orig), (h.orig, []))[1].append(h)

    def authenticated(h: _Hit) -> bool:
        def accepted(e) -> bool:
            e = strip_cast(e)
            return isinstance(e, ast.Call) and chain(e.func) == "self.incoming_crypto"
        return any((f.op == "truthy" and f.pos and accepted(f.left))
                   or (f.op in ("is", "eq") and not f.pos and f.right is not None and _is_none(strip_cast(f.right)) and accepted(f.left))
                   for f in h.facts())

    keys = list(dict.fromkeys([*direct, *paths]))
    for k in keys:
        node, d_ok, d_facts = direct.get(k, (None, None, None))
        if node is None:
            node = enclosing_stmt(paths[k][0]) if not isinstance(paths[k][0], ast.Call) else paths[k][0]
        _decide(ctx, "data-origin", pc, node, d_ok, None if w is None else paths.get(k, (None, []))[1], authenticated,
                f"`{norm(node)[:40]}` on an originator circuit happens only after incoming_crypto accepted the cell",
                reason.format(c=norm(node)[:40]), d_facts)
    ctx.floor("data-origin.accounting", len(keys), 2)
    # per-instance state of routing objects is created in __init__ (a class-level deque/list/dict would be shared by all circuits)
    ro = ctx.repo.cls("RoutingObject", "ipv8/messaging/anonymization/tunnel.py")
    for c in [ro, *ro.all_subclasses()]:
        for name, val in c.attrs.items():
            v = strip_cast(val)
            mutable = isinstance(v, (ast.List, ast.Dict, ast.Set)) or (isinstance(v, ast.Call) and chain(v.func) in ("deque", "list", "dict", "set", "defaultdict", "OrderedDict", "Counter"))
            ctx.check(not mutable, "return-path-bound", c.where, f"{c.name}.{name}", f"{c.name}.{name} is not a shared mutable class attribute",
                      f"{c.name}.{name} is a class-level mutable container ({norm(v)}): it is ONE object shared by every {c.name}, so data queued for one circuit is flushed "
                      "through another circuit's socket")


PKG = "ipv8/messaging/anonymization/"
REMOVERS = ("remove_circuit", "remove_relay", "remove_exit_socket")
# Reviewed call sites of remove_*: local API / timers / unload (not driven by a cell), and the cell handlers whose
# removal is tied to the entry the cell itself belongs to.
REMOVE_CALLERS = {
    "TunnelEndpoint.speed_test_new_circuit": "REST: removes the circuit it created itself",
    "IPRequestCache.on_timeout": "timer: our own pending circuit",
    "RPRequestCache.on_timeout": "timer: our own pending circuit",
    "RetryRequestCache.on_timeout": "timer: our own pending circuit",
    "TunnelCommunity.unload": "shutdown",
    "TunnelCommunity.do_remove": "periodic maintenance (inactive / old / over the traffic limit)",
    "TunnelCommunity.send_extend": "our own circuit that cannot be extended",
    "TunnelCommunity._ours_on_created_extended": "our own circuit, malformed handshake reply matched by request identifier",
    "TunnelCommunity.on_created": "exit entry of the request's own circuit is converted into a relay pair",
    "TunnelCommunity.on_destroy": "checked by destroy-authorised",
    "HiddenTunnelCommunity.leave_swarm": "local API",
    "HiddenTunnelCommunity.on_link_e2e": "the two exit entries being linked, both looked up from the cell / cookie",
}
# reviewed private helpers: when one has been inlined (no longer exists) its reviewed callers inherit the permission
REMOVE_HELPER_CALLERS = {
    "TunnelCommunity._ours_on_created_extended": ("TunnelCommunity.on_created", "TunnelCommunity.on_extended"),
    "TunnelCommunity.do_remove": ("TunnelCommunity.do_circuits",),
}


def _pkg_functions(repo):
    return [fi for fi in repo.all_functions() if fi.module.relpath.startswith(PKG)]


def _callers_within(repo, fi: FuncInfo) -> list[FuncInfo | None]:
    """Functions that call (or reference as a callback) fi by name; None for a module-level / unknown site."""
    out = []
    for _m, caller, _c in repo.callers_of_name(fi.name):
        out.append(caller)
    for _m, user, a in repo.attribute_uses(fi.name):
        if isinstance(a.ctx, ast.Load) and not (isinstance(getattr(a, "_parent", None), ast.Call) and a._parent.func is a):
            out.append(user)        # passed around as a value (callback): caller unknown -> the using function stands for it
    return out


def _class_users(repo, ci) -> list:
    """
    The functions in whose body class ci is referred to by name (instantiated, handed on); None stands for a use outside any function or
    from a module that imports it under another name.  Annotations do not count: they create nothing.
    """
    from ..model import ancestors
    out: list = []
    for m in repo.modules.values():
        if m is not ci.module:
            imp = [k for k, v in m.imports.items() if v[1] == ci.name and repo.modules.get(v[0]) is ci.module]
            if not imp:
                continue
            if imp != [ci.name]:
                out.append(None)
                continue
        for n in ast.walk(m.tree):
            if not (isinstance(n, ast.Name) and n.id == ci.name and isinstance(n.ctx, ast.Load)):
                continue
            child, annotation = n, False
            for a in ancestors(n):
                if isinstance(a, ast.arg) or (isinstance(a, (ast.FunctionDef, ast.AsyncFunctionDef)) and child is a.returns) \
                        or (isinstance(a, ast.AnnAssign) and child is a.annotation):
                    annotation = True
                    break
                child = a
            if annotation:
                continue
            out.append(repo.function_of(n))
    return out


def _helper_users(repo, fi: FuncInfo) -> list | None:
    """
    Who can run fi, when fi is a helper that exists only for the functions using it: the callers (by name) of a private function / method,
    or - for a method of a private helper class (a callable object standing in for a closure, a small strategy / result object) - the
    functions that refer to the class plus the callers of the method's name.  None: fi is not such a helper.
    """
    ci = fi.cls
    if ci is not None and ci.name.startswith("_") and not ci.name.startswith("__") and ci.module.relpath.startswith(PKG) \
            and all(_last(b) in ("NamedTuple", "Enum", "object") for b in ci.base_names) and not ci.subclasses and fi.name != "__init__":
        users = _class_users(repo, ci)
        if not (fi.name.startswith("__") and fi.name.endswith("__")):
            users = users + _callers_within(repo, fi)
        return [u for u in users if u is None or u.cls is not ci] or [None]
    from ..model import enclosing_function
    outer = enclosing_function(fi.node)
    if outer is not None:
        # the wrapper a private decorator of the package returns runs exactly where a function decorated with it is entered
        top = outer
        while enclosing_function(top) is not None:
            top = enclosing_function(top)
        df = getattr(top, "_info", None)
        if isinstance(df, FuncInfo) and df.cls is None and df.name.startswith("_") and not df.name.startswith("__") and df.module.relpath.startswith(PKG):
            users = [g for g in _pkg_functions(repo) if any(w.node is fi.node for w, _f, _c in _decorator_layers(repo, g))]
            other = [g for g in repo.all_functions() if g.node is not top and any(
                isinstance(n, ast.Name) and n.id == df.name and isinstance(n.ctx, ast.Load) for d in g.node.decorator_list for n in ast.walk(d))]
            uses = sum(1 for m in repo.modules.values() for n in ast.walk(m.tree) if isinstance(n, (ast.Name, ast.Attribute))
                       and (n.id if isinstance(n, ast.Name) else n.attr) == df.name and isinstance(n.ctx, ast.Load))
            # every mention of the decorator is one of the modelled decorations (it is not called or handed around in any other way)
            if users and len(other) == len(users) and uses == len(users):
                return users
    if not fi.name.startswith("_") or fi.name.startswith("__"):
        return None
    return _callers_within(repo, fi)


def rule_removers(ctx: Ctx) -> None:
    """Closed set of functions that may call remove_circuit / remove_relay / remove_exit_socket."""
    repo = ctx.repo
    allowed = set(REMOVE_CALLERS)
    existing = {fi.qualname for fi in repo.all_functions()}
    for helper, callers in REMOVE_HELPER_CALLERS.items():
        if helper not in existing:
            allowed.update(callers)
    by_q: dict[str, list[FuncInfo]] = {}
    for fi in repo.all_functions():
        by_q.setdefault(fi.qualname, []).append(fi)

    def permitted(fi: FuncInfo | None, seen: frozenset = frozenset()) -> bool:
        if fi is None:
            return False
        q = fi.qualname
        if q in allowed:
            return True
        if fi.name in REMOVERS and any(isinstance(n, ast.Call) and isinstance(n.func, ast.Attribute) and n.func.attr == fi.name
                                       and isinstance(n.func.value, ast.Call) and chain(n.func.value.func) == "super"
                                       for n in walk_no_nested(fi.node)):
            return True             # override that delegates to super().remove_*: same operation
        # a private helper (function, or method of a private helper class) every use of which lies in a permitted function
        users = _helper_users(repo, fi) if q not in seen else None
        return bool(users) and all(permitted(u, seen | {q}) for u in users)

    n = 0
    for name in REMOVERS:
        for _m, fi, c in repo.callers_of_name(name):
            n += 1
            where = fi if fi is not None else _m.relpath
            ctx.check(permitted(fi), "table-removers", where, c,
                      f"{name} called from reviewed function {fi.qualname if fi else '<module>'}",
                      f"{fi.qualname if fi else 'module-level code'} calls {name} but is not one of the reviewed places that may "
                      f"remove a circuit/relay/exit entry: an entry disappears for a reason other than an authorised destroy, "
                      f"its own timers/limits, or an action of its owner")
    ctx.floor("table-removers", n, 20)

    # opening a circuit changes nothing about existing circuits: nothing reachable from on_create removes an entry
    tc = repo.cls("TunnelCommunity", TC)
    starts = []
    for c in [tc, *tc.all_subclasses()]:
        m = c.methods.get("on_create")
        if m is not None:
            starts.append(m)
    ctx.anchor(starts, "TunnelCommunity.on_create")
    seen: dict[int, tuple[FuncInfo, FuncInfo | None]] = {}
    todo: list[tuple[FuncInfo, FuncInfo | None]] = [(s, None) for s in starts]
    while todo:
        fi, par = todo.pop()
        if id(fi.node) in seen:
            continue
        seen[id(fi.node)] = (fi, par)
        for c in calls(fi, nested=True):
            for t in repo.resolve_call(fi, c):
                if isinstance(t, FuncInfo) and t.module.relpath.startswith(PKG) and t.name not in REMOVERS:
                    todo.append((t, fi))
    reached = {fi.qualname for fi, _ in seen.values()}
    ctx.check({"TunnelCommunity.should_join_circuit", "TunnelCommunity.join_circuit"} <= reached or len(reached) >= 3,
              "create-changes-nothing", starts[0], starts[0].node, "call graph below on_create resolved (admission test and join reached)",
              "undecided: the calls made by on_create could not be resolved")
    for fi, par in seen.values():
        path = [fi.qualname]
        p = par
        while p is not None and len(path) < 8:
            path.append(p.qualname)
            p = seen[id(p.node)][1]
        via = " <- ".join(path)
        bad = [c for c in calls(fi, nested=True) if call_name(c) in REMOVERS]
        for c in calls(fi, nested=True):
            ch = chain(c.func) or ""
            if call_name(c) in ("pop", "clear", "popitem") and any(ch.startswith(p + ".") for p in (*TABLES.values(), "self.relays")):
                bad.append(c)
        for st in ast.walk(fi.node):
            if isinstance(st, ast.Delete) and any(_table_of(chain(t)) for t in st.targets):
                bad.append(st)
        ctx.check(not bad, "create-changes-nothing", fi, bad[0] if bad else fi.node,
                  f"{fi.qualname} (reached from on_create) removes no circuit/relay/exit entry",
                  f"handling a CREATE cell - plaintext, for a circuit id nobody holds keys for - removes an existing entry "
                  f"(`{norm(bad[0])[:70] if bad else ''}`, reached via {via}): a third party can tear down other peers' circuits by asking to open new ones")


def _builtin_exc_ancestors(names) -> set[str]:
    import builtins
    out = set()
    for n in names:
        k = getattr(builtins, n, None)
        if isinstance(k, type) and issubclass(k, BaseException):
            out.update(b.__name__ for b in k.__mro__ if b is not object)
    return out


def _context_manager_parts(repo, fi: FuncInfo, expr):
    """
    What runs when the body of `with <expr>:` inside fi raises, for a context manager defined in the repository:
    a list of (kind, owner FuncInfo, node, type text, may_swallow) with kind "exit" (the whole __exit__/__aexit__ method), "handler"
    (an except handler around the yield of a @contextmanager generator) or "finally" (a finally around the yield).  None when the
    expression does not denote a context manager of the repository (library managers other than suppress do not swallow).
    """
    from ..model import ClassInfo
    e = strip_cast(resolve(fi, expr))
    if isinstance(e, ast.Name) and e.id == "self" and fi.cls is not None:
        ci = fi.cls
    else:
        if not isinstance(e, ast.Call):
            return None
        ci = repo.resolve_class_expr(fi.module, e.func)
    out = []
    if isinstance(ci, ClassInfo):
        ex = [m for m in (ci.lookup("__exit__"), ci.lookup("__aexit__")) if m is not None]
        if not ex:
            return None
        for m in ex:
            sw = any(isinstance(r, ast.Return) and r.value is not None and const_value(r.value) not in (False, None, 0)
                     for r in walk_no_nested(m.node))
            out.append(("exit", m, m.node, "", sw))
        return out
    try:
        targets = [t for t in repo.resolve_call(fi, e) if isinstance(t, FuncInfo)]
    except Exception:  # noqa: BLE001
        targets = []
    gens = [t for t in targets if any((d or "").rsplit(".", 1)[-1] in ("contextmanager", "asynccontextmanager") for d in t.decorator_names())]
    if not gens:
        return None
    for g in gens:
        found = False
        for t in [x for x in walk_no_nested(g.node) if isinstance(x, ast.Try)]:
            if not any(isinstance(y, (ast.Yield, ast.YieldFrom)) for s in t.body for y in walk_no_nested(s)):
                continue
            found = True
            for h in t.handlers:
                sw = not any(isinstance(x, ast.Raise) for x in walk_no_nested(h))
                out.append(("handler", g, h, norm(h.type) if h.type is not None else "", sw))
            if t.finalbody:
                holder = ast.Module(body=list(t.finalbody), type_ignores=[])
                if any(call_name(c) for s in t.finalbody for c in calls(s, nested=True)):
                    out.append(("finally", g, holder, "", False))
        if not found:
            out.append(("finally", g, ast.Module(body=[], type_ignores=[]), "", False))     # plain generator: the failure propagates
    return out


def rule_auth_failure_inert(ctx: Ctx) -> None:
    """
    A cell that fails authentication (CryptoException: wrong handshake authenticator, undecryptable cell) must be
    dropped without touching the tables: no except-handler that can receive a CryptoException leads to remove_*.
    """
    repo = ctx.repo
    ce = repo.cls("CryptoException", "ipv8/messaging/anonymization/crypto.py")
    caught_names = {c.name for c in ce.mro()} | set(ce.all_base_names())
    caught_names |= _builtin_exc_ancestors(caught_names)
    caught_names |= {"Exception", "BaseException"}      # every exception class is caught by these

    def catches_ce(h: ast.ExceptHandler) -> bool:
        if h.type is None:
            return True
        for e in (h.type.elts if isinstance(h.type, ast.Tuple) else [h.type]):
            c = chain(e)
            if c is None:
                return True             # computed exception class: assume it may match
            if c.rsplit(".", 1)[-1] in caught_names:
                return True
        return False

    def swallowed(fi: FuncInfo, node: ast.AST) -> bool:
        """node lies in the body of a try (inside fi) one of whose handlers catches CryptoException and does not re-raise."""
        from ..model import ancestors
        child = node
        for a in ancestors(node):
            if a is fi.node:
                break
            if isinstance(a, ast.Try) and any(child is s for s in a.body):
                hs = [h for h in a.handlers if catches_ce(h)]
                if hs and not any(isinstance(x, ast.Raise) for x in walk_no_nested(hs[0])):
                    return True
            child = a
        return False

    def raises_ce_directly(fi: FuncInfo, r: ast.Raise) -> bool:
        e = r.exc
        if isinstance(e, ast.Call):
            e = e.func
        c = chain(e) if e is not None else None
        return c is not None and c.rsplit(".", 1)[-1] in {k.name for k in [ce, *ce.all_subclasses()]}

    funcs = _pkg_functions(repo)
    raisers: set[str] = set()           # names of functions out of which a CryptoException may propagate
    changed = True
    while changed:
        changed = False
        for fi in funcs:
            if fi.name in raisers:
                continue
            hit = False
            for n in walk_no_nested(fi.node):
                if isinstance(n, ast.Raise) and raises_ce_directly(fi, n) and not swallowed(fi, n):
                    hit = True
                elif isinstance(n, ast.Call) and call_name(n) in raisers and not swallowed(fi, n):
                    hit = True
                if hit:
                    break
            if hit:
                raisers.add(fi.name)
                changed = True
    ctx.anchor("verify_and_generate_shared_secret" in raisers, "verify_and_generate_shared_secret raises CryptoException on a wrong authenticator")

    n = 0
    for fi in funcs:
        tries = [t for t in walk_no_nested(fi.node) if isinstance(t, ast.Try) and t.handlers]
        removals = [c for c in calls(fi) if call_name(c) in REMOVERS]
        # `with suppress(E): body` is `try: body / except E: pass`: the failure is swallowed and the code behind the statement runs
        for wn in [x for x in walk_no_nested(fi.node) if isinstance(x, ast.With) and len(x.items) == 1 and isinstance(x.items[0].context_expr, ast.Call)]:
            sup = wn.items[0].context_expr
            if _lib_name(sup.func, {_FI: fi}, "contextlib") != "suppress" or not sup.args or sup.keywords or any(isinstance(a, ast.Starred) for a in sup.args):
                continue
            body_nodes = [x for s_ in wn.body for x in walk_no_nested(s_)]
            src = [x for x in body_nodes if (isinstance(x, ast.Call) and call_name(x) in raisers)
                   or (isinstance(x, ast.Raise) and raises_ce_directly(fi, x))]
            if not src:
                continue
            n += 1
            typ = sup.args[0] if len(sup.args) == 1 else ast.Tuple(elts=list(sup.args), ctx=ast.Load())
            if not catches_ce(ast.ExceptHandler(type=typ, name=None, body=[])):
                ctx.instance("auth-failure-inert", fi.where, f"`suppress({norm(typ)})` around `{norm(src[0])[:50]}` cannot receive CryptoException", line=wn.lineno)
                continue
            hidden = [c for c in calls(fi) if call_name(c) not in REMOVERS and any(
                isinstance(tgt, FuncInfo) and tgt.module.relpath.startswith(PKG) and tgt.name not in REMOVERS
                and any(call_name(k) in REMOVERS for k in calls(tgt, nested=True)) for tgt in repo.resolve_call(fi, c))]
            if removals or hidden:
                # which of them run only after a swallowed failure is a question about paths this rule has no graph for
                raise AnalysisError(f"undecided: auth-failure-inert: {fi.qualname} swallows CryptoException with suppress() and also removes routing entries")
            ctx.instance("auth-failure-inert", fi.where, f"`suppress({norm(typ)})` around `{norm(src[0])[:50]}`: the function removes no entry", line=wn.lineno)
        # `with <private context manager>: body` - a paired step written as a class with __exit__ or as a @contextmanager generator -
        # is `try: body / except ...: <what __exit__ / the generator's handler around the yield does>`
        for wn in [x for x in walk_no_nested(fi.node) if isinstance(x, (ast.With, ast.AsyncWith))]:
            body_nodes = [x for s_ in wn.body for x in walk_no_nested(s_)]
            src = [x for x in body_nodes if (isinstance(x, ast.Call) and call_name(x) in raisers)
                   or (isinstance(x, ast.Raise) and raises_ce_directly(fi, x))]
            if not src:
                continue
            for item in wn.items:
                parts = _context_manager_parts(repo, fi, item.context_expr)
                if parts is None:
                    continue
                for kind, owner, hnode, htype, may_swallow in parts:
                    n += 1
                    label = f"`with {norm(item.context_expr)[:50]}` ({kind} of {owner.qualname})"
                    if kind == "handler" and hnode.type is not None:
                        # an exception class handed in as an argument of the manager: the handler catches what this use passes
                        cm_call = strip_cast(resolve(fi, item.context_expr))
                        elts, bound_elts, unknown = (hnode.type.elts if isinstance(hnode.type, ast.Tuple) else [hnode.type]), [], False
                        for el in elts:
                            if isinstance(el, ast.Name) and el.id in owner.params():
                                b = arg(cm_call, owner.params().index(el.id) - (1 if owner.cls is not None else 0), el.id) \
                                    if isinstance(cm_call, ast.Call) else None
                                unknown = unknown or b is None or isinstance(b, ast.Starred)
                                bound_elts.append(b)
                            else:
                                bound_elts.append(el)
                        eff = ast.ExceptHandler(type=None if unknown else ast.Tuple(elts=bound_elts, ctx=ast.Load()), name=None, body=[])
                        if not catches_ce(eff):
                            ctx.instance("auth-failure-inert", fi.where, f"{label}: `{norm(eff.type)}` handler around the yield cannot receive "
                                         "CryptoException", line=wn.lineno)
                            continue
                    inside = [c for c in calls(hnode, nested=True) if call_name(c) in REMOVERS] if kind == "handler" else \
                        [c for c in calls(owner, nested=True) if call_name(c) in REMOVERS]
                    deeper = [c for c in (calls(hnode, nested=True) if kind == "handler" else calls(owner, nested=True))
                              if call_name(c) not in REMOVERS and any(
                                  isinstance(tgt, FuncInfo) and tgt.module.relpath.startswith(PKG) and tgt.name not in REMOVERS
                                  and any(call_name(k) in REMOVERS for k in calls(tgt, nested=True)) for tgt in repo.resolve_call(owner, c))]
                    if (inside or deeper) and kind != "handler":
                        # __exit__ / a finally around the yield also runs when the block completed: which of its calls belong to the failure is
                        # a question about its own paths
                        raise AnalysisError(f"undecided: auth-failure-inert: {owner.qualname} (context manager used in {fi.qualname} around "
                                            f"`{norm(src[0])[:40]}`) removes routing entries")
                    if inside or deeper:
                        ctx.violation("auth-failure-inert", owner, (inside or deeper)[0],
                                      f"`except {htype}` around the yield of context manager {owner.qualname}, which {fi.qualname} puts around "
                                      f"`{norm(src[0])[:60]}`, also receives CryptoException and removes a circuit/relay/exit entry: a cell that FAILS "
                                      f"authentication tears the entry down instead of being dropped")
                        ctx.instance("auth-failure-inert", fi.where, f"{label} removes no entry", ok=False, line=wn.lineno)
                        continue
                    if may_swallow:
                        hidden = [c for c in calls(fi) if call_name(c) not in REMOVERS and any(
                            isinstance(tgt, FuncInfo) and tgt.module.relpath.startswith(PKG) and tgt.name not in REMOVERS
                            and any(call_name(k) in REMOVERS for k in calls(tgt, nested=True)) for tgt in repo.resolve_call(fi, c))]
                        if removals or hidden:
                            raise AnalysisError(f"undecided: auth-failure-inert: {fi.qualname} swallows CryptoException with a context manager "
                                                f"({owner.qualname}) and also removes routing entries")
                    ctx.instance("auth-failure-inert", fi.where, f"{label} that can receive CryptoException removes no entry"
                                 + ("; the function removes no entry either" if may_swallow else "; the failure propagates"), line=wn.lineno)
        if not tries:
            continue
        for t in tries:
            body_nodes = [x for s in t.body for x in walk_no_nested(s)]
            src = [x for x in body_nodes if (isinstance(x, ast.Call) and call_name(x) in raisers)
                   or (isinstance(x, ast.Raise) and raises_ce_directly(fi, x))]
            if not src:
                continue
            cfg = ctx.cfg(fi)
            for h in t.handlers:
                if not catches_ce(h):
                    ctx.instance("auth-failure-inert", fi.where, f"`{norm(h.type)}` handler around `{norm(src[0])[:50]}` cannot receive CryptoException",
                                 line=h.lineno)
                    n += 1
                    continue
                n += 1
                hn = [x for x in cfg.by_ast.get(id(h), []) if x.kind == "handler"]
                without = cfg.reach(cut_nodes=hn)
                everything = cfg.reach()
                only_via = [c for c in removals
                            if any(x in everything and x not in without for x in cfg.nodes_for(c))]
                # removal hidden in a callee invoked only from the handler
                for c in calls(fi):
                    if call_name(c) in REMOVERS or not any(x in everything and x not in without for x in cfg.nodes_for(c)):
                        continue
                    for tgt in repo.resolve_call(fi, c):
                        if isinstance(tgt, FuncInfo) and tgt.module.relpath.startswith(PKG) and tgt.name not in REMOVERS \
                                and any(call_name(k) in REMOVERS for k in calls(tgt, nested=True)):
                            only_via.append(c)
                ctx.check(not only_via, "auth-failure-inert", fi, only_via[0] if only_via else h,
                          f"handler `except {norm(h.type) if h.type is not None else ''}` that can receive CryptoException removes no entry",
                          f"`except {norm(h.type) if h.type is not None else ''}` around `{norm(src[0])[:60]}` also receives CryptoException "
                          f"(bases of CryptoException: {sorted(caught_names - {'BaseException'})}) and its handler removes a circuit/relay/exit entry: "
                          f"a cell that FAILS authentication (bogus handshake authenticator / undecryptable cell, no keys needed) tears the entry down "
                          f"instead of being dropped")
    ctx.floor("auth-failure-inert", n, 3)


def rule_unkeyed_circuit(ctx: Ctx) -> None:
    """A circuit that has no verified hop yet has no keys: `decrypt_cell(cell, BACKWARD, *circuit.hops)` over zero hops returns
    the cell unchanged, so a non-plaintext cell would be accepted without any key (defect fixed by 3cadd29)."""
    ic = ctx.repo.method("PythonCryptoEndpoint", "incoming_crypto", "ipv8/messaging/anonymization/crypto.py")
    cfg = ctx.cfg(ic)

    def preds(res):
        """the three kinds of facts that contradict `own circuit exists, has no hop, cell is not plaintext`; res resolves a local"""
        def hops_of_own_circuit(e) -> bool:
            e = res(e)
            while isinstance(e, ast.Call) and isinstance(e.func, ast.Name) and e.func.id in ("tuple", "list") and len(e.args) == 1 and not e.keywords:
                e = res(e.args[0])              # a copy of the hop sequence has the same length and elements
            if not (isinstance(e, ast.Attribute) and e.attr in ("hops", "_hops")):
                return False
            base = res(e.value)
            return isinstance(base, ast.Call) and chain(base.func) in ("self.circuits.get",) or \
                (isinstance(base, ast.Subscript) and chain(base.value) == "self.circuits")

        def is_len(x):
            x = res(x)
            return isinstance(x, ast.Call) and call_name(x) == "len" and x.args and hops_of_own_circuit(x.args[0])

        def nonempty_fact(f) -> bool:
            if f.op == "truthy" and f.pos:
                return hops_of_own_circuit(f.left) or bool(is_len(f.left))
            if f.op == "lt" and f.pos and const_value(f.left) == 0 and is_len(f.right):
                return True                                   # 0 < len(hops)
            if f.op == "lt" and not f.pos and is_len(f.left) and const_value(f.right) == 1:
                return True                                   # not len(hops) < 1
            if f.op == "eq" and not f.pos and ((is_len(f.left) and const_value(f.right) == 0) or (is_len(f.right) and const_value(f.left) == 0)):
                return True
            return False

        def plaintext_fact(f) -> bool:
            return f.op == "truthy" and f.pos and (chain(res(f.left)) or "").endswith(".plaintext")

        def own_circuit_absent(f) -> bool:
            l = res(f.left)
            is_own = isinstance(l, ast.Call) and chain(l.func) == "self.circuits.get"
            if not is_own:
                return False
            return (f.op == "truthy" and not f.pos) or (f.op == "is" and const_value(f.right) is None and f.pos)

        return hops_of_own_circuit, lambda f: nonempty_fact(f) or plaintext_fact(f) or own_circuit_absent(f)

    hops_of_own_circuit, contradicts = preds(lambda e: resolve(ic, e))
    x_hops, x_contradicts = preds(strip_cast)
    direct = []
    for c in calls(ic):
        if call_name(c) != "decrypt_cell":
            continue
        for a in c.args:
            if isinstance(a, ast.Starred) and hops_of_own_circuit(a.value):
                direct.append(c)
    # the layers may be chosen somewhere else (a generator / helper yielding (direction, hops), a local bound on several paths):
    # a decrypt_cell call counts on the paths where its starred operand denotes the hops of the own circuit
    groups = _call_groups(ctx, ic, lambda ch, f: "decrypt_cell" if isinstance(f, ast.Attribute) and f.attr == "decrypt_cell" else None)
    sites = {(id(c), "decrypt_cell"): c for c in direct}
    own_paths: dict = {}
    for k, (orig, _nm, hits) in (groups or {}).items():
        hs = [h for h in hits if any(isinstance(a, ast.Starred) and x_hops(a.value) for a in h.node().args)]
        if hs:
            sites.setdefault(k, orig)
            own_paths[k] = hs
    ctx.anchor(list(sites), "decrypt_cell(cell, BACKWARD, *circuit.hops) in incoming_crypto")
    for key, c in sites.items():
        d_ok = d_facts = None
        if any(c is x for x in direct):
            # assume: the circuit exists, has no hop, and the cell is not plaintext -> the layer removal must be unreachable
            d_ok = unreachable_assuming(cfg, c, contradicts)
            d_facts = [str(f) for f in facts_at(cfg, c)]
        _decide(ctx, "keys-required", ic, c, d_ok, None if groups is None else own_paths.get(key, []),
                lambda h: any(x_contradicts(f) for f in h.facts()),
                "layers of an own circuit are removed only when the circuit has at least one keyed hop (or the cell is the plaintext created)",
                "an own circuit without verified hops has no keys: removing zero layers accepts any non-plaintext cell naming its id, so a third party "
                "that knows the circuit id has data delivered as if it came through the circuit", d_facts)


def rule_outgoing_keys(ctx: Ctx) -> None:
    """
    The sending side of keys-required: outgoing_crypto hands a cell back to send_cell (which then transmits it) only when it found a routing
    entry under the cell's circuit id - whose keys it has just applied - or the cell is one of the plaintext handshake cells.  A cell for an
    id without any entry has no keys: returning it means the body leaves in the clear, labelled with that circuit id (seeded C05-m14).
    """
    repo = ctx.repo
    oc = repo.method("PythonCryptoEndpoint", "outgoing_crypto", "ipv8/messaging/anonymization/crypto.py")
    cfg = ctx.cfg(oc)
    cells = {a.arg for a in oc.node.args.args if a.annotation is not None and "CellPayload" in norm(a.annotation)} or set(oc.params()[1:2])
    ENTRY_TABLES = ("self.circuits", "self.exit_sockets", "self.relays")

    def cell_cid(k) -> bool:
        k = strip_cast(k)
        return isinstance(k, ast.Attribute) and k.attr == "circuit_id" and isinstance(strip_cast(k.value), ast.Name) and strip_cast(k.value).id in cells

    def plaintext_of_cell(e) -> bool:
        e = strip_cast(e)
        return isinstance(e, ast.Attribute) and e.attr == "plaintext" and isinstance(strip_cast(e.value), ast.Name) and strip_cast(e.value).id in cells

    def deep(e, depth: int = 4):
        """e with the single-assignment locals inside it replaced by what they were bound to"""
        e = resolve(oc, e)
        if depth > 0 and isinstance(e, ast.Call) and isinstance(e.func, ast.Attribute) and e.args and isinstance(e.args[0], ast.Name):
            k = resolve(oc, e.args[0])
            if k is not e.args[0]:
                e = ast.copy_location(ast.Call(func=e.func, args=[k, *e.args[1:]], keywords=e.keywords), e)
        elif depth > 0 and isinstance(e, ast.Subscript) and isinstance(e.slice, ast.Name):
            e = ast.copy_location(ast.Subscript(value=e.value, slice=resolve(oc, e.slice), ctx=e.ctx), e)
        return e

    def has_keys_or_plain(f, res) -> bool:
        """fact f says: an entry exists under the cell's id in one of the tables, or the cell is plaintext"""
        from ..match import Fact
        g = Fact(f.op, res(f.left), res(f.right) if f.right is not None else None, f.pos, f.atom) if res is not None else f
        if _present(g, ENTRY_TABLES, cell_cid):
            return True
        return g.op == "truthy" and g.pos and plaintext_of_cell(g.left)

    rets = [r for r in walk_no_nested(oc.node) if isinstance(r, ast.Return) and r.value is not None and not _is_none(strip_cast(r.value))]
    ctx.anchor(rets or None, "a `return <cell>` in PythonCryptoEndpoint.outgoing_crypto")
    try:
        direct = all(unreachable_assuming(cfg, r, lambda f: has_keys_or_plain(f, deep)) for r in rets)
    except Exception:  # noqa: BLE001       # Fact has another shape than assumed: leave it to the path walk
        direct = False
    facts = None
    if not direct:
        w = _try_walk(ctx, oc)
        if w is None:
            raise AnalysisError("undecided: keys-required: outgoing_crypto could not be followed")
        handed = [(st, v) for kind, st, v in w.ends if kind == "return" and v is not None and not _is_none(strip_cast(v))]
        bad = [(st, v) for st, v in handed if not any(has_keys_or_plain(fact_of(a, pol), None) for a, pol in st.conds)]
        direct = bool(handed) and not bad
        if bad:
            facts = [str(fact_of(a, pol)) for a, pol in bad[0][0].conds]
    ctx.check(direct, "keys-required", oc, rets[0] if rets else oc.node,
              "outgoing_crypto returns the cell for sending only when a circuit / exit / relay entry exists under its id, or the cell is plaintext",
              "outgoing_crypto hands back a non-plaintext cell although no circuit, exit socket or relay is registered under its circuit id: without an entry "
              "there are no keys, no layer was added, and send_cell transmits the body in the clear labelled with that circuit id - readable by every "
              "node on the way and by whoever sits at the address it is sent to", facts)


# ---------------------------------------------------------------------------------------------------------------------
# Path-sensitive symbolic walk.
#
# The rules below ask "which tests have been passed (and with which outcome) whenever THIS call / store is executed, and
# what do its operands denote?".  The CFG facts of the engine answer that for one function whose guard is written as
# branch conditions in the function itself.  The walk answers it for every spelling that computes the same thing: it
# enumerates the execution paths of the function, keeps for every local the expression it was bound to (written in terms
# of the function's inputs - parameters as they were on entry, self.<state>), folds tests over constants (decision tags,
# flags, `x is None` on a literal), unrolls loops over literal tuples (dispatch tables), steps through generator helpers
# in lock-step with the consuming loop and follows calls into private helpers with the parameters bound to the caller's
# arguments - including helpers that return a decision which the caller then acts on.  A site is reported once per path
# together with the (expanded) atoms decided on that path.  Nothing is executed; every step is a syntactic substitution.
# ---------------------------------------------------------------------------------------------------------------------
_SYM_LIMIT = 20000
_DICT_TABLES = ("self.circuits", "self.relay_from_to", "self.exit_sockets", "self.relays")
_NOT_STEPPED_INTO = {"_generate_circuit_id"}        # its call IS the provenance the rules look for (decided on its own)


_FI = "\0fi"        # key of an environment under which the function owning the frame is kept (no local can have this name)


class _Frame:
    __slots__ = ("fi", "env", "gen")

    def __init__(self, fi, env, gen=False):
        if env.get(_FI) is not fi:
            env = dict(env)
            env[_FI] = fi
        self.fi, self.env, self.gen = fi, env, gen


class _State:
    __slots__ = ("frames", "conds", "seen", "recent")

    def __init__(self, frames, conds, seen, recent=None):
        self.frames, self.conds, self.seen = frames, conds, seen
        self.recent = recent if recent is not None else {}      # text of expanded atom -> outcome, since the last statement with effects

    @property
    def env(self):
        return self.frames[-1].env

    @property
    def fi(self):
        return self.frames[-1].fi

    def with_frames(self, frames):
        return _State(frames, self.conds, self.seen, self.recent)

    def bind(self, name, value):
        fr = self.frames[-1]
        env = dict(fr.env)
        env[name] = value
        return self.with_frames((*self.frames[:-1], _Frame(fr.fi, env, fr.gen)))

    def cond(self, atom, pol, key=None):
        seen = self.seen
        if key is not None:
            seen = dict(seen)
            seen[key] = pol
        recent = dict(self.recent)
        recent[norm(atom)] = pol
        return _State(self.frames, (*self.conds, (atom, pol)), seen, recent)

    def forget_recent(self):
        return self if not self.recent else _State(self.frames, self.conds, self.seen, {})

    def push(self, fi, env, gen=False):
        return self.with_frames((*self.frames, _Frame(fi, env, gen)))

    def pop(self):
        return self.with_frames(self.frames[:-1])


def _is_cast(e) -> bool:
    return isinstance(e, ast.Call) and isinstance(e.func, ast.Name) and e.func.id == "cast" and len(e.args) == 2 and not e.keywords


# Result objects.  A decision helper may hand its verdict back as a small record (NamedTuple / dataclass / namedtuple()) whose fields are
# constants, Enum members and the expressions the caller goes on to use.  `Rec(a, b).f`, `Rec(a, b)[1]` and `x, y = Rec(a, b)` are the
# constructor operand bound to that field - a purely syntactic projection - and two members of one Enum are equal iff they are the same
# member.  Classes are looked up by (repository-unique) name in the repository of the walk in progress.
_CUR: dict = {"repo": None}
_ENUM_BASES = ("Enum", "IntEnum", "StrEnum", "Flag", "IntFlag")


def _last(name: str | None) -> str:
    return (name or "").rsplit(".", 1)[-1]


def _class_tables(repo) -> tuple[dict, dict]:
    """({record class name: (kind, [(field, default expr | None)], ClassInfo | None)}, {enum class name: ({member: value key | None}, plain)})"""
    cached = repo.__dict__.get("_c05_class_tables")
    if cached is not None:
        return cached
    records: dict = {}
    enums: dict = {}
    taken = {f.name for m in repo.modules.values() for f in m.functions.values()}
    for name, cis in repo.classes.items():
        if len(cis) != 1 or name in taken:
            continue
        ci = cis[0]
        bases = [_last(b) for b in ci.base_names]
        decos = [_last(chain(d.func if isinstance(d, ast.Call) else d)) for d in ci.node.decorator_list]
        if "NamedTuple" in bases and len(bases) == 1:
            fields = [(f, ci.attrs.get(f)) for f, ann in ci.annotations.items() if "ClassVar" not in norm(ann)]
            if not any(k in ci.methods for k in ("__new__", "__init__", "__getattr__", "__getattribute__")):
                records[name] = ("tuple", fields, ci, None)
        elif "dataclass" in decos and not ci.node.bases and not ci.node.keywords and \
                (ci.module.imports.get("dataclass") == ("dataclasses", "dataclass") or ci.module.imports.get("dataclasses") == ("dataclasses", None)):
            deco = next(d for d in ci.node.decorator_list if _last(chain(d.func if isinstance(d, ast.Call) else d)) == "dataclass")
            opts = {k.arg: const_value(k.value) for k in deco.keywords} if isinstance(deco, ast.Call) else {}
            if opts.get("init", True) is not True or opts.get("kw_only", False) is not False \
                    or any(k in ci.methods for k in ("__init__", "__post_init__", "__new__", "__getattr__", "__getattribute__", "__setattr__")):
                continue
            fields = []
            for f, ann in ci.annotations.items():
                if "ClassVar" in norm(ann) or "InitVar" in norm(ann):
                    fields = None
                    break
                d = ci.attrs.get(f)
                if isinstance(d, ast.Call) and _last(chain(d.func)) == "field":
                    dk = {k.arg: k.value for k in d.keywords}
                    if d.args or set(dk) - {"default", "repr", "compare", "hash"}:
                        fields = None       # init=False / default_factory / kw_only fields: constructor operands no longer line up
                        break
                    d = dk.get("default")
                fields.append((f, d))
            if fields and opts.get("frozen", False) is not True:
                # not frozen: its fields stay what the constructor was given only if nothing in the repository assigns an attribute of that name
                if any(isinstance(a.ctx, (ast.Store, ast.Del)) for f, _d in fields for _m, _fi, a in repo.attribute_uses(f)):
                    fields = None
            if fields is not None:
                records[name] = ("data", fields, ci, None)
        elif not ci.node.bases and not ci.node.keywords and not ci.node.decorator_list and name.startswith("_") and not name.startswith("__") \
                and "__init__" in ci.methods and ci.module.relpath.startswith(PKG):
            # a small private class whose __init__ only stores its parameters (callable objects standing in for closures, result holders)
            init = ci.methods["__init__"].node
            a = init.args
            if a.vararg or a.kwarg or a.kwonlyargs or a.posonlyargs or init.decorator_list or len(a.args) < 1 \
                    or any(k in ci.methods for k in ("__new__", "__getattr__", "__getattribute__", "__setattr__", "__eq__")):
                continue
            params = [x.arg for x in a.args[1:]]
            defaults = dict(zip(params[len(params) - len(a.defaults):], a.defaults)) if a.defaults else {}
            amap: dict = {}
            ok = True
            for st in init.body:
                if isinstance(st, ast.Expr) and isinstance(st.value, ast.Constant):
                    continue
                tgt = st.targets[0] if isinstance(st, ast.Assign) and len(st.targets) == 1 else (st.target if isinstance(st, ast.AnnAssign) else None)
                val = strip_cast(st.value) if isinstance(st, (ast.Assign, ast.AnnAssign)) and st.value is not None else None
                if not (isinstance(tgt, ast.Attribute) and isinstance(tgt.value, ast.Name) and tgt.value.id == a.args[0].arg
                        and isinstance(val, ast.Name) and val.id in params and tgt.attr not in amap):
                    ok = False
                    break
                amap[tgt.attr] = val.id
            # nothing else in the class re-points these attributes, and none is shadowed by a method / property / class attribute
            for mname, mfi in ci.methods.items():
                if mname != "__init__" and any(isinstance(n, ast.Attribute) and isinstance(n.ctx, (ast.Store, ast.Del)) and n.attr in amap
                                               for n in ast.walk(mfi.node)):
                    ok = False
            if ok and amap and not (set(amap) & (set(ci.methods) | set(ci.attrs) - {"__slots__"})):
                records[name] = ("init", [(p_, defaults.get(p_)) for p_ in params], ci, amap)
        elif any(b in _ENUM_BASES for b in bases) and len(bases) == 1:
            members: dict = {}
            n_auto = 0
            for f, v in ci.attrs.items():
                if f.startswith("_"):
                    continue
                if isinstance(v, ast.Call) and _last(chain(v.func)) == "auto" and not v.args and not v.keywords:
                    n_auto += 1
                    members[f] = ("auto", n_auto)
                else:
                    cv = const_value(v)
                    members[f] = None if cv is NOCONST else ("const", cv)
            keys = [k for k in members.values()]
            kinds = {k[0] for k in keys if k is not None}
            if None in keys or len(kinds) > 1 or len({repr(k) for k in keys}) != len(keys) \
                    or any(k in ci.methods for k in ("__new__", "__init__", "_generate_next_value_", "_missing_")):
                members = {f: None for f in members}         # aliases cannot be excluded: only "same member" is decidable
            plain = bases[0] == "Enum" and not any(k in ci.methods for k in ("__bool__", "__len__", "__eq__", "__hash__"))
            if members and "__eq__" not in ci.methods:
                enums[name] = (members, plain)
    # namedtuple("X", "a b") / namedtuple("X", ["a", "b"], defaults=(...)) bound once at module level under its own name
    for m in repo.modules.values():
        for name, v in m.constants.items():
            if not (isinstance(v, ast.Call) and _last(chain(v.func)) == "namedtuple" and len(v.args) == 2 and name not in repo.classes and name not in taken):
                continue
            if any(name in m2.constants for m2 in repo.modules.values() if m2 is not m) or not _single_top_binding(m, name):
                continue
            spec = const_value(v.args[1]) if not isinstance(v.args[1], ast.List) else const_value(ast.Tuple(elts=v.args[1].elts, ctx=ast.Load()))
            if isinstance(spec, str):
                spec = tuple(spec.replace(",", " ").split())
            if not (isinstance(spec, tuple) and spec and all(isinstance(x, str) for x in spec)) or const_value(v.args[0]) != name:
                continue
            dk = {k.arg: k.value for k in v.keywords}
            if set(dk) - {"defaults"}:
                continue
            defs = list(dk["defaults"].elts) if isinstance(dk.get("defaults"), (ast.Tuple, ast.List)) else ([] if "defaults" not in dk else None)
            if defs is None or len(defs) > len(spec):
                continue
            records[name] = ("tuple", list(zip(spec, [None] * (len(spec) - len(defs)) + defs)), None, None)
    repo.__dict__["_c05_class_tables"] = (records, enums)
    return records, enums


def _record_of(call):
    """(class name, kind, fields, ClassInfo | None) when `call` constructs a record, else None"""
    repo = _CUR["repo"]
    if repo is None or not isinstance(call, ast.Call) or not isinstance(call.func, (ast.Name, ast.Attribute)):
        return None
    name = _last(chain(call.func))
    info = _class_tables(repo)[0].get(name)
    if info is None or (isinstance(call.func, ast.Attribute) and not isinstance(call.func.value, ast.Name)):
        return None
    return (name, *info)


def _record_operands(call) -> dict | None:
    """{field: operand expression} of a record constructor call (declared defaults filled in where they are context-free), else None"""
    rec = _record_of(call)
    if rec is None:
        return None
    _name, _kind, fields, _ci, _amap = rec
    names = [f for f, _d in fields]
    if any(isinstance(a, ast.Starred) for a in call.args) or any(k.arg is None for k in call.keywords) or len(call.args) > len(names):
        return None
    given = dict(zip(names, call.args))
    for k in call.keywords:
        if k.arg not in names or k.arg in given:
            return None
        given[k.arg] = k.value
    for f, d in fields:
        if f not in given:
            # a default is evaluated where the class is defined: only forms that mean the same everywhere are taken over
            if d is not None and (const_value(d) is not NOCONST or _enum_member(d) is not None):
                given[f] = d
            else:
                return None
    return given


def _record_field(call, attr: str | None = None, index: int | None = None):
    rec = _record_of(call)
    if rec is None:
        return None
    ops = _record_operands(call)
    if ops is None:
        return None
    names = list(ops)
    if index is not None:
        if rec[1] != "tuple" or not -len(names) <= index < len(names):
            return None
        attr = [f for f, _d in rec[2]][index]
    elif rec[4] is not None:
        attr = rec[4].get(attr)         # plain class: the attribute holds the constructor parameter its __init__ stored there
    return ops.get(attr)


def _enum_member(e):
    """(enum class name, member name) when e is `EnumClass.MEMBER` / `mod.EnumClass.MEMBER`, else None"""
    repo = _CUR["repo"]
    if repo is None or not isinstance(e, ast.Attribute) or not isinstance(e.value, (ast.Name, ast.Attribute)):
        return None
    cname = _last(chain(e.value))
    info = _class_tables(repo)[1].get(cname) if cname else None
    if info is None or e.attr not in info[0] or (isinstance(e.value, ast.Attribute) and not isinstance(e.value.value, ast.Name)):
        return None
    return cname, e.attr


def _enum_equal(a, b):
    """True / False when the two enum members are known to be the same / different objects, None when undecidable"""
    if a[0] != b[0]:
        return None
    if a[1] == b[1]:
        return True
    members = _class_tables(_CUR["repo"])[1][a[0]][0]
    ka, kb = members.get(a[1]), members.get(b[1])
    return False if ka is not None and kb is not None and ka != kb else None


def _same_key(k, s) -> bool | None:
    """does dict-display key k equal subscript s?  (constants and enum members only; None: cannot tell)"""
    if isinstance(k, ast.Constant) and isinstance(s, ast.Constant):
        return k.value == s.value and type(k.value) is type(s.value)
    mk, ms = _enum_member(k), _enum_member(s)
    if mk is not None and ms is not None:
        return _enum_equal(mk, ms)
    return None


def _lit_index(e):
    """{'a': f, 'b': g}['a'] -> f ; (x, y)[1] -> y   (literal containers indexed by a constant); Rec(a, b).f / Rec(a, b)[0] -> a"""
    if isinstance(e, ast.Attribute) and isinstance(e.ctx, ast.Load) and isinstance(e.value, ast.Call):
        r = _record_field(e.value, attr=e.attr)
        return r if r is not None else e
    if isinstance(e, ast.Attribute) and isinstance(e.ctx, ast.Load) and e.attr in ("name", "value") and isinstance(e.value, ast.Attribute):
        m = _enum_member(e.value)
        if m is not None:
            # Kind.RELAY.name is "RELAY"; Kind.RELAY.value is the constant the member was defined with
            members, _plain = _class_tables(_CUR["repo"])[1][m[0]]
            if e.attr == "name" and "name" not in members and "value" not in members:
                return ast.copy_location(ast.Constant(value=m[1]), e)
            key = members.get(m[1])
            if e.attr == "value" and key is not None and key[0] == "const" and "value" not in members and "name" not in members:
                return ast.copy_location(ast.Constant(value=key[1]), e)
        return e
    if isinstance(e, ast.Subscript) and isinstance(e.ctx, ast.Load) and isinstance(e.value, ast.Call) and isinstance(e.slice, ast.Constant) \
            and isinstance(e.slice.value, int) and not isinstance(e.slice.value, bool):
        r = _record_field(e.value, index=e.slice.value)
        if r is not None:
            return r
    if isinstance(e, ast.Subscript) and isinstance(e.value, ast.Dict) and e.value.keys and all(k is not None for k in e.value.keys) \
            and _enum_member(e.slice) is not None:
        same = [_same_key(k, e.slice) for k in e.value.keys]
        if None not in same and same.count(True) == 1:
            return e.value.values[same.index(True)]
    if isinstance(e, ast.Call) and isinstance(e.func, ast.Attribute) and e.func.attr == "get" and isinstance(e.func.value, ast.Dict) \
            and not e.keywords and 1 <= len(e.args) <= 2 and all(k is not None for k in e.func.value.keys) \
            and not any(isinstance(a, ast.Starred) for a in e.args):
        same = [_same_key(k, e.args[0]) for k in e.func.value.keys]
        if None not in same and same.count(True) <= 1:
            if True in same:
                return e.func.value.values[same.index(True)]
            return e.args[1] if len(e.args) == 2 else ast.Constant(value=None)
    if isinstance(e, ast.Subscript) and isinstance(e.slice, ast.Constant):
        v = e.value
        if isinstance(v, ast.Dict) and all(k is not None for k in v.keys):
            for k, val in zip(v.keys, v.values):
                if isinstance(k, ast.Constant) and k.value == e.slice.value and type(k.value) is type(e.slice.value):
                    return val
        if isinstance(v, (ast.Tuple, ast.List)) and isinstance(e.slice.value, int) and not isinstance(e.slice.value, bool) \
                and not any(isinstance(x, ast.Starred) for x in v.elts) and -len(v.elts) <= e.slice.value < len(v.elts):
            return v.elts[e.slice.value]
    return e


def _sx(e, env):
    """e with every local replaced by the expression it is bound to (cast() and await are transparent)."""
    if not isinstance(e, ast.AST):
        return e
    if isinstance(e, ast.Name):
        return env.get(e.id, e) if isinstance(e.ctx, ast.Load) else e
    if _is_cast(e):
        return _sx(e.args[1], env)
    if isinstance(e, (ast.NamedExpr, ast.Await)):
        return _sx(e.value, env)
    if isinstance(e, (ast.ListComp, ast.SetComp, ast.GeneratorExp, ast.DictComp)):
        bound = {n.id for g in e.generators for n in ast.walk(g.target) if isinstance(n, ast.Name)}
        if bound & env.keys():
            env = {k: v for k, v in env.items() if k not in bound}
    elif isinstance(e, ast.Lambda):
        a = e.args
        bound = {x.arg for x in [*a.posonlyargs, *a.args, *a.kwonlyargs, *([a.vararg] if a.vararg else []), *([a.kwarg] if a.kwarg else [])]}
        if bound & env.keys():
            env = {k: v for k, v in env.items() if k not in bound}
    changed = False
    vals = {}
    for f in e._fields:
        if not hasattr(e, f):
            continue
        v = getattr(e, f)
        if isinstance(v, list):
            nv = [_sx(x, env) for x in v]
            if any(a is not b for a, b in zip(nv, v)):
                changed = True
        elif isinstance(v, ast.AST):
            nv = _sx(v, env)
            if nv is not v:
                changed = True
        else:
            nv = v
        vals[f] = nv
    if changed:
        new = type(e)(**vals)
        ast.copy_location(new, e)
        e = new
    if isinstance(e, ast.Call):
        e = _operator_forms(e, env)
    return _lit_index(e)


def _lib_name(f, env, lib: str) -> str | None:
    """name of the function of standard module `lib` that callee expression f denotes in the frame env belongs to, else None"""
    fi = env.get(_FI)
    if isinstance(f, ast.Name):
        if fi is None or f.id in fi.params():
            return None
        imp = fi.module.imports.get(f.id)
        return imp[1] if imp is not None and imp[0] == lib and imp[1] is not None else None
    if isinstance(f, ast.Attribute) and isinstance(f.value, ast.Name) and f.value.id not in env:
        if fi is not None and f.value.id not in fi.params():
            imp = fi.module.imports.get(f.value.id)
            return f.attr if imp == (lib, None) else None
        return f.attr if fi is None and f.value.id == lib else None
    return None


_OP_COMPARE = {"eq": ast.Eq, "ne": ast.NotEq, "lt": ast.Lt, "le": ast.LtE, "gt": ast.Gt, "ge": ast.GtE, "is_": ast.Is, "is_not": ast.IsNot}


def _operator_forms(e: ast.Call, env):
    """
    Calls that only spell an operator: operator.eq(a, b) is `a == b`, operator.contains(t, k) is `k in t`, operator.not_(x) is `not x`,
    operator.getitem(x, k) is `x[k]`, attrgetter("a.b")(x) is `x.a.b`, itemgetter(k)(x) is `x[k]`, methodcaller("m", a)(x) is `x.m(a)`,
    functools.partial(f, a)(b) is `f(a, b)`.  (Same value, same evaluation of the operands, for the operand forms the rules read.)
    """
    if any(isinstance(a, ast.Starred) for a in e.args):
        # f(*(a, b), c) is f(a, b, c); so is f(*Rec(a, b), c) for a named-tuple record
        args, spliced = [], False
        for a in e.args:
            seq = a.value if isinstance(a, ast.Starred) else None
            if isinstance(seq, (ast.Tuple, ast.List)) and not any(isinstance(x, ast.Starred) for x in seq.elts):
                args.extend(seq.elts)
                spliced = True
            elif isinstance(seq, ast.Call) and _record_of(seq) is not None and _record_of(seq)[1] == "tuple" and _record_operands(seq) is not None:
                ops = _record_operands(seq)
                args.extend(ops[f_] for f_, _d in _record_of(seq)[2])
                spliced = True
            else:
                args.append(a)
        if spliced:
            e = ast.copy_location(ast.Call(func=e.func, args=args, keywords=e.keywords), e)
    if any(k.arg is None for k in e.keywords):
        return e
    f = e.func
    if isinstance(f, ast.Call) and not any(k.arg is None for k in f.keywords) and _lib_name(f.func, env, "functools") == "partial" and f.args \
            and not isinstance(f.args[0], ast.Starred) and not ({k.arg for k in f.keywords} & {k.arg for k in e.keywords}):
        # partial(f, a, k=v)(b) is f(a, b, k=v) (starred operands keep their place)
        return _operator_forms(ast.copy_location(ast.Call(func=f.args[0], args=[*f.args[1:], *e.args], keywords=[*f.keywords, *e.keywords]), e), env)
    if any(isinstance(a, ast.Starred) for a in e.args):
        return e
    if isinstance(f, ast.Lambda):
        a = f.args
        ps = [x.arg for x in [*a.posonlyargs, *a.args]]
        if not (a.vararg or a.kwarg or a.kwonlyargs or a.defaults or e.keywords) and len(ps) == len(e.args):
            # (the lambda's free names were expanded where it was written; only its parameters are left to substitute)
            return _sx(f.body, dict(zip(ps, e.args)))
        return e
    if isinstance(f, ast.Name) and f.id == "getattr" and "getattr" not in env and len(e.args) == 2 and not e.keywords \
            and isinstance(const_value(e.args[1]), str) and const_value(e.args[1]).isidentifier() \
            and not (env.get(_FI) is not None and ("getattr" in env[_FI].module.functions or "getattr" in env[_FI].module.imports)):
        # getattr(x, "name") with a constant name is the attribute access x.name
        return _lit_index(ast.copy_location(ast.Attribute(value=e.args[0], attr=const_value(e.args[1]), ctx=ast.Load()), e))
    if not isinstance(f, ast.Call):
        it = _lib_name(f, env, "itertools")
        if it == "chain" and not e.keywords and chain(f) != "itertools.chain":
            # one spelling for the concatenation of iterables, whatever name it was imported under
            return ast.copy_location(ast.Call(func=ast.Attribute(value=ast.Name(id="itertools", ctx=ast.Load()), attr="chain", ctx=ast.Load()),
                                              args=list(e.args), keywords=[]), e)
        if isinstance(f, ast.Attribute) and f.attr == "from_iterable" and _lib_name(f.value, env, "itertools") == "chain" and len(e.args) == 1 \
                and not e.keywords and isinstance(e.args[0], (ast.Tuple, ast.List)) and not any(isinstance(x, ast.Starred) for x in e.args[0].elts):
            return ast.copy_location(ast.Call(func=ast.Attribute(value=ast.Name(id="itertools", ctx=ast.Load()), attr="chain", ctx=ast.Load()),
                                              args=list(e.args[0].elts), keywords=[]), e)
        op = _lib_name(f, env, "operator")
        if op is None or e.keywords:
            return e
        a = e.args
        if op in _OP_COMPARE and len(a) == 2:
            return ast.copy_location(ast.Compare(left=a[0], ops=[_OP_COMPARE[op]()], comparators=[a[1]]), e)
        if op == "contains" and len(a) == 2:
            return ast.copy_location(ast.Compare(left=a[1], ops=[ast.In()], comparators=[a[0]]), e)
        if op == "not_" and len(a) == 1:
            return ast.copy_location(ast.UnaryOp(op=ast.Not(), operand=a[0]), e)
        if op == "truth" and len(a) == 1:
            return ast.copy_location(ast.Call(func=ast.Name(id="bool", ctx=ast.Load()), args=[a[0]], keywords=[]), e)
        if op == "getitem" and len(a) == 2:
            return _lit_index(ast.copy_location(ast.Subscript(value=a[0], slice=a[1], ctx=ast.Load()), e))
        return e
    if any(isinstance(a, ast.Starred) for a in f.args) or any(k.arg is None for k in f.keywords):
        return e
    op = _lib_name(f.func, env, "operator")
    if op is not None and len(e.args) == 1 and not e.keywords:
        x = e.args[0]
        if op == "attrgetter" and len(f.args) == 1 and not f.keywords and isinstance(const_value(f.args[0]), str):
            out = x
            for part in const_value(f.args[0]).split("."):
                if not part.isidentifier():
                    return e
                out = _lit_index(ast.copy_location(ast.Attribute(value=out, attr=part, ctx=ast.Load()), e))
            return out
        if op == "itemgetter" and len(f.args) == 1 and not f.keywords:
            return _lit_index(ast.copy_location(ast.Subscript(value=x, slice=f.args[0], ctx=ast.Load()), e))
        if op == "methodcaller" and f.args and isinstance(const_value(f.args[0]), str) and const_value(f.args[0]).isidentifier():
            return ast.copy_location(ast.Call(func=ast.Attribute(value=x, attr=const_value(f.args[0]), ctx=ast.Load()),
                                              args=list(f.args[1:]), keywords=list(f.keywords)), e)
        return e
    return e


def _assigned_names(nodes) -> set[str]:
    out = set()
    for s in nodes:
        for n in walk_no_nested(s):
            if isinstance(n, ast.Name) and isinstance(n.ctx, (ast.Store, ast.Del)):
                out.add(n.id)
            elif isinstance(n, ast.ExceptHandler) and n.name:
                out.add(n.name)
            elif isinstance(n, (ast.FunctionDef, ast.AsyncFunctionDef, ast.ClassDef)) and n is not s:
                out.add(n.name)
    return out


def _fold_isinstance(obj, classes):
    """isinstance(<record constructor call / None / enum member>, <class or tuple of classes named in the repository>) decided by the class hierarchy"""
    repo = _CUR["repo"]
    cl = list(classes.elts) if isinstance(classes, ast.Tuple) else [classes]
    names = [_last(chain(c)) if isinstance(c, (ast.Name, ast.Attribute)) else None for c in cl]
    if repo is None or any(n is None or len(repo.classes.get(n, ())) != 1 for n in names):
        return None
    if isinstance(obj, ast.Constant) and obj.value is None:
        return False
    m = _enum_member(obj)
    rec = _record_of(obj) if isinstance(obj, ast.Call) else None
    have = m[0] if m is not None else (rec[0] if rec is not None and rec[3] is not None else None)
    if have is None:
        return None
    return any(repo.classes[have][0].is_subclass_of(n) for n in names)


def _callable_object(a, env) -> bool:
    """
    a (expanded) denotes a callable object that exists whenever the expression is evaluated: `functools.partial(f, ...)` (a fresh partial
    object: not None, truthy - it defines neither __bool__ nor __len__ nor __eq__) or `self.m` with m a plain method of the class of the
    frame's function that nothing in the repository assigns as an attribute (a bound method: not None, truthy).
    """
    a = strip_cast(a)
    env = env if env is not None else {}
    if isinstance(a, ast.Call):
        return _lib_name(a.func, env, "functools") == "partial" and bool(a.args) and not isinstance(a.args[0], ast.Starred)
    fi, repo = env.get(_FI), _CUR["repo"]
    if isinstance(a, ast.Attribute) and isinstance(a.value, ast.Name) and a.value.id == "self" and "self" not in env and fi is not None \
            and fi.cls is not None and repo is not None:
        m = fi.cls.lookup(a.attr)
        if isinstance(m, FuncInfo) and not (set(m.decorator_names()) & {"property", "cached_property", "staticmethod", "classmethod"}) \
                and not any(d for d in m.decorator_names() if d.endswith(("property", ".setter", ".getter"))) \
                and fi.cls.lookup_attr(a.attr) is None \
                and not any(isinstance(x.ctx, (ast.Store, ast.Del)) for _m, _f, x in repo.attribute_uses(a.attr)):
            return True
    return False


def _fold(atom, env=None):
    """truth value of an atom that is decided by constants alone, else None"""
    if isinstance(atom, ast.Constant):
        return bool(atom.value)
    if env is not None and isinstance(atom, (ast.Call, ast.Attribute)) and _callable_object(atom, env):
        return True
    if isinstance(atom, (ast.Tuple, ast.List, ast.Set)) and not any(isinstance(x, ast.Starred) for x in atom.elts):
        return bool(atom.elts)
    if isinstance(atom, ast.Dict):
        return bool(atom.keys) if all(k is not None for k in atom.keys) else None
    if isinstance(atom, ast.Attribute):
        m = _enum_member(atom)
        if m is not None and _class_tables(_CUR["repo"])[1][m[0]][1]:
            return True                     # a member of a plain Enum is an ordinary object: truthy
        return None
    if isinstance(atom, ast.Call):
        rec = _record_of(atom)
        if rec is not None and _record_operands(atom) is not None and (rec[3] is None or not any(k in rec[3].methods for k in ("__bool__", "__len__"))):
            return bool(rec[2]) or rec[1] != "tuple"    # a non-empty named tuple / a dataclass instance without __bool__ / __len__
        if isinstance(atom.func, ast.Name) and atom.func.id == "isinstance" and len(atom.args) == 2 and not atom.keywords:
            return _fold_isinstance(atom.args[0], atom.args[1])
        return None
    if isinstance(atom, ast.Compare) and len(atom.ops) == 1:
        l, op, r = atom.left, atom.ops[0], atom.comparators[0]
        ml, mr = _enum_member(l), _enum_member(r)
        if ml is not None or mr is not None:
            if ml is not None and mr is not None and isinstance(op, (ast.Eq, ast.NotEq, ast.Is, ast.IsNot)):
                same = _enum_equal(ml, mr)
                return None if same is None else (same if isinstance(op, (ast.Eq, ast.Is)) else not same)
            other = r if ml is not None else l
            if isinstance(other, ast.Constant) and other.value is None and isinstance(op, (ast.Eq, ast.NotEq, ast.Is, ast.IsNot)):
                return isinstance(op, (ast.NotEq, ast.IsNot))
            if ml is not None and isinstance(op, (ast.In, ast.NotIn)):
                seq = r
                if isinstance(seq, ast.Call) and isinstance(seq.func, ast.Name) and seq.func.id in ("frozenset", "set", "tuple", "list") \
                        and len(seq.args) == 1 and not seq.keywords:
                    seq = seq.args[0]
                if isinstance(seq, (ast.Tuple, ast.List, ast.Set)) and not any(isinstance(x, ast.Starred) for x in seq.elts):
                    res = [(_enum_equal(ml, _enum_member(x)) if _enum_member(x) is not None else
                            (False if isinstance(x, ast.Constant) and x.value is None else None)) for x in seq.elts]
                    if True in res:
                        return isinstance(op, ast.In)
                    if None not in res:
                        return isinstance(op, ast.NotIn)
            return None
        for a, b in ((l, r), (r, l)):
            if env is not None and isinstance(b, ast.Constant) and b.value is None and isinstance(op, (ast.Is, ast.IsNot, ast.Eq, ast.NotEq)) \
                    and _callable_object(a, env):
                return isinstance(op, (ast.IsNot, ast.NotEq))
        for a, b in ((l, r), (r, l)):
            if isinstance(b, ast.Constant) and b.value is None and isinstance(op, (ast.Is, ast.IsNot, ast.Eq, ast.NotEq)) \
                    and isinstance(a, ast.Call) and _record_of(a) is not None and (isinstance(op, (ast.Is, ast.IsNot)) or _record_of(a)[3] is None
                                                                                  or "__eq__" not in _record_of(a)[3].methods):
                return isinstance(op, (ast.IsNot, ast.NotEq))
        lv, rv = const_value(l), const_value(r)
        lc, rc = lv is not NOCONST, rv is not NOCONST
        if lc and rc:
            try:
                if isinstance(op, ast.Eq):
                    return lv == rv
                if isinstance(op, ast.NotEq):
                    return lv != rv
                if isinstance(op, (ast.Is, ast.IsNot)) and (lv is None or rv is None or isinstance(lv, bool) or isinstance(rv, bool)):
                    return (lv is rv) if isinstance(op, ast.Is) else (lv is not rv)
                if isinstance(op, (ast.In, ast.NotIn)) and isinstance(rv, tuple):
                    return (lv in rv) if isinstance(op, ast.In) else (lv not in rv)
            except Exception:  # noqa: BLE001
                return None
        if isinstance(op, (ast.Is, ast.IsNot)):
            # <a freshly built object / literal> is None
            for a, bv, bc in ((l, rv, rc), (r, lv, lc)):
                if bc and bv is None and isinstance(a, (ast.Tuple, ast.List, ast.Dict, ast.Set, ast.JoinedStr, ast.Lambda,
                                                        ast.ListComp, ast.DictComp, ast.SetComp, ast.GeneratorExp)):
                    return isinstance(op, ast.IsNot)
    return None


_SEQ_WRAPPERS = ("set", "list", "tuple", "frozenset", "sorted", "iter")


def _union_members(e) -> list | None:
    """the containers whose union e denotes (`A | B`, `chain(A, B)`, `{*A, *B}`, `(*A, *B)`), else None"""
    e = strip_cast(e)
    if isinstance(e, ast.BinOp) and isinstance(e.op, (ast.BitOr, ast.Add)):
        a, b = _union_members(e.left) or [e.left], _union_members(e.right) or [e.right]
        return a + b
    if isinstance(e, ast.Call) and (chain(e.func) or "").rsplit(".", 1)[-1] == "chain" and e.args and not e.keywords \
            and not any(isinstance(a, ast.Starred) for a in e.args):
        return [x for a in e.args for x in (_union_members(a) or [a])]
    if isinstance(e, (ast.Set, ast.Tuple, ast.List)) and e.elts and all(isinstance(x, ast.Starred) for x in e.elts):
        return [y for x in e.elts for y in (_union_members(x.value) or [x.value])]
    if isinstance(e, ast.Dict) and e.keys and all(k is None for k in e.keys):
        return [y for x in e.values for y in (_union_members(x) or [x])]
    if isinstance(e, ast.Call) and isinstance(e.func, ast.Name) and e.func.id in _SEQ_WRAPPERS and len(e.args) == 1 and not e.keywords:
        return _union_members(e.args[0])
    if isinstance(e, ast.Call) and isinstance(e.func, ast.Attribute) and e.func.attr == "union" and e.args and not e.keywords:
        return [x for a in [e.func.value, *e.args] for x in (_union_members(a) or [a])]
    return None


def _container(e):
    """`T.keys()`, `set(T)`, `list(T)` test the same membership as T"""
    e = strip_cast(e)
    while True:
        if isinstance(e, ast.Call) and isinstance(e.func, ast.Attribute) and e.func.attr == "keys" and not e.args and not e.keywords:
            e = strip_cast(e.func.value)
        elif isinstance(e, ast.Call) and isinstance(e.func, ast.Name) and e.func.id in _SEQ_WRAPPERS and len(e.args) == 1 and not e.keywords:
            e = strip_cast(e.args[0])
        else:
            return e


def _boolish(v) -> bool:
    """v evaluates to True or False (so `|` / `&` on such values are the logical connectives)"""
    v = strip_cast(v)
    if isinstance(v, ast.Compare) or (isinstance(v, ast.UnaryOp) and isinstance(v.op, ast.Not)):
        return True
    if isinstance(v, ast.Constant):
        return isinstance(v.value, bool)
    if isinstance(v, ast.BoolOp):
        return all(_boolish(x) for x in v.values)
    if isinstance(v, ast.BinOp) and isinstance(v.op, (ast.BitOr, ast.BitAnd)):
        return _boolish(v.left) and _boolish(v.right)
    return isinstance(v, ast.Call) and isinstance(v.func, ast.Name) and v.func.id in ("bool", "isinstance", "issubclass", "callable", "hasattr", "any", "all")


def _literal_elements(a, kind: str = "any", env=None):
    """
    the element expressions of a sequence written out in place: a display, a comprehension over a display (`if` filters folded into the
    element the way any() / all() would see them), map(f, <display>).  None when the elements cannot be enumerated.
    """
    a = strip_cast(a)
    lib = {_FI: env[_FI]} if env and _FI in env else {}
    if isinstance(a, ast.Call) and isinstance(a.func, ast.Name) and a.func.id in ("list", "tuple", "iter") and len(a.args) == 1 and not a.keywords:
        return _literal_elements(a.args[0], kind, env)
    if isinstance(a, ast.Call) and isinstance(a.func, ast.Name) and a.func.id in ("frozenset", "set", "sorted") and len(a.args) == 1 and not a.keywords \
            and isinstance(strip_cast(a.args[0]), (ast.Tuple, ast.List, ast.Set)):
        # (a set of constants: any() / all() / a membership test over it do not depend on the order or on repeated elements)
        inner = strip_cast(a.args[0])
        if all(const_value(x) is not NOCONST for x in inner.elts):
            return list(inner.elts)
    if isinstance(a, (ast.Tuple, ast.List, ast.Set)) and not any(isinstance(x, ast.Starred) for x in a.elts):
        return list(a.elts)
    if isinstance(a, (ast.Name, ast.Attribute)) and env and env.get(_FI) is not None and _CUR["repo"] is not None:
        # a module / class constant holding a display of constants (a table of names, of message ids, ...) bound exactly once
        fi0, repo = env[_FI], _CUR["repo"]
        val = None
        if isinstance(a, ast.Name) and a.id not in fi0.params() and "$" not in a.id:
            r = repo.resolve_name(fi0.module, a.id)
            if isinstance(r, tuple) and r[0] == "const" and _single_top_binding(r[1], a.id if a.id in r[1].constants else
                                                                                next((k for k, v in r[1].constants.items() if v is r[2]), a.id)):
                val = r[2]
        elif isinstance(a, ast.Attribute):
            _owner, val = _class_attr(repo, fi0.module, fi0.cls, a)
            if val is not None and any(isinstance(x.ctx, (ast.Store, ast.Del)) for _m, _f, x in repo.attribute_uses(a.attr)):
                val = None
        if val is not None:
            val = strip_cast(val)
            frozen = isinstance(val, ast.Tuple)
            if isinstance(val, ast.Call) and isinstance(val.func, ast.Name) and val.func.id in ("frozenset", "tuple") and len(val.args) == 1 and not val.keywords:
                val, frozen = strip_cast(val.args[0]), True
            if isinstance(val, (ast.Tuple, ast.List, ast.Set)) and frozen and val.elts and all(const_value(x) is not NOCONST for x in val.elts):
                return list(val.elts)
    if isinstance(a, ast.Call) and isinstance(a.func, ast.Name) and a.func.id == "map" and len(a.args) == 2 and not a.keywords:
        xs = _literal_elements(a.args[1], "any", env)
        if xs is None or isinstance(a.args[0], ast.Starred):
            return None
        return [_lit_index(_operator_forms(ast.Call(func=a.args[0], args=[x], keywords=[]), lib)) for x in xs]
    if isinstance(a, (ast.GeneratorExp, ast.ListComp, ast.SetComp)) and len(a.generators) == 1:
        g = a.generators[0]
        it = _literal_elements(g.iter, "any", env) if not g.is_async else None
        if it is None:
            return None
        vals = []
        for x in it:
            env = _bind_pattern(g.target, x)
            if env is None:
                return None
            v = _sx(a.elt, env)
            for c in g.ifs:
                c2 = _sx(c, env)
                # any: the element counts only when the filter holds; all: a filtered-out element is vacuously fine
                v = ast.BoolOp(op=ast.And(), values=[c2, v]) if kind == "any" else \
                    ast.BoolOp(op=ast.Or(), values=[ast.UnaryOp(op=ast.Not(), operand=c2), v])
            vals.append(v)
        return vals
    return None


def _exists_match(e, env=None):
    """
    (test, element values, default) for `next(<generator over a display with a filter>, default)`: `test` is true iff some element passes
    the filter, in which case the call yields the first such element value, otherwise `default`.  None for anything else.
    """
    if not (isinstance(e, ast.Call) and isinstance(e.func, ast.Name) and e.func.id == "next" and len(e.args) == 2 and not e.keywords):
        return None
    a = strip_cast(e.args[0])
    if isinstance(a, ast.Call) and isinstance(a.func, ast.Name) and a.func.id == "iter" and len(a.args) == 1 and not a.keywords:
        a = strip_cast(a.args[0])
    if isinstance(a, ast.Call) and isinstance(a.func, ast.Name) and a.func.id == "filter" and len(a.args) == 2 and not a.keywords \
            and not (isinstance(a.args[0], ast.Constant) and a.args[0].value is None):
        xs = _literal_elements(a.args[1], "any", env)
        if xs is None:
            return None
        lib = {_FI: env[_FI]} if env and _FI in env else {}
        tests = [_lit_index(_operator_forms(ast.Call(func=a.args[0], args=[x], keywords=[]), lib)) for x in xs]
        return (ast.BoolOp(op=ast.Or(), values=tests) if len(tests) > 1 else tests[0] if tests else ast.Constant(value=False)), xs, e.args[1]
    if not (isinstance(a, (ast.GeneratorExp, ast.ListComp)) and len(a.generators) == 1 and a.generators[0].ifs and not a.generators[0].is_async):
        return None
    g = a.generators[0]
    it = _literal_elements(g.iter, "any", env)
    if it is None:
        return None
    tests, vals = [], []
    for x in it:
        env = _bind_pattern(g.target, x)
        if env is None:
            return None
        cs = [_sx(c, env) for c in g.ifs]
        tests.append(cs[0] if len(cs) == 1 else ast.BoolOp(op=ast.And(), values=cs))
        vals.append(_sx(a.elt, env))
    test = ast.BoolOp(op=ast.Or(), values=tests) if len(tests) > 1 else tests[0] if tests else ast.Constant(value=False)
    return test, vals, e.args[1]


def _selected(v, env):
    """
    (placeholder text, [(atom, polarity)]) for v = next(<the elements of some iterable that pass a test>) without a default: what is known
    about the element that comes out, written over the placeholder.  None when v is not such a selection.
    """
    v = strip_cast(v)
    if not (isinstance(v, ast.Call) and isinstance(v.func, ast.Name) and v.func.id == "next" and len(v.args) == 1 and not v.keywords):
        return None
    lib = {_FI: env[_FI]} if env and _FI in env else {}
    x = ast.Name(id="$element", ctx=ast.Load())
    src = strip_cast(v.args[0])
    if isinstance(src, ast.Call) and isinstance(src.func, ast.Name) and src.func.id == "iter" and len(src.args) == 1 and not src.keywords:
        src = strip_cast(src.args[0])
    known: list = []
    if isinstance(src, (ast.GeneratorExp, ast.ListComp)) and len(src.generators) == 1 and isinstance(src.generators[0].target, ast.Name) \
            and isinstance(src.elt, ast.Name) and src.elt.id == src.generators[0].target.id and not src.generators[0].is_async:
        known = [(_sx(c, {src.elt.id: x}), True) for c in src.generators[0].ifs]
    elif isinstance(src, ast.Call) and len(src.args) == 2 and not src.keywords and not any(isinstance(a, ast.Starred) for a in src.args):
        name = src.func.id if isinstance(src.func, ast.Name) and src.func.id == "filter" else _lib_name(src.func, lib, "itertools")
        if name not in ("filter", "filterfalse", "dropwhile") or (isinstance(src.args[0], ast.Constant) and src.args[0].value is None):
            return None
        applied = _lit_index(_operator_forms(ast.Call(func=src.args[0], args=[x], keywords=[]), lib))
        known = [(applied, name == "filter")]
    else:
        return None
    out = []
    for a, pol in known:
        a = strip_cast(a)
        while isinstance(a, ast.UnaryOp) and isinstance(a.op, ast.Not):
            a, pol = strip_cast(a.operand), not pol
        if isinstance(a, ast.BoolOp) and isinstance(a.op, ast.And if pol else ast.Or):
            out.extend((y, pol) for y in a.values)      # a true conjunction / a false disjunction decides every operand
        else:
            out.append((a, pol))
    return "$element", out


def _never_none(v) -> bool:
    v = strip_cast(v)
    return (isinstance(v, ast.Constant) and v.value is not None) or isinstance(v, (ast.Tuple, ast.List, ast.Dict, ast.Set)) \
        or chain(v) in _DICT_TABLES or _enum_member(v) is not None


def _quantifier(e, env=None):
    """
    any(<elt> for x in (a, b, c)) / all(...) / any([p, q]) / any(map(f, (a, b))) over a literal sequence -> the equivalent or/and expression;
    reduce(operator.or_ / and_, <literal sequence of truth values>) likewise; next((<truthy constant> for x in (a, b) if <test>), <falsy constant>)
    and `next((x for x in (a, b) if <test>), None) is [not] None` -> "some element passes the test".
    """
    env = env if env is not None else {}
    if isinstance(e, ast.Compare) and len(e.ops) == 1 and isinstance(e.ops[0], (ast.Is, ast.IsNot, ast.Eq, ast.NotEq)):
        for a, b in ((e.left, e.comparators[0]), (e.comparators[0], e.left)):
            if isinstance(b, ast.Constant) and b.value is None:
                m = _exists_match(strip_cast(a), env)
                if m is not None and isinstance(m[2], ast.Constant) and m[2].value is None and all(_never_none(v) for v in m[1]):
                    return m[0] if isinstance(e.ops[0], (ast.IsNot, ast.NotEq)) else ast.UnaryOp(op=ast.Not(), operand=m[0])
        return None
    if not isinstance(e, ast.Call) or e.keywords:
        return None
    m = _exists_match(e, env)
    if m is not None:
        truthy = all(isinstance(v, ast.Constant) and bool(v.value) for v in m[1])
        return m[0] if truthy and isinstance(m[2], ast.Constant) and not m[2].value else None
    kind = None
    if isinstance(e.func, ast.Name) and e.func.id in ("any", "all") and len(e.args) == 1:
        kind, a, need_bool = e.func.id, e.args[0], False
    elif _lib_name(e.func, env, "functools") == "reduce" and len(e.args) in (2, 3) and not any(isinstance(x, ast.Starred) for x in e.args):
        opn = _lib_name(e.args[0], env, "operator")
        if opn in ("or_", "and_"):
            kind, a, need_bool = ("any" if opn == "or_" else "all"), e.args[1], True
    if kind is None:
        return None
    op = ast.Or() if kind == "any" else ast.And()
    vals = _literal_elements(a, kind, env)
    if vals is None:
        return None
    if need_bool:
        if len(e.args) == 3:
            vals = [e.args[2], *vals]
        if not vals or not all(_boolish(v) for v in vals):
            return None         # (reduce over an empty sequence raises; `|` on other values is not `or`)
    if not vals:
        return ast.Constant(value=kind == "all")
    return ast.BoolOp(op=op, values=vals) if len(vals) > 1 else vals[0]


def _bind_pattern(target, value) -> dict | None:
    """{name: expr} for `target = value` (tuple targets against literal tuples element-wise, else by index)"""
    if isinstance(target, ast.Name):
        return {target.id: value}
    if isinstance(target, (ast.Tuple, ast.List)):
        stars = [i for i, t in enumerate(target.elts) if isinstance(t, ast.Starred)]
        if stars:
            # `a, *rest, z = v`: a = v[0], rest = v[1:-1], z = v[-1]  (v is a sequence here: unpack results, tuples, lists - a starred target
            # makes `rest` a list of the same elements, which is all the rules read from it)
            if len(stars) > 1 or not isinstance(target.elts[stars[0]].value, ast.Name):
                return None
            k, after = stars[0], len(target.elts) - stars[0] - 1
            lit = isinstance(value, (ast.Tuple, ast.List)) and not any(isinstance(x, ast.Starred) for x in value.elts) \
                and len(value.elts) >= len(target.elts) - 1
            out = {}
            for i, t in enumerate(target.elts):
                if i < k:
                    v = value.elts[i] if lit else _lit_index(ast.Subscript(value=value, slice=ast.Constant(value=i), ctx=ast.Load()))
                elif i == k:
                    if lit:
                        v = ast.List(elts=list(value.elts[k:len(value.elts) - after]), ctx=ast.Load())
                    else:
                        v = ast.Subscript(value=value, slice=ast.Slice(lower=ast.Constant(value=k) if k else None,
                                                                       upper=ast.Constant(value=-after) if after else None), ctx=ast.Load())
                    t = t.value
                else:
                    j = i - len(target.elts)
                    v = value.elts[j] if lit else _lit_index(ast.Subscript(value=value, slice=ast.Constant(value=j), ctx=ast.Load()))
                sub = _bind_pattern(t, v)
                if sub is None:
                    return None
                out.update(sub)
            return out
        out = {}
        lit = isinstance(value, (ast.Tuple, ast.List)) and len(value.elts) == len(target.elts) \
            and not any(isinstance(x, ast.Starred) for x in value.elts)
        for i, t in enumerate(target.elts):
            v = value.elts[i] if lit else _lit_index(ast.Subscript(value=value, slice=ast.Constant(value=i), ctx=ast.Load()))
            sub = _bind_pattern(t, v)
            if sub is None:
                return None
            out.update(sub)
        return out
    return {}        # attribute / subscript target: a heap store, no local changes


class _Hit:
    """one execution of a call / store on one path"""
    __slots__ = ("orig", "st", "kind", "_func", "_facts", "_node")

    def __init__(self, orig, st, kind, expanded: bool = False):
        self.orig, self.st, self.kind = orig, st, kind
        self._func = self._facts = None
        self._node = orig if expanded else None          # body of a lambda value: its locals were expanded where it was created

    @property
    def fi(self):
        return self.st.fi

    def funcs(self) -> list:
        """what the callee expression denotes on this path (a set when it is picked from a literal table by a non-constant key)"""
        if self._func is None:
            n = self.node() if self.kind == "call" else None
            # (the expanded call may name its callee more directly than the source does: partial(f, a)(b) is the call f(a, b))
            f = n.func if isinstance(n, ast.Call) else _sx(self.orig.func, self.st.env)
            self._func = _callee_alternatives(_settle(f, self.st.recent))
        return self._func

    def chains(self) -> list[str]:
        return [c for c in (chain(f) for f in self.funcs()) if c]

    def names(self) -> list[str]:
        return [f.attr if isinstance(f, ast.Attribute) else f.id for f in self.funcs() if isinstance(f, (ast.Attribute, ast.Name))]

    def node(self):
        """the call / store target with all locals expanded"""
        if self._node is None:
            self._node = _sx(self.orig, self.st.env)
        return self._node

    def facts(self):
        if self._facts is None:
            from ..match import expr_context_facts, fact_of
            out = [fact_of(a, p) for a, p in self.st.conds]
            if self.kind == "call":
                for f in expr_context_facts(self.orig):
                    out.append(fact_of(_sx(f.atom, self.st.env), _atom_polarity(f)))
            self._facts = out
        return self._facts

    def via(self) -> str:
        return " <- ".join(fr.fi.qualname for fr in reversed(self.st.frames))


def _atom_polarity(f) -> bool:
    """the truth value of f.atom that fact f states (fact_of flips .pos for !=, not in, is not, >=, <=)"""
    from ..match import fact_of
    return fact_of(f.atom, True).pos == f.pos


def _callee_alternatives(f) -> list:
    f = strip_cast(f)
    if isinstance(f, ast.IfExp):
        return _callee_alternatives(f.body) + _callee_alternatives(f.orelse)
    if isinstance(f, ast.Subscript) and isinstance(f.value, ast.Dict) and all(k is not None for k in f.value.keys):
        return [x for v in f.value.values for x in _callee_alternatives(v)]
    if isinstance(f, ast.Subscript) and isinstance(f.value, (ast.Tuple, ast.List)):
        return [x for v in f.value.elts for x in _callee_alternatives(v)]
    if isinstance(f, ast.Call) and isinstance(f.func, ast.Attribute) and f.func.attr == "get" and isinstance(f.func.value, ast.Dict) \
            and all(k is not None for k in f.func.value.keys):
        return [x for v in [*f.func.value.values, *f.args[1:2]] for x in _callee_alternatives(v)]
    return [f]


class _Sym:
    def __init__(self, ctx: Ctx, fi: FuncInfo, follow=None, force=()):
        self.ctx, self.repo, self.top = ctx, ctx.repo, fi
        _CUR["repo"] = ctx.repo
        self.follow = follow
        self.force = {id(f.node) for f in force}
        self.hits: list[_Hit] = []
        self.steps = 0
        self.fresh = 0
        self.yield_k = {}
        self._yield_from: dict = {}
        self._mutated = {}
        self.deco: list = []             # (decorated function, its layers, index of the layer a marker stands for)
        self.entered: set = set()
        st = _State((_Frame(fi, {}),), (), {})
        if _decorator_layers(self.repo, fi):
            # the name is bound to the wrapper its private decorators return: the walk starts there, the parameters being whatever the
            # callers pass (named after fi's own parameters)
            res = self.run_function(fi, {}, st)
            if res is None or id(fi.node) not in self.entered:
                raise AnalysisError(f"undecided: {fi.qualname} is wrapped by a private decorator whose call of the wrapped function could not be followed")
            self.ends = [(kind, s2.pop(), v) for kind, s2, v in res]
        else:
            self.ends = self.block(fi.node.body, st)

    # ------------------------------------------------------------------ helpers
    def tick(self):
        self.steps += 1
        if self.steps > _SYM_LIMIT:
            raise AnalysisError(f"undecided: more than {_SYM_LIMIT} symbolic steps in {self.top.qualname}")

    def opaque(self, name: str):
        self.fresh += 1
        return ast.Name(id=f"{name}${self.fresh}", ctx=ast.Load())

    def havoc(self, st: _State, names) -> _State:
        names = [n for n in names]
        if not names:
            return st
        fr = st.frames[-1]
        env = dict(fr.env)
        for n in names:
            env[n] = self.opaque(n)
        return st.with_frames((*st.frames[:-1], _Frame(fr.fi, env, fr.gen)))

    def bind_all(self, st: _State, mapping: dict) -> _State:
        if not mapping:
            return st
        fr = st.frames[-1]
        env = dict(fr.env)
        env.update(mapping)
        return st.with_frames((*st.frames[:-1], _Frame(fr.fi, env, fr.gen)))

    def walrus(self, e, st: _State) -> _State:
        ws = [n for n in walk_no_nested(e) if isinstance(n, ast.NamedExpr)]
        ws.sort(key=lambda n: (n.lineno, n.col_offset))
        for w in ws:
            st = st.bind(w.target.id, _sx(w.value, st.env))
        return st

    def record(self, e, st: _State) -> None:
        if e is None:
            return
        for n in walk_no_nested(e):
            if isinstance(n, ast.Call):
                self.hits.append(_Hit(n, st, "call"))
                for t in _store_forms(n):
                    self.hits.append(_Hit(t, st, "store"))

    # ------------------------------------------------------------------ calls
    def receiver_of(self, call: ast.Call, st: _State):
        """(method, receiver expression) when the call is `obj(...)` / `obj.m(...)` on an object whose constructor call is known (a record), else None"""
        f = call.func
        if isinstance(f, ast.Name) and f.id in st.env:
            recv, meth = _sx(f, st.env), "__call__"
        elif isinstance(f, ast.Attribute) and (not isinstance(f.value, ast.Name) or f.value.id in st.env):
            recv, meth = _sx(f.value, st.env), f.attr
        else:
            return None
        rec = _record_of(recv) if isinstance(recv, ast.Call) else None
        if rec is None or rec[3] is None or _record_operands(recv) is None:
            return None
        m = rec[3].methods.get(meth)
        if m is None or not rec[3].name.startswith("_") or not rec[3].module.relpath.startswith(PKG) or m.decorator_names():
            return None
        return m, recv

    def target_of(self, call: ast.Call, st: _State, awaited: bool):
        f = call.func
        fi = st.fi
        r = self.receiver_of(call, st)
        if r is not None:
            t = r[0]
            a = t.node.args
            if any(fr.fi.node is t.node for fr in st.frames) or len(st.frames) > 5 or a.vararg or a.kwarg \
                    or any(isinstance(x, ast.Starred) for x in call.args) or any(k.arg is None for k in call.keywords) \
                    or (t.is_async and not awaited) or any(isinstance(n, ast.Nonlocal) for n in walk_no_nested(t.node)):
                return None
            return t
        if "self" in st.env:
            return None             # inside a method of another object: `self.x(...)` is not a method of the class the walk started in
        if isinstance(f, ast.Attribute) and isinstance(f.value, ast.Name) and f.value.id == "self":
            tg = self.repo.resolve_call(fi, call)
            if fi is not self.top and self.top.cls is not None:
                # `self` is the object the walk started on (also inside a decorator's wrapper / a module-level helper that was handed `self`)
                tg2 = self.repo.dispatch(self.top.cls, f.attr)
                tg = tg2 or tg
        elif isinstance(f, ast.Name) and f.id not in st.env:
            tg = self.repo.resolve_call(fi, call)
        elif isinstance(f, ast.Attribute) and isinstance(f.value, ast.Name) and f.value.id not in st.env and f.value.id not in fi.params():
            # `module.helper(...)`: a function of another module of the package, imported as a module
            mod = self.repo.resolve_name(fi.module, f.value.id)
            tg = [mod[1].functions[f.attr]] if isinstance(mod, tuple) and mod[0] == "module" and mod[1] is not None and f.attr in mod[1].functions else []
        else:
            return None
        tg = [t for t in tg if isinstance(t, FuncInfo)]
        if len(tg) != 1:
            return None
        t = tg[0]
        if any(fr.fi.node is t.node for fr in st.frames) or len(st.frames) > 5:
            return None
        forced = id(t.node) in self.force
        if not forced:
            if not t.module.relpath.startswith(PKG) or not t.name.startswith("_") or t.name.startswith("__") or t.name in _NOT_STEPPED_INTO:
                return None
            if self.follow is not None and not self.follow(t):
                return None
        others = [d for d in t.decorator_names() if d not in ("staticmethod",)]
        if others and not forced and (len(others) != _modelled_decorators(self.repo, t) or self.is_generator(t)):
            return None
        a = t.node.args
        if a.vararg or a.kwarg or any(isinstance(x, ast.Starred) for x in call.args) or any(k.arg is None for k in call.keywords):
            return None
        if t.is_async and not awaited:
            return None
        if any(isinstance(n, ast.Nonlocal) for n in walk_no_nested(t.node)):
            return None
        return t

    @staticmethod
    def bind_signature(a: ast.arguments, args: list, kwargs: dict) -> dict | None:
        """{parameter: expression} for a call with the given (expanded) positional and keyword operands; a parameter bound to its own name is left free"""
        pos = [x.arg for x in [*a.posonlyargs, *a.args]]
        names = pos + [x.arg for x in a.kwonlyargs]
        env: dict = {}
        extra = []
        for i, v in enumerate(args):
            if isinstance(v, ast.Starred):
                return None
            if i < len(pos):
                env[pos[i]] = v
            else:
                extra.append(v)
        if extra and not a.vararg:
            return None
        if a.vararg:
            env[a.vararg.arg] = ast.Tuple(elts=extra, ctx=ast.Load())
        rest = {}
        for k, v in kwargs.items():
            if k in names and k not in env and k not in [x.arg for x in a.posonlyargs]:
                env[k] = v
            elif a.kwarg and k not in env:
                rest[k] = v
            else:
                return None
        if a.kwarg:
            env[a.kwarg.arg] = ast.Dict(keys=[ast.Constant(value=k) for k in rest], values=list(rest.values()))
        defaults = dict(zip(pos[len(pos) - len(a.defaults):], a.defaults)) if a.defaults else {}
        defaults.update({x.arg: d for x, d in zip(a.kwonlyargs, a.kw_defaults) if d is not None})
        for n in names:
            if n not in env:
                if n not in defaults:
                    return None
                env[n] = defaults[n]
        return {k: v for k, v in env.items() if not (isinstance(v, ast.Name) and v.id == k)}

    def run_function(self, t: FuncInfo, penv: dict, st: _State) -> list | None:
        """
        [(kind, state with the callee's frame still pushed, value)] of running t with its parameters bound as in penv (a parameter missing
        there stands for itself).  A function under private decorators is entered through the outermost wrapper.
        """
        layers = _decorator_layers(self.repo, t)
        if not layers:
            self.entered.add(id(t.node))
            return self.block(t.node.body, st.push(t, penv))
        a = t.node.args
        if a.vararg or a.kwarg:
            return None
        args = [penv.get(x.arg, ast.Name(id=x.arg, ctx=ast.Load())) for x in [*a.posonlyargs, *a.args]]
        kwargs = {x.arg: penv.get(x.arg, ast.Name(id=x.arg, ctx=ast.Load())) for x in a.kwonlyargs}
        return self.enter_layer(t, 0, args, kwargs, st)

    def enter_layer(self, t: FuncInfo, k: int, args: list, kwargs: dict, st: _State) -> list | None:
        layers = _decorator_layers(self.repo, t)
        if k >= len(layers):
            env = self.bind_signature(t.node.args, args, kwargs)
            if env is None:
                return None
            self.entered.add(id(t.node))
            return self.block(t.node.body, st.push(t, env))
        w, func, closure = layers[k]
        env = self.bind_signature(w.node.args, args, kwargs)
        if env is None or (set(env) & (set(closure) | {func})):
            return None
        env.update(closure)
        self.deco.append((t, k + 1))
        env[func] = ast.Name(id=f"{_DECO}{len(self.deco) - 1}", ctx=ast.Load())
        self.ctx.functions.add(w.where)
        return self.block(w.node.body, st.push(w, env))

    def wrapped_call(self, e: ast.Call, st: _State):
        """(decorated function, next layer) when e calls the function a wrapper was given, else None"""
        f = e.func
        if isinstance(f, ast.Name) and f.id in st.env:
            v = st.env[f.id]
            if isinstance(v, ast.Name) and v.id.startswith(_DECO):
                return self.deco[int(v.id[len(_DECO):])]
        return None

    def invoke_wrapped(self, e: ast.Call, st: _State) -> list:
        t, k = self.wrapped_call(e, st)
        x = _sx(e, st.env)
        kwargs: dict = {}
        ok = isinstance(x, ast.Call)
        for kw in (x.keywords if ok else []):
            if kw.arg is not None:
                kwargs[kw.arg] = kw.value
            elif isinstance(kw.value, ast.Dict) and all(isinstance(q, ast.Constant) and isinstance(q.value, str) for q in kw.value.keys):
                kwargs.update({q.value: v for q, v in zip(kw.value.keys, kw.value.values)})
            else:
                ok = False
        res = self.enter_layer(t, k, list(x.args), kwargs, st) if ok else None
        if res is None:
            raise AnalysisError(f"undecided: the call `{norm(e)[:60]}` of the function wrapped by a private decorator of {t.qualname} could not be bound")
        out = []
        for kind, s, v in res:
            if kind == "next":
                out.append((s.pop(), ast.Constant(value=None)))
            elif kind == "return":
                out.append((s.pop(), v if v is not None else ast.Constant(value=None)))
        return out

    def bind_params(self, t: FuncInfo, call: ast.Call, st: _State, expanded: bool = False) -> dict | None:
        """expanded: the operands of `call` are already written over the caller's inputs (a call put together from a partial object)"""
        a = t.node.args
        allpos = [x.arg for x in [*a.posonlyargs, *a.args]]
        pos = allpos
        env: dict = {}
        r = self.receiver_of(call, st)
        if r is not None and r[0].node is t.node:
            if not pos:
                return None
            env[pos[0]] = r[1]                  # the method's `self` is the object: its attributes are the operands it was constructed with
            pos = pos[1:]
        elif t.cls is not None and "staticmethod" not in t.decorator_names() and isinstance(call.func, ast.Attribute):
            if not pos:
                return None
            pos = pos[1:]                       # self stays `self`: the receiver is the object the walk started on
        names = pos + [x.arg for x in a.kwonlyargs]
        if parent_is_closure(t, st.fi):
            # a local function reads the enclosing function's locals as they are when it is called
            own = _assigned_names(t.node.body) | set(names)
            env.update({k: v for k, v in st.env.items() if k not in own})
        args = [x if expanded else _sx(x, st.env) for x in call.args]
        if len(args) > len(pos):
            return None
        given = {}
        for n, v in zip(pos, args):
            given[n] = v
        for k in call.keywords:
            if k.arg not in names or k.arg in given:
                return None
            given[k.arg] = k.value if expanded else _sx(k.value, st.env)
        defaults = dict(zip(allpos[len(allpos) - len(a.defaults):], a.defaults)) if a.defaults else {}
        defaults.update({x.arg: d for x, d in zip(a.kwonlyargs, a.kw_defaults) if d is not None})
        for n in names:
            if n in given:
                if not (isinstance(given[n], ast.Name) and given[n].id == n and n == "self"):
                    env[n] = given[n]           # (`self` handed on under its own name is the object the walk started on)
            elif n in defaults:
                env[n] = defaults[n]
            else:
                return None
        return env

    def invoke(self, t: FuncInfo, call: ast.Call, st: _State, expanded: bool = False) -> list | None:
        """[(state back in the caller, returned expression)] or None when the call cannot be stepped into"""
        env = self.bind_params(t, call, st, expanded)
        if env is None:
            return None
        self.ctx.functions.add(t.where)
        out = []
        res = self.run_function(t, env, st)
        if res is None:
            return None
        for kind, s, v in res:
            if kind == "next":
                out.append((s.pop(), ast.Constant(value=None)))
            elif kind == "return":
                out.append((s.pop(), v if v is not None else ast.Constant(value=None)))
        return out

    def is_generator(self, t: FuncInfo) -> bool:
        return any(isinstance(n, (ast.Yield, ast.YieldFrom)) for n in walk_no_nested(t.node) if n is not t.node)

    def value(self, e, st: _State) -> list:
        """[(state, expanded value)] of evaluating e - forks on conditional expressions and on the paths of helpers it calls"""
        self.tick()
        awaited = False
        e = strip_cast(e)
        if isinstance(e, ast.Await):
            awaited = True
            e = strip_cast(e.value)
        if isinstance(e, ast.NamedExpr):
            e = strip_cast(e.value)
        if isinstance(e, ast.IfExp):
            out = []
            for s, o in self.branch(e.test, st):
                out.extend(self.value(e.body if o else e.orelse, s))
            return out
        if isinstance(e, ast.Call) and self.wrapped_call(e, st) is not None:
            return self.invoke_wrapped(e, st)
        if isinstance(e, ast.Call):
            sel = self.selection(e, st)
            if sel is not None:
                return sel
            pc = self.prebound_call(e, st)
            if pc is not None:
                t = self.target_of(pc, st, awaited)
                if t is not None and not self.is_generator(t):
                    r = self.invoke(t, pc, st, expanded=True)
                    if r is not None:
                        return r
        if isinstance(e, ast.Call):
            e = self.direct_call(e, st)
            t = self.target_of(e, st, awaited)
            if t is not None and not self.is_generator(t):
                r = self.invoke(t, e, st)
                if r is not None:
                    return r
            lam = _sx(e.func, st.env) if isinstance(e.func, ast.Name) and e.func.id in st.env else None
            if isinstance(lam, ast.Lambda) and not e.keywords and not any(isinstance(a, ast.Starred) for a in e.args):
                a = lam.args
                ps = [x.arg for x in [*a.posonlyargs, *a.args]]
                if not (a.vararg or a.kwarg or a.kwonlyargs or a.defaults) and len(ps) == len(e.args):
                    # the lambda's free names were expanded when it was bound; only its parameters are left to substitute
                    body = _sx(lam.body, dict(zip(ps, [_sx(x, st.env) for x in e.args])))
                    for n in walk_no_nested(body):
                        if isinstance(n, ast.Call):
                            self.hits.append(_Hit(n, st, "call", True))
                    return [(st, body)]
        if isinstance(e, (ast.Tuple, ast.List)) and any(self.interesting(x, st) for x in e.elts):
            combos = [(st, [])]
            for x in e.elts:
                nxt = []
                for s, acc in combos:
                    if isinstance(x, ast.Starred):
                        nxt.append((s, [*acc, _sx(x, s.env)]))
                    else:
                        for s2, v in self.value(x, s):
                            nxt.append((s2, [*acc, v]))
                combos = nxt
            return [(s, ast.copy_location(type(e)(elts=acc, ctx=ast.Load()), e)) for s, acc in combos]
        if isinstance(e, ast.Compare) and len(e.ops) == 1 and any(self.interesting(x, st) for x in (e.left, e.comparators[0])):
            out = []
            for s, l in self.value(e.left, st):
                for s2, r in self.value(e.comparators[0], s):
                    out.append((s2, ast.copy_location(ast.Compare(left=l, ops=list(e.ops), comparators=[r]), e)))
            return out
        if isinstance(e, ast.Attribute) and self.interesting(e.value, st):
            return [(s, ast.copy_location(ast.Attribute(value=v, attr=e.attr, ctx=ast.Load()), e)) for s, v in self.value(e.value, st)]
        if isinstance(e, ast.Subscript) and self.interesting(e.value, st):
            return [(s, _lit_index(ast.copy_location(ast.Subscript(value=v, slice=_sx(e.slice, s.env), ctx=ast.Load()), e)))
                    for s, v in self.value(e.value, st)]
        return [(st, _sx(e, st.env))]

    def prebound_call(self, e: ast.Call, st: _State):
        """
        `step(...)` / `partial(self._m, a)(b)` where the callee is a functools.partial object built around a method of the walked object: the
        call `self._m(a, b)` it makes (operands already expanded - they were bound when the partial object was created), else None.
        """
        f = strip_cast(e.func)
        if not ((isinstance(f, ast.Name) and f.id in st.env) or isinstance(f, ast.Call)):
            return None
        bound = _settle(_sx(f, st.env), st.recent)
        if not (isinstance(bound, ast.Call) and _lib_name(bound.func, st.env, "functools") == "partial"):
            return None
        x = _sx(e, st.env)
        if isinstance(x, ast.Call) and isinstance(x.func, ast.Attribute) and isinstance(x.func.value, ast.Name) and x.func.value.id == "self" \
                and "self" not in st.env and not any(isinstance(a, ast.Starred) for a in x.args) and not any(k.arg is None for k in x.keywords):
            return x
        return None

    def selection(self, e: ast.Call, st: _State):
        """
        Values picked from a table written out in place, one path per row:
        `next((v for p, v in ((p1, v1), (p2, v2)) if <test over p>), default)` - the rows are tried in order, the first whose test holds
        supplies the value (the tests of the rows before it failed), `default` when none does;
        `{k1: f1, k2: f2}.get(key[, default])` with callable values (bound methods / partial objects / lambdas) - `key == k1`, else
        `key == k2`, else the default.  None for anything else (the caller goes on with the expression as it stands).
        """
        x = _sx(e, st.env)
        if not isinstance(x, ast.Call) or x.keywords:
            return None
        m = _exists_match(x, st.env) if isinstance(x.func, ast.Name) and x.func.id == "next" and "next" not in st.env else None
        if m is not None and len(m[1]) <= 8 and not isinstance(strip_cast(x.args[0]), ast.Call):
            a = strip_cast(x.args[0])
            g = a.generators[0]
            it = _literal_elements(g.iter, "any", st.env)
            out, pending = [], [st]
            for row in it:
                b = _bind_pattern(g.target, row)
                if b is None:
                    return None
                test = [_sx(c, b) for c in g.ifs]
                test = test[0] if len(test) == 1 else ast.BoolOp(op=ast.And(), values=test)
                nxt = []
                for s in pending:
                    for s2, o in self.branch(test, s, True):
                        if o:
                            out.append((s2, _sx(a.elt, b)))
                        else:
                            nxt.append(s2)
                pending = nxt
            return out + [(s, x.args[1]) for s in pending]
        f = x.func
        if isinstance(f, ast.Attribute) and f.attr == "get" and isinstance(f.value, ast.Dict) and 1 <= len(x.args) <= 2 and f.value.keys \
                and len(f.value.keys) <= 8 and all(k is not None and (const_value(k) is not NOCONST or _enum_member(k) is not None
                                                                      or isinstance(k, (ast.Name, ast.Attribute))) for k in f.value.keys) \
                and not any(isinstance(a, ast.Starred) for a in x.args) \
                and all(_callable_object(v, st.env) or isinstance(v, ast.Lambda) for v in f.value.values):
            # (a later duplicate of a key would replace the earlier row: only tables whose keys are known to be pairwise different values)
            fi0 = st.env.get(_FI)
            kv = []
            for k in f.value.keys:
                m_ = _enum_member(k)
                cv = const_value(k)
                if cv is NOCONST and m_ is None and fi0 is not None:
                    cv = _const_in(self.repo, fi0.module, fi0.cls, k)
                if m_ is None and (cv is NOCONST or isinstance(cv, float)):
                    return None
                kv.append(("enum", m_) if m_ is not None else ("const", cv))
            for i, a_ in enumerate(kv):
                for b_ in kv[:i]:
                    if a_[0] != b_[0]:
                        return None
                    if a_[0] == "enum" and _enum_equal(a_[1], b_[1]) is not False:
                        return None
                    if a_[0] == "const" and a_[1] == b_[1]:
                        return None
            out, pending = [], [st]
            for k, v in zip(f.value.keys, f.value.values):
                nxt = []
                for s in pending:
                    for s2, o in self.branch(ast.Compare(left=x.args[0], ops=[ast.Eq()], comparators=[k]), s, True):
                        if o:
                            out.append((s2, v))
                        else:
                            nxt.append(s2)
                pending = nxt
            return out + [(s, x.args[1] if len(x.args) == 2 else ast.Constant(value=None)) for s in pending]
        return None

    def direct_call(self, e: ast.Call, st: _State) -> ast.Call:
        """`table[kind](...)` / `step(...)` with the callee picked from a literal table or bound to a local: the call of what it denotes"""
        f = e.func
        if isinstance(f, ast.Attribute) and isinstance(f.value, ast.Name) and f.value.id == "self":
            return e
        if isinstance(f, ast.Name) and f.id not in st.env:
            return e
        alts = _callee_alternatives(_settle(_sx(f, st.env), st.recent))
        if len(alts) == 1 and isinstance(alts[0], ast.Attribute) and isinstance(alts[0].value, ast.Name) and alts[0].value.id == "self":
            return ast.copy_location(ast.Call(func=alts[0], args=e.args, keywords=e.keywords), e)
        return e

    def interesting(self, e, st: _State) -> bool:
        e = strip_cast(e)
        aw = isinstance(e, ast.Await)
        if aw:
            e = strip_cast(e.value)
        if isinstance(e, ast.IfExp):
            return True
        if isinstance(e, ast.Call):
            if self.wrapped_call(e, st) is not None:
                return True
            e = self.direct_call(e, st)
            t = self.target_of(e, st, aw)
            return t is not None and not self.is_generator(t)
        if isinstance(e, (ast.Attribute, ast.Subscript)):
            return self.interesting(e.value, st)
        return False

    # ------------------------------------------------------------------ conditions
    def branch(self, test, st: _State, expanded: bool = False) -> list:
        """[(state, outcome)] for every way `test` can be decided; atoms are recorded (expanded) in the state"""
        self.tick()
        test = strip_cast(test)
        if isinstance(test, ast.UnaryOp) and isinstance(test.op, ast.Not):
            return [(s, not o) for s, o in self.branch(test.operand, st, expanded)]
        if isinstance(test, ast.BoolOp):
            stop = not isinstance(test.op, ast.And)         # `or` stops at the first true operand, `and` at the first false
            done, pending = [], [st]
            for v in test.values:
                nxt = []
                for s in pending:
                    for s2, o in self.branch(v, s, expanded):
                        (done if o is stop else nxt).append((s2, o) if o is stop else s2)
                pending = nxt
            return done + [(s, not stop) for s in pending]
        if isinstance(test, ast.Call) and isinstance(test.func, ast.Name) and test.func.id == "bool" and len(test.args) == 1 and not test.keywords:
            return self.branch(test.args[0], st, expanded)
        if isinstance(test, ast.IfExp):
            out = []
            for s, o in self.branch(test.test, st, expanded):
                out.extend(self.branch(test.body if o else test.orelse, s, expanded))
            return out
        if expanded:
            vals = [(st, test)]
            key = None
        else:
            st = self.walrus(test, st)
            key = self.stable_key(test, st)
            if key is not None and key in st.seen:
                return [(st, st.seen[key])]
            vals = self.value(test, st)
        out = []
        for s, v in vals:
            v = strip_cast(v)
            q = _quantifier(v, s.env)
            if q is not None:
                v = q
            elif isinstance(v, ast.Compare) and len(v.ops) == 1 and isinstance(v.ops[0], (ast.In, ast.NotIn)):
                us = _union_members(v.comparators[0])
                if us and len(us) > 1:
                    orr = ast.BoolOp(op=ast.Or(), values=[ast.Compare(left=v.left, ops=[ast.In()], comparators=[u]) for u in us])
                    v = orr if isinstance(v.ops[0], ast.In) else ast.UnaryOp(op=ast.Not(), operand=orr)
            if isinstance(v, (ast.BoolOp, ast.IfExp)) or (isinstance(v, ast.UnaryOp) and isinstance(v.op, ast.Not)) or \
                    (isinstance(v, ast.Call) and isinstance(v.func, ast.Name) and v.func.id == "bool" and len(v.args) == 1):
                out.extend(self.branch(v, s, True))
                continue
            c = _fold(v, s.env)
            if c is None:
                c = s.recent.get(norm(v))       # the same expression was decided earlier on this path and nothing happened since
            if c is not None:
                out.append((s, c))
                continue
            out.append((s.cond(v, True, key), True))
            out.append((s.cond(v, False, key), False))
        return out

    def stable_key(self, atom, st: _State):
        """identity of an atom whose value cannot change while the locals it reads keep their binding (names, constants, `is`)"""
        names = []
        for n in ast.walk(atom):
            if isinstance(n, ast.Name):
                names.append(n.id)
            elif not isinstance(n, (ast.Constant, ast.Compare, ast.cmpop, ast.expr_context, ast.UnaryOp, ast.unaryop)):
                return None
            elif isinstance(n, ast.Compare) and not all(isinstance(o, (ast.Is, ast.IsNot)) for o in n.ops):
                return None             # == / in / < call user code on mutable objects
        if any(n in self.mutated(st.fi) for n in names) and not isinstance(atom, ast.Compare):
            return None                 # truthiness of a container the function itself fills / empties
        env = st.env
        # the same test on the same bound values is the same test, whatever the local is called in a helper's frame
        shape = norm(_sx(atom, {n: ast.Name(id=f"_{i}", ctx=ast.Load()) for i, n in enumerate(dict.fromkeys(names))}))
        return (shape, tuple(id(env[n]) if n in env else (n, len(st.frames) if st.fi is not self.top else 0)
                             for n in dict.fromkeys(names)))

    _MUTATORS = ("append", "extend", "add", "update", "pop", "popitem", "remove", "clear", "insert", "discard", "setdefault",
                 "appendleft", "popleft", "sort", "reverse")

    def mutated(self, fi: FuncInfo) -> set:
        k = id(fi.node)
        if k not in self._mutated:
            out = set()
            for n in walk_no_nested(fi.node):
                if isinstance(n, ast.Call) and isinstance(n.func, ast.Attribute) and n.func.attr in self._MUTATORS \
                        and isinstance(n.func.value, ast.Name):
                    out.add(n.func.value.id)
                elif isinstance(n, ast.Subscript) and isinstance(n.ctx, (ast.Store, ast.Del)) and isinstance(n.value, ast.Name):
                    out.add(n.value.id)
                elif isinstance(n, ast.AugAssign) and isinstance(n.target, ast.Name):
                    out.add(n.target.id)
            self._mutated[k] = out
        return self._mutated[k]

    # ------------------------------------------------------------------ statements
    def block(self, stmts, st: _State) -> list:
        """[(kind, state, value)]: kind in next | return | break | continue | raise | gen-break | gen-return"""
        cur = [st]
        out = []
        for s in stmts:
            nxt = []
            simple_effect = not isinstance(s, (ast.If, ast.For, ast.AsyncFor, ast.While, ast.Try, ast.With, ast.AsyncWith, ast.Match)) \
                and _has_effects(s)
            for c in cur:
                for kind, s2, v in self.stmt(s, c):
                    if simple_effect:
                        s2 = s2.forget_recent()
                    if kind == "next":
                        nxt.append(s2)
                    else:
                        out.append((kind, s2, v))
            cur = nxt
            if not cur:
                break
        return out + [("next", c, None) for c in cur]

    def assign(self, targets, value, st: _State) -> list:
        st = self.walrus(value, st)
        self.record(value, st)
        for t in targets:
            if not isinstance(t, ast.Name):
                self.record(t, st)
        out = []
        for s, v in self.value(value, st):
            for t in targets:
                if isinstance(t, (ast.Subscript, ast.Attribute)):
                    self.hits.append(_Hit(t, s, "store"))
            m = {}
            ok = True
            for t in targets:
                b = _bind_pattern(t, v)
                if b is None:
                    ok = False
                    b = {n: self.opaque(n) for n in _assigned_names([t])}
                m.update(b)
            s = self.evidence(value, self.escape(value, s))
            for t in targets:
                # `d[k] = v` / `o.f = v` on a local bound to a display: the display no longer describes it
                b = t
                while isinstance(b, (ast.Subscript, ast.Attribute)):
                    b = b.value
                if b is not t and isinstance(b, ast.Name) and (isinstance(s.env.get(b.id), (ast.List, ast.Dict, ast.Set, ast.Tuple))
                                                               or _record_of(s.env.get(b.id)) is not None):
                    s = self.havoc(s, [b.id])       # (a dataclass record whose field is assigned is no longer what its constructor call says)
            out.append(("next", self.bind_all(s, m), None))
        return out

    def evidence(self, e, st: _State) -> _State:
        """
        e was evaluated and did not raise.  For the routing tables (plain dicts) that is knowledge: `T[k]` evaluated => k in T;
        `T.get(k).attr` evaluated => the entry is not None.  (try/except KeyError lookups leave exactly this on their normal path.)
        """
        if e is None:
            return st
        env = st.env
        for n in _unconditional(e):
            if isinstance(n, ast.Subscript) and isinstance(n.ctx, ast.Load):
                base = _sx(n.value, env)
                if chain(base) in _DICT_TABLES and not isinstance(n.slice, ast.Slice):
                    st = st.cond(ast.Compare(left=_sx(n.slice, env), ops=[ast.In()], comparators=[base]), True)
            elif isinstance(n, ast.Attribute) and isinstance(n.ctx, ast.Load):
                v = strip_cast(_sx(n.value, env))
                if isinstance(v, ast.Call) and _entry_of(v, _DICT_TABLES, lambda k: True):
                    st = st.cond(ast.Compare(left=v, ops=[ast.IsNot()], comparators=[ast.Constant(value=None)]), True)
        return st

    def escape(self, e, st: _State) -> _State:
        """
        A local bound to a list / dict / set display is only as good as the display stays unchanged: `xs.append(v)` on a list display
        is modelled (the display grows), any other mutator call on it or handing it to a call makes the local unknown.
        """
        env = st.env
        for c in walk_no_nested(e):
            if not isinstance(c, ast.Call):
                continue
            f = c.func
            if isinstance(f, ast.Attribute) and isinstance(f.value, ast.Name) and f.value.id in env and f.attr in self._MUTATORS:
                cur = env[f.value.id]
                if f.attr == "append" and isinstance(cur, ast.List) and len(c.args) == 1 and not c.keywords \
                        and not isinstance(c.args[0], ast.Starred) and not any(isinstance(x, ast.Starred) for x in cur.elts):
                    st = st.bind(f.value.id, ast.List(elts=[*cur.elts, _sx(c.args[0], env)], ctx=ast.Load()))
                else:
                    st = self.havoc(st, [f.value.id])
                env = st.env
            for a in [*c.args, *[k.value for k in c.keywords]]:
                a = a.value if isinstance(a, ast.Starred) else a
                if isinstance(a, ast.Name) and isinstance(env.get(a.id), (ast.List, ast.Dict, ast.Set, ast.ListComp, ast.DictComp, ast.SetComp)) \
                        and not (isinstance(f, ast.Name) and f.id in ("len", "tuple", "list", "set", "sorted", "any", "all", "bool", "iter",
                                                                         "enumerate", "reversed", "sum", "min", "max", "str", "repr", "frozenset")):
                    st = self.havoc(st, [a.id])
                    env = st.env
        return st

    def stmt(self, s, st: _State) -> list:  # noqa: C901, PLR0911, PLR0912
        self.tick()
        if isinstance(s, ast.Assign):
            return self.assign(s.targets, s.value, st)
        if isinstance(s, ast.AnnAssign):
            return self.assign([s.target], s.value, st) if s.value is not None else [("next", st, None)]
        if isinstance(s, ast.AugAssign):
            st = self.walrus(s.value, st)
            self.record(s.value, st)
            if isinstance(s.target, ast.Name):
                new = ast.BinOp(left=_sx(ast.Name(id=s.target.id, ctx=ast.Load()), st.env), op=s.op, right=_sx(s.value, st.env))
                return [("next", st.bind(s.target.id, new), None)]
            self.record(s.target, st)
            self.hits.append(_Hit(s.target, st, "store"))
            for t in _store_forms(s):
                self.hits.append(_Hit(t, st, "store"))
            return [("next", st, None)]
        if isinstance(s, ast.Expr):
            v = s.value
            if isinstance(v, (ast.Yield, ast.YieldFrom)):
                return self.do_yield(v, st)
            if isinstance(v, ast.Await) and isinstance(v.value, (ast.Yield,)):
                return self.do_yield(v.value, st)
            st = self.walrus(v, st)
            self.record(v, st)
            return [("next", self.evidence(v, self.escape(v, s2)), None) for s2, _ in self.value(v, st)]
        if isinstance(s, ast.Return):
            if s.value is None:
                return [("return", st, None)]
            st = self.walrus(s.value, st)
            self.record(s.value, st)
            return [("return", s2, v) for s2, v in self.value(s.value, st)]
        if isinstance(s, ast.If):
            out = []
            for s2, o in self.cond_stmt(s.test, st):
                out.extend(self.block(s.body if o else s.orelse, s2))
            return out
        if isinstance(s, ast.While):
            return self.loop(s, st, None)
        if isinstance(s, (ast.For, ast.AsyncFor)):
            return self.do_for(s, st)
        if isinstance(s, (ast.With, ast.AsyncWith)):
            return self.do_with(s, st)
        if isinstance(s, ast.Try) or s.__class__.__name__ == "TryStar":
            return self.do_try(s, st)
        if isinstance(s, ast.Raise):
            self.record(s.exc, st)
            return [("raise", st, None)]
        if isinstance(s, ast.Assert):
            return [("next", s2, None) if o else ("raise", s2, None) for s2, o in self.cond_stmt(s.test, st)]
        if isinstance(s, ast.Break):
            return [("break", st, None)]
        if isinstance(s, ast.Continue):
            return [("continue", st, None)]
        if isinstance(s, (ast.FunctionDef, ast.AsyncFunctionDef, ast.ClassDef)):
            return [("next", _drop(st, s.name) if s.name in st.env else st, None)]
        if isinstance(s, ast.Delete):
            for t in s.targets:
                self.record(t, st)
                if isinstance(t, (ast.Subscript, ast.Attribute)):
                    self.hits.append(_Hit(t, st, "store"))
            return [("next", self.havoc(st, _assigned_names(s.targets)), None)]
        if isinstance(s, ast.Match):
            return self.do_match(s, st)
        if isinstance(s, (ast.Pass, ast.Global, ast.Nonlocal, ast.Import, ast.ImportFrom)):
            return [("next", st, None)]
        raise AnalysisError(f"undecided: statement `{head(s)}` not understood by the path walk of {st.fi.qualname}")

    def cond_stmt(self, test, st: _State) -> list:
        st0 = self.walrus(test, st)
        # calls inside the atoms are recorded where the atom is evaluated (with the facts of the atoms before it)
        out = self.branch_recording(test, st0)
        return [(s.forget_recent(), o) for s, o in out] if _has_effects(test) else out

    def branch_recording(self, test, st: _State) -> list:
        test = strip_cast(test)
        if isinstance(test, ast.UnaryOp) and isinstance(test.op, ast.Not):
            return [(s, not o) for s, o in self.branch_recording(test.operand, st)]
        if isinstance(test, ast.BoolOp):
            stop = not isinstance(test.op, ast.And)
            done, pending = [], [st]
            for v in test.values:
                nxt = []
                for s in pending:
                    for s2, o in self.branch_recording(v, s):
                        if o is stop:
                            done.append((s2, o))
                        else:
                            nxt.append(s2)
                pending = nxt
            return done + [(s, not stop) for s in pending]
        self.record(test, st)
        return [(self.evidence(test, s), o) for s, o in self.branch(test, st)]

    def loop(self, s, st: _State, target) -> list:
        """a loop whose iterations cannot be enumerated: zero iterations, or one arbitrary iteration with everything the body assigns unknown"""
        assigned = _assigned_names(s.body) | (_assigned_names([target]) if target is not None else set())
        if isinstance(s, ast.While):
            assigned |= {n.target.id for n in walk_no_nested(s.test) if isinstance(n, ast.NamedExpr)}
        out = []
        any_iter = self.havoc(st, assigned)

        def leave(s2: _State):
            out.extend(self.block(s.orelse, s2))

        if isinstance(s, ast.While):
            for s2, o in self.cond_stmt(s.test, st):
                if not o:
                    leave(s2)
            starts = [s2 for s2, o in self.cond_stmt(s.test, any_iter) if o]
        else:
            leave(st)
            starts = [any_iter]
        for s1 in starts:
            for kind, s2, v in self.block(s.body, s1):
                if kind in ("next", "continue"):
                    s3 = self.havoc(s2, assigned)       # any number of further iterations
                    if isinstance(s, ast.While):
                        for s4, o in self.cond_stmt(s.test, s3):
                            if not o:
                                leave(s4)
                    else:
                        leave(s3)
                elif kind == "break":
                    out.append(("next", s2, None))
                else:
                    out.append((kind, s2, v))
        return out

    def do_for(self, s, st: _State) -> list:
        st = self.walrus(s.iter, st)
        self.record(s.iter, st)
        it = strip_cast(s.iter)
        if isinstance(it, ast.Call) and not isinstance(s, ast.AsyncFor):
            t = self.target_of(it, st, False)
            if t is not None and self.is_generator(t):
                r = self.for_generator(s, t, it, st)
                if r is not None:
                    return r
        if isinstance(it, ast.Name) and it.id in st.env and not isinstance(s, ast.AsyncFor):
            # `layers = self._gen(x)` ... `for row in layers:` - the generator object was created earlier (its operands evaluated there: they are
            # kept expanded), its body runs now, step by step with this loop.  A generator can be consumed once: the local is unknown afterwards.
            gc = _settle(strip_cast(st.env[it.id]), st.recent)
            if isinstance(gc, ast.Call) and isinstance(gc.func, ast.Attribute) and isinstance(gc.func.value, ast.Name) and gc.func.value.id == "self" \
                    and "self" not in st.env:
                t = self.target_of(gc, st, False)
                if t is not None and self.is_generator(t):
                    r = self.for_generator(s, t, gc, self.havoc(st, [it.id]), expanded=True)
                    if r is not None:
                        return r
        out = []
        for s0, itv in self.value(s.iter, st):
            seq = strip_cast(itv)
            if isinstance(seq, ast.Call) and isinstance(seq.func, ast.Name) and seq.func.id in ("tuple", "list", "iter") and len(seq.args) == 1:
                seq = strip_cast(seq.args[0])
            if isinstance(seq, ast.Call) and isinstance(seq.func, ast.Attribute) and seq.func.attr == "items" and not seq.args \
                    and isinstance(seq.func.value, ast.Dict) and all(k is not None for k in seq.func.value.keys):
                d = seq.func.value
                seq = ast.Tuple(elts=[ast.Tuple(elts=[k, v], ctx=ast.Load()) for k, v in zip(d.keys, d.values)], ctx=ast.Load())
            if isinstance(seq, (ast.Tuple, ast.List)) and not any(isinstance(x, ast.Starred) for x in seq.elts) and len(seq.elts) <= 8 \
                    and not isinstance(s, ast.AsyncFor):
                cur = [s0]
                for x in seq.elts:
                    nxt = []
                    for c in cur:
                        b = _bind_pattern(s.target, x)
                        c = self.bind_all(c, b) if b is not None else self.havoc(c, _assigned_names([s.target]))
                        for kind, s2, v in self.block(s.body, c):
                            if kind in ("next", "continue"):
                                nxt.append(s2)
                            elif kind == "break":
                                out.append(("next", s2, None))
                            else:
                                out.append((kind, s2, v))
                    cur = nxt
                for c in cur:
                    out.extend(self.block(s.orelse, c))
            else:
                out.extend(self.loop(s, s0, s.target))
        return out

    def for_generator(self, s, t: FuncInfo, call: ast.Call, st: _State, expanded: bool = False) -> list | None:
        """`for x in self._gen(...)`: the generator body is walked and every `yield v` runs the loop body with x = v"""
        if any(isinstance(n, (ast.Yield, ast.YieldFrom)) and not isinstance(parent_of(n), ast.Expr) for n in walk_no_nested(t.node)):
            return None
        env = self.bind_params(t, call, st, expanded)
        if env is None:
            return None
        self.ctx.functions.add(t.where)
        depth = len(st.frames) + 1

        def on_yield(sg: _State, v) -> list:
            gen = sg.frames[-1]
            body_st = sg.pop()
            b = _bind_pattern(s.target, v)
            body_st = self.bind_all(body_st, b) if b is not None else self.havoc(body_st, _assigned_names([s.target]))
            res = []
            for kind, s2, val in self.block(s.body, body_st):
                back = s2.with_frames((*s2.frames, gen))
                if kind in ("next", "continue"):
                    res.append(("next", back, None))
                elif kind == "break":
                    res.append(("gen-break", back, None))
                elif kind == "return":
                    res.append(("gen-return", back, val))
                else:
                    res.append((kind, back, val))
            return res

        prev = self.yield_k.get(depth)
        self.yield_k[depth] = on_yield
        try:
            outs = self.block(t.node.body, st.push(t, env, True))
        finally:
            if prev is None:
                self.yield_k.pop(depth, None)
            else:
                self.yield_k[depth] = prev
        out = []
        for kind, s2, v in outs:
            if kind in ("next", "return"):
                out.extend(self.block(s.orelse, s2.pop()))
            elif kind == "gen-break":
                out.append(("next", s2.pop(), None))
            elif kind == "gen-return":
                out.append(("return", s2.pop(), v))
            else:
                out.append((kind, s2.pop(), v))
        return out

    def do_yield(self, y, st: _State) -> list:
        k = self.yield_k.get(len(st.frames))
        if k is None or not st.frames[-1].gen:
            raise AnalysisError(f"undecided: yield outside a generator stepped by a for loop in {st.fi.qualname}")
        if isinstance(y, ast.YieldFrom):
            # `yield from X` (its value unused) hands on the elements of X one by one: `for v in X: yield v`
            loop = self._yield_from.get(id(y))
            if loop is None:
                name = f"$yf{len(self._yield_from)}"
                loop = ast.For(target=ast.Name(id=name, ctx=ast.Store()), iter=y.value,
                               body=[ast.Expr(value=ast.Yield(value=ast.Name(id=name, ctx=ast.Load())))], orelse=[], type_comment=None)
                for n in ast.walk(loop):
                    if n is not y.value and not hasattr(n, "lineno") and isinstance(n, (ast.stmt, ast.expr)):
                        ast.copy_location(n, y)
                    if n is y.value:
                        continue
                self._yield_from[id(y)] = loop
            return self.do_for(loop, st)
        if y.value is None:
            return k(st, ast.Constant(value=None))
        st = self.walrus(y.value, st)
        self.record(y.value, st)
        out = []
        for s2, v in self.value(y.value, st):
            out.extend(k(s2, v))
        return out

    def do_match(self, s, st: _State) -> list:
        """cases are tried in order; `case <constant>` / `case A | B` / `case _` are decided like `subject == constant`"""
        st = self.walrus(s.subject, st)
        self.record(s.subject, st)
        out = []
        for s0, subj in self.value(s.subject, st):
            pending = [s0]
            for case in s.cases:
                bound = _assigned_names([case.pattern]) | {n.name for n in ast.walk(case.pattern)
                                                           if isinstance(n, (ast.MatchAs, ast.MatchStar)) and n.name} | \
                    {n.rest for n in ast.walk(case.pattern) if isinstance(n, ast.MatchMapping) and n.rest}
                nxt = []
                for c in pending:
                    test, binds = self.pattern_test(case.pattern, subj, c.env)
                    if test is None:                     # structural pattern: may or may not match
                        taken, nxt2 = [self.havoc(c, bound)], [c]
                    else:
                        r = self.branch(test, c, True)
                        taken, nxt2 = [self.bind_all(x, binds) for x, o in r if o], [x for x, o in r if not o]
                    for t in taken:
                        if case.guard is not None:
                            for t2, o in self.cond_stmt(case.guard, t):
                                if o:
                                    out.extend(self.block(case.body, t2))
                                else:
                                    nxt2.append(t2)
                        else:
                            out.extend(self.block(case.body, t))
                    nxt.extend(nxt2)
                pending = nxt
            out.extend(("next", c, None) for c in pending)
        return out

    def pattern_test(self, p, subj, env):  # noqa: C901, PLR0911, PLR0912
        """
        (test expression, {captured name: expression}) that decides whether (expanded) subject `subj` matches pattern p; (None, {}) when the
        pattern asks something about the subject's structure that its expression does not show.
        """
        unknown = (None, {})
        if isinstance(p, ast.MatchValue):
            # a literal, or a dotted name (`Verdict.DROP`, `self.LIMIT`) compared with ==
            return ast.Compare(left=subj, ops=[ast.Eq()], comparators=[_sx(p.value, env)]), {}
        if isinstance(p, ast.MatchSingleton):
            return ast.Compare(left=subj, ops=[ast.Is()], comparators=[ast.Constant(value=p.value)]), {}
        if isinstance(p, ast.MatchAs):
            if p.pattern is None:
                return ast.Constant(value=True), ({p.name: subj} if p.name else {})
            t, b = self.pattern_test(p.pattern, subj, env)
            return (t, {**b, **({p.name: subj} if p.name else {})}) if t is not None else unknown
        if isinstance(p, ast.MatchOr):
            ts = [self.pattern_test(x, subj, env) for x in p.patterns]
            if any(t is None or b for t, b in ts):
                return unknown
            return ast.BoolOp(op=ast.Or(), values=[t for t, _b in ts]), {}
        if isinstance(p, ast.MatchSequence):
            if any(isinstance(x, ast.MatchStar) for x in p.patterns):
                return unknown
            elts = None
            if isinstance(subj, (ast.Tuple, ast.List)) and not any(isinstance(x, ast.Starred) for x in subj.elts):
                elts = list(subj.elts)
            elif isinstance(subj, ast.Call) and _record_of(subj) is not None and _record_of(subj)[1] == "tuple":
                ops = _record_operands(subj)
                elts = [ops[f] for f, _d in _record_of(subj)[2]] if ops is not None else None
            elif (isinstance(subj, ast.Constant) and not isinstance(subj.value, (str, bytes))) or _enum_member(subj) is not None or \
                    (isinstance(subj, ast.Call) and _record_of(subj) is not None) or isinstance(subj, (ast.Dict, ast.Set)):
                return ast.Constant(value=False), {}        # None / a number / an enum member / a dataclass / a dict is not a sequence
            if elts is None:
                return unknown
            if len(elts) != len(p.patterns):
                return ast.Constant(value=False), {}
            return self._all_of([self.pattern_test(x, v, env) for x, v in zip(p.patterns, elts)])
        if isinstance(p, ast.MatchClass):
            repo = self.repo
            want = _last(chain(p.cls)) if isinstance(p.cls, (ast.Name, ast.Attribute)) else ""
            if isinstance(subj, ast.Constant) and subj.value is None and len(repo.classes.get(want, ())) == 1:
                return ast.Constant(value=False), {}
            rec = _record_of(subj) if isinstance(subj, ast.Call) else None
            m = _enum_member(subj)
            if m is not None and len(repo.classes.get(want, ())) == 1 and not p.patterns and not p.kwd_patterns:
                return ast.Constant(value=repo.classes[m[0]][0].is_subclass_of(want)), {}
            if rec is None or rec[3] is None or len(repo.classes.get(want, ())) != 1 or "__match_args__" in rec[3].attrs:
                return unknown
            if not rec[3].is_subclass_of(want):
                return ast.Constant(value=False), {}
            ops = _record_operands(subj)
            names = [f for f, _d in rec[2]]
            amap = rec[4] if rec[4] is not None else {f: f for f in names}
            if ops is None or len(p.patterns) > len(names) or any(k not in amap for k in p.kwd_attrs) or (rec[4] is not None and p.patterns):
                return unknown
            subs = [self.pattern_test(x, ops[names[i]], env) for i, x in enumerate(p.patterns)]
            subs += [self.pattern_test(x, ops[amap[k]], env) for k, x in zip(p.kwd_attrs, p.kwd_patterns)]
            return self._all_of(subs)
        return unknown

    @staticmethod
    def _all_of(subs):
        if any(t is None for t, _b in subs):
            return None, {}
        binds: dict = {}
        for _t, b in subs:
            binds.update(b)
        tests = [t for t, _b in subs if not (isinstance(t, ast.Constant) and t.value is True)]
        if not tests:
            return ast.Constant(value=True), binds
        return (tests[0] if len(tests) == 1 else ast.BoolOp(op=ast.And(), values=tests)), binds

    def sole_lookup(self, body, st: _State):
        """
        `k in T` (expanded) when the only thing in `body` that can raise a KeyError is one subscript T[k] of a routing table, evaluated before
        anything is assigned or called: no other subscript, no call (logging aside), no raise, no nested handler, no loop.  Else None.
        """
        subs = []
        for stmt in body:
            for n in walk_no_nested(stmt):
                if isinstance(n, ast.Subscript) and isinstance(n.ctx, ast.Load):
                    subs.append(n)
                elif isinstance(n, ast.Subscript):
                    return None
                elif isinstance(n, ast.Call) and not _is_cast(n) and not (chain(n.func) or "").startswith(("self.logger.", "logger.")):
                    return None
                elif isinstance(n, (ast.Raise, ast.Try, ast.With, ast.AsyncWith, ast.For, ast.AsyncFor, ast.While, ast.Await, ast.Yield, ast.YieldFrom,
                                    ast.Delete, ast.Assert, ast.Import, ast.ImportFrom, ast.FunctionDef, ast.AsyncFunctionDef, ast.ClassDef, ast.Lambda,
                                    ast.Match, ast.ListComp, ast.SetComp, ast.DictComp, ast.GeneratorExp, ast.Starred)):
                    return None
        if len(subs) != 1 or not body or not any(subs[0] is n for n in walk_no_nested(body[0])):
            return None
        base, key = _sx(subs[0].value, st.env), _sx(subs[0].slice, st.env)
        if chain(base) not in _DICT_TABLES or isinstance(subs[0].slice, ast.Slice):
            return None
        return ast.Compare(left=key, ops=[ast.In()], comparators=[base])

    def do_with(self, s, st: _State) -> list:
        """`with suppress(E): body` runs like `try: body / except E: pass`; any other context manager is entered and the body runs"""
        if len(s.items) == 1 and isinstance(s, ast.With) and isinstance(s.items[0].context_expr, ast.Call) and s.items[0].optional_vars is None:
            c = s.items[0].context_expr
            if _lib_name(c.func, st.env, "contextlib") == "suppress" and not c.keywords and not any(isinstance(a, ast.Starred) for a in c.args):
                self.record(c, st)
                if not c.args:
                    return self.block(s.body, st)
                typ = c.args[0] if len(c.args) == 1 else ast.Tuple(elts=list(c.args), ctx=ast.Load())
                t = ast.Try(body=s.body, handlers=[ast.ExceptHandler(type=typ, name=None, body=[ast.Pass()])], orelse=[], finalbody=[])
                return self.do_try(ast.copy_location(t, s), st)
        for i in s.items:
            st = self.walrus(i.context_expr, st)
            self.record(i.context_expr, st)
            if i.optional_vars is not None:
                st = self.havoc(st, _assigned_names([i.optional_vars]))
        return self.block(s.body, st)

    def do_try(self, s, st: _State) -> list:
        res = []
        compound = (ast.If, ast.For, ast.AsyncFor, ast.While, ast.Try, ast.With, ast.AsyncWith, ast.Match, ast.FunctionDef, ast.AsyncFunctionDef, ast.ClassDef)
        entries = None
        if s.handlers and len(s.body) <= 4 and not any(isinstance(x, compound) for x in s.body):
            # a short straight-line body: an exception leaves it out of one of its statements, with everything before that statement done and
            # nothing of the statement itself bound (a name is bound after its value has been computed)
            entries, cur, body_out = [], [st], []
            for stmt in s.body:
                nxt = []
                for c in cur:
                    if _stmt_may_raise(stmt):
                        entries.append(c)
                    for kind, s2, v in self.block([stmt], c):
                        if kind == "next":
                            nxt.append(s2)
                        else:
                            body_out.append((kind, s2, v))
                cur = nxt
            body_out.extend(("next", c, None) for c in cur)
            if len(entries) > 6:
                entries = None
        else:
            body_out = self.block(s.body, st)
        for kind, s2, v in body_out:
            if kind == "next":
                res.extend(self.block(s.orelse, s2))
            elif kind == "raise" and s.handlers:
                continue                    # covered by the handler paths below
            else:
                res.append((kind, s2, v))
        if s.handlers:
            if entries is None:
                # an exception may leave the body anywhere: what the body assigns is unknown, only the tests passed before the try hold
                entries = [self.havoc(st, _assigned_names(s.body))]
            missing = self.sole_lookup(s.body, st)
            for h in s.handlers:
                self.record(h.type, st)
                for sh in entries:
                    s3 = self.havoc(sh, [h.name]) if h.name else sh
                    if missing is not None and h.type is not None and chain(h.type) in ("KeyError", "LookupError"):
                        # the body can raise a KeyError in one place only - the lookup T[k] in a routing table (a plain dict): k is not in T
                        s3 = s3.cond(missing, False)
                    res.extend(self.block(h.body, s3))
        if s.finalbody:
            out = []
            for kind, s2, v in res:
                for k2, s4, v2 in self.block(s.finalbody, s2):
                    out.append((kind, s4, v) if k2 == "next" else (k2, s4, v2))
            return out
        return res


def _stmt_may_raise(stmt) -> bool:
    """a simple statement that does something which can fail (a call, a lookup, an attribute access, arithmetic, a comparison, unpacking)"""
    if isinstance(stmt, (ast.Pass, ast.Break, ast.Continue, ast.Global, ast.Nonlocal)):
        return False
    if isinstance(stmt, (ast.Raise, ast.Assert, ast.Delete, ast.Import, ast.ImportFrom, ast.AugAssign)):
        return True
    if isinstance(stmt, ast.Assign) and any(not isinstance(t, ast.Name) for t in stmt.targets):
        return True
    for n in walk_no_nested(stmt):
        if isinstance(n, (ast.Call, ast.Subscript, ast.Attribute, ast.BinOp, ast.Compare, ast.Await, ast.Yield, ast.YieldFrom, ast.Starred, ast.UnaryOp,
                          ast.JoinedStr, ast.ListComp, ast.SetComp, ast.DictComp, ast.GeneratorExp)):
            return True
    return False


def _unconditional(e):
    """sub-expressions of e that are evaluated whenever e is evaluated without raising (not the lazily evaluated positions)"""
    stack = [e]
    while stack:
        n = stack.pop()
        yield n
        if isinstance(n, ast.BoolOp):
            stack.append(n.values[0])
        elif isinstance(n, ast.IfExp):
            stack.append(n.test)
        elif isinstance(n, (ast.Lambda, ast.ListComp, ast.SetComp, ast.DictComp, ast.GeneratorExp, ast.FunctionDef, ast.AsyncFunctionDef, ast.ClassDef)):
            continue
        elif isinstance(n, ast.Compare) and len(n.ops) > 1:
            stack.extend([n.left, n.comparators[0]])
        else:
            stack.extend(c for c in ast.iter_child_nodes(n) if isinstance(c, ast.expr))


_PURE_CALLS = {"len", "isinstance", "issubclass", "hasattr", "callable", "cast", "id", "repr", "str", "bool", "int", "bytes", "type", "tuple",
               "list", "set", "dict", "frozenset", "any", "all", "min", "max", "sum", "sorted", "hexlify", "unhexlify", "getattr", "enumerate",
               "zip", "range", "reversed", "iter", "abs"}


def _has_effects(node) -> bool:
    """may change the heap: a call that is not logging / a pure builtin / a dict read, an await, a store or delete through an object"""
    for n in walk_no_nested(node):
        if isinstance(n, ast.Call):
            c = chain(n.func) or ""
            last = c.rsplit(".", 1)[-1]
            if c in _PURE_CALLS or c.startswith(("self.logger.", "logger.", "logging.")) or last in ("get", "has", "keys", "values", "items", "format"):
                continue
            return True
        if isinstance(n, (ast.Await, ast.Yield, ast.YieldFrom, ast.Delete)):
            return True
        if isinstance(n, (ast.Attribute, ast.Subscript)) and isinstance(n.ctx, (ast.Store, ast.Del)):
            return True
    return False


def _known_truth(e, recent: dict):
    """truth of e as far as the atoms decided since the last effect say, else None"""
    e = strip_cast(e)
    if isinstance(e, ast.UnaryOp) and isinstance(e.op, ast.Not):
        t = _known_truth(e.operand, recent)
        return None if t is None else not t
    if isinstance(e, ast.BoolOp):
        stop = not isinstance(e.op, ast.And)
        for v in e.values:
            t = _known_truth(v, recent)
            if t is None:
                return None
            if t is stop:
                return stop
        return not stop
    c = _fold(e)
    if c is not None:
        return c
    return recent.get(norm(e))


def _settle(e, recent: dict):
    """e with the conditional expressions whose test is already decided on this path replaced by the arm taken"""
    if isinstance(e, ast.IfExp):
        t = _known_truth(e.test, recent)
        if t is not None:
            return _settle(e.body if t else e.orelse, recent)
        return e
    if isinstance(e, ast.Subscript):
        v, k = _settle(e.value, recent), _settle(e.slice, recent)
        if v is not e.value or k is not e.slice:
            return _lit_index(ast.copy_location(ast.Subscript(value=v, slice=k, ctx=e.ctx), e))
    return e


def _drop(st: _State, name: str) -> _State:
    fr = st.frames[-1]
    env = {k: v for k, v in fr.env.items() if k != name}
    return st.with_frames((*st.frames[:-1], _Frame(fr.fi, env, fr.gen)))


def parent_of(n):
    return getattr(n, "_parent", None)


_DECO = "$decorated$"


def _plain_body(fn) -> list:
    """statements of a function body without its docstring"""
    b = list(fn.body)
    if b and isinstance(b[0], ast.Expr) and isinstance(b[0].value, ast.Constant) and isinstance(b[0].value.value, str):
        b = b[1:]
    return b


def _wrapper_shape(repo, outer) -> tuple | None:
    """
    (wrapper FuncInfo, name of the wrapped function) when function node `outer` is `def d(func): [@wraps(func)] def wrapper(...): ...; return wrapper`
    - nothing but the definition of the wrapper and its return - else None.
    """
    a = outer.args
    if a.vararg or a.kwarg or a.kwonlyargs or a.defaults or len(a.posonlyargs) + len(a.args) != 1 or isinstance(outer, ast.AsyncFunctionDef):
        return None
    func = (a.posonlyargs + a.args)[0].arg
    body = _plain_body(outer)
    if len(body) != 2 or not isinstance(body[0], (ast.FunctionDef, ast.AsyncFunctionDef)) or not isinstance(body[1], ast.Return) \
            or not (isinstance(body[1].value, ast.Name) and body[1].value.id == body[0].name):
        return None
    w = body[0]
    for d in w.decorator_list:
        # functools.wraps(func) copies name / docstring onto the wrapper and returns the wrapper itself
        if not (isinstance(d, ast.Call) and _last(chain(d.func)) == "wraps" and len(d.args) == 1 and not d.keywords
                and isinstance(d.args[0], ast.Name) and d.args[0].id == func):
            return None
    if any(isinstance(n, (ast.Nonlocal, ast.Global)) for n in walk_no_nested(w)) or func in _assigned_names(w.body) \
            or any(x.arg == func for x in [*w.args.posonlyargs, *w.args.args, *w.args.kwonlyargs, *filter(None, [w.args.vararg, w.args.kwarg])]):
        return None
    info = getattr(w, "_info", None)
    return (info, func) if isinstance(info, FuncInfo) else None


def _decorator_target(repo, fi: FuncInfo, d):
    """the module-level function of the package that decorator expression d (`name`, `mod.name`, either of them called) denotes, else None"""
    f = d.func if isinstance(d, ast.Call) else d
    r = None
    if isinstance(f, ast.Name):
        r = repo.resolve_name(fi.module, f.id)
    elif isinstance(f, ast.Attribute) and isinstance(f.value, ast.Name):
        mod = repo.resolve_name(fi.module, f.value.id)
        if isinstance(mod, tuple) and mod[0] == "module" and mod[1] is not None:
            r = mod[1].functions.get(f.attr)
    if not isinstance(r, FuncInfo) or r.cls is not None or not r.module.relpath.startswith(PKG) or r.node.decorator_list \
            or not (r.name.startswith("_") and not r.name.startswith("__")):
        return None
    from ..model import enclosing_function
    return r if enclosing_function(r.node) is None else None


def _decorator_layers(repo, fi: FuncInfo) -> list:
    """
    The private decorators of the package written directly above `def fi` (`@_d` / `@_d(args)`), outermost first, as
    [(wrapper FuncInfo, name of the wrapped function inside it, {closure variable: expression})]: the name `fi` is bound to denotes the
    outermost wrapper, and the call of the wrapped function inside a wrapper runs the next wrapper / fi's own body.  Decorators further out
    (unpack_cell, lazy_wrapper, ...) are not part of the list: they are what they always were.  [] when there is none.
    """
    cache = repo.__dict__.setdefault("_c05_deco_layers", {})
    key = id(fi.node)
    if key in cache:
        return cache[key]
    layers: list = []
    for d in reversed(fi.node.decorator_list):
        df = _decorator_target(repo, fi, d)
        if df is None:
            break
        closure: dict = {}
        outer = df.node
        if isinstance(d, ast.Call):
            # a decorator factory: def d(args): def decorator(func): ...; return decorator
            a = outer.args
            body = _plain_body(outer)
            if a.vararg or a.kwarg or isinstance(outer, ast.AsyncFunctionDef) or len(body) != 2 or not isinstance(body[0], ast.FunctionDef) \
                    or not isinstance(body[1], ast.Return) or not (isinstance(body[1].value, ast.Name) and body[1].value.id == body[0].name) \
                    or body[0].decorator_list or any(isinstance(x, ast.Starred) for x in d.args) or any(k.arg is None for k in d.keywords):
                break
            pos = [x.arg for x in [*a.posonlyargs, *a.args]]
            names = pos + [x.arg for x in a.kwonlyargs]
            if len(d.args) > len(pos):
                break
            given = dict(zip(pos, d.args))
            bad = False
            for k in d.keywords:
                if k.arg not in names or k.arg in given:
                    bad = True
                given[k.arg] = k.value
            defaults = dict(zip(pos[len(pos) - len(a.defaults):], a.defaults)) if a.defaults else {}
            defaults.update({x.arg: dv for x, dv in zip(a.kwonlyargs, a.kw_defaults) if dv is not None})
            for n in names:
                if n not in given:
                    if n in defaults and const_value(defaults[n]) is not NOCONST:
                        given[n] = defaults[n]
                    else:
                        bad = True
            # the operands are evaluated once, where the decorated function is defined: only forms that mean the same whenever they are read
            if bad or any(not (const_value(v) is not NOCONST or isinstance(v, (ast.Name, ast.Attribute))) for v in given.values()):
                break
            closure = given
            outer = body[0]
        shape = _wrapper_shape(repo, outer)
        if shape is None or (set(closure) & {shape[1]}):
            break
        layers.append((shape[0], shape[1], closure))
    layers.reverse()
    cache[key] = layers
    return layers


def _modelled_decorators(repo, fi: FuncInfo) -> int:
    return len(_decorator_layers(repo, fi))


def parent_is_closure(t: FuncInfo, cur: FuncInfo) -> bool:
    """t is a function defined inside cur (it reads cur's locals)"""
    from ..model import enclosing_function
    return enclosing_function(t.node) is cur.node


def _walk(ctx: Ctx, fi: FuncInfo, force=()) -> _Sym:
    cache = ctx.__dict__.setdefault("_c05_walks", {})
    _CUR["repo"] = ctx.repo         # hits expand their operands lazily: the class tables they consult are those of this repository
    key = (id(fi.node), tuple(sorted(id(f.node) for f in force)))
    if key not in cache:
        try:
            cache[key] = _Sym(ctx, fi, force=force)
        except RecursionError as e:          # pragma: no cover
            raise AnalysisError(f"undecided: path walk of {fi.qualname} too deep") from e
        except AnalysisError:
            raise
        except Exception as e:  # noqa: BLE001       # syntax the walk does not model: undecided, never a verdict
            raise AnalysisError(f"undecided: path walk of {fi.qualname} failed on unmodelled syntax ({type(e).__name__}: {e})") from e
    return cache[key]


HOP_FIELDS = ("hop", "hops", "_hops")


def _through_hop(fi: FuncInfo, e: ast.AST, depth: int = 5) -> bool:
    """e denotes (part of) the adjacent-hop record of a routing object: its expression passes through `.hop` / `.hops`"""
    e = strip_cast(e)
    if depth <= 0:
        return False
    if isinstance(e, ast.Attribute):
        return e.attr in HOP_FIELDS or _through_hop(fi, e.value, depth)
    if isinstance(e, ast.Subscript):
        return _through_hop(fi, e.value, depth)
    if isinstance(e, ast.Call):
        return _through_hop(fi, e.func, depth) if isinstance(e.func, ast.Attribute) else False
    if isinstance(e, (ast.IfExp, ast.BoolOp)):
        return any(_through_hop(fi, x, depth) for x in ([e.body, e.orelse] if isinstance(e, ast.IfExp) else e.values))
    if isinstance(e, ast.NamedExpr):
        return _through_hop(fi, e.value, depth)
    if isinstance(e, ast.Name) and e.id not in fi.params():
        return any(v is not None and _through_hop(fi, v if idx is None else v, depth - 1) for _st, v, idx in local_defs(fi, e.id))
    return False


def rule_hop_fixed(ctx: Ctx) -> None:
    """
    Replies of circuit X go to `<entry of X>.hop.address` (= hop.peer.address): the adjacent hop of a circuit / relay / exit entry is
    whatever was authenticated when the entry was created.  Nothing may re-point it afterwards - a cell carries no replay protection, so
    "the cell decrypted, follow its source address" hands the return path to whoever re-sends a captured datagram.
    """
    n = 0
    for fi in _pkg_functions(ctx.repo):
        for node in walk_no_nested(fi.node):
            targets = []
            if isinstance(node, ast.Assign):
                targets = node.targets
            elif isinstance(node, (ast.AugAssign, ast.AnnAssign)):
                targets = [node.target] if not (isinstance(node, ast.AnnAssign) and node.value is None) else []
            elif isinstance(node, ast.Delete):
                targets = node.targets
            elif isinstance(node, ast.Call):
                f = node.func
                hit = None
                if isinstance(f, ast.Attribute) and f.attr in ("add_address", "__setattr__") and _through_hop(fi, f.value):
                    hit = f.value
                elif isinstance(f, ast.Name) and f.id in ("setattr", "delattr") and node.args and \
                        (_through_hop(fi, node.args[0]) or (len(node.args) > 1 and const_value(node.args[1]) == "hop")):
                    hit = node.args[0]
                if hit is not None:
                    n += 1
                    ctx.check(False, "return-path-bound", fi, node, "no update of a routing entry's adjacent hop",
                              f"`{norm(node)[:80]}` changes the adjacent hop of a routing entry after it was created: return traffic of that "
                              "circuit follows `hop.address`, so it can be redirected away from the circuit's originator")
                continue
            flat = []
            for t in targets:
                flat.extend(t.elts if isinstance(t, (ast.Tuple, ast.List)) else [t])
            for t in flat:
                t = t.value if isinstance(t, ast.Starred) else t
                if not isinstance(t, (ast.Attribute, ast.Subscript)):
                    continue
                if isinstance(t, ast.Attribute) and t.attr == "hop":
                    n += 1
                    ok = fi.name == "__init__" and chain(t.value) == "self"
                    ctx.check(ok, "return-path-bound", fi, node, f"hop assigned in {fi.qualname} (constructor only)",
                              "the adjacent hop of a routing object is replaced after construction: its return traffic goes to a different node")
                elif _through_hop(fi, t.value):
                    n += 1
                    ctx.check(False, "return-path-bound", fi, node, "no store through a routing entry's hop",
                              f"`{norm(t)}` is assigned in {fi.qualname}: the adjacent hop (peer / address / keys) of an existing routing entry is changed "
                              "after the entry was created; replies of that circuit are sent to `hop.address`, so whoever triggers this store "
                              "(cells carry no replay protection) receives the circuit's return traffic instead of its originator")
    ctx.floor("return-path-bound.hop-fixed", n, 1)


def _generated_id(ctx: Ctx, k: ast.AST) -> bool:
    """k (expanded) is an id we generated ourselves: `self._generate_circuit_id()`, or such an id parked in our own request-cache entry"""
    k = strip_cast(k)
    if isinstance(k, ast.Call) and chain(k.func) == "self._generate_circuit_id":
        return True
    if not (isinstance(k, ast.Attribute) and isinstance(strip_cast(k.value), ast.Call)):
        return False
    look = strip_cast(k.value)
    if k.attr == "circuit_id":
        # Circuit(self._generate_circuit_id(), ...).circuit_id: a routing object keeps the id it was constructed with (return-path-bound)
        made = ctx.repo.resolve_class_expr(ctx.repo.module(TC), look.func)
        first = arg(look, 0, "circuit_id")
        if made is not None and made.is_subclass_of("RoutingObject") and first is not None and _generated_id(ctx, first):
            return True
    if chain(look.func) not in ("self.request_cache.pop", "self.request_cache.get") or not look.args:
        return False
    repo = ctx.repo
    tc = repo.module(TC)
    cls = repo.resolve_class_expr(tc, look.args[0])
    init = cls.lookup("__init__") if cls is not None else None
    if init is None or init.cls is not cls:
        return False
    param = None
    for stt, v, idx in [(a, a.value, None) for a in walk_no_nested(init.node) if isinstance(a, ast.Assign)]:
        for t in stt.targets:
            if isinstance(t, ast.Attribute) and chain(t.value) == "self" and t.attr == k.attr and isinstance(strip_cast(v), ast.Name):
                param = strip_cast(v).id
    names = init.params()
    if param is None or param not in names:
        return False
    pos = names.index(param) - 1
    ctors = [(c_fi, c) for _m, c_fi, c in repo.callers_of_name(cls.name) if c_fi is not None]
    if not ctors:
        return False
    for c_fi, c in ctors:
        a = arg(c, pos, param)
        if a is None:
            return False
        alts = _alternatives(c_fi, a)
        if not alts or not all(isinstance(x, ast.Call) and chain(x.func) == "self._generate_circuit_id" for x in alts):
            return False
    return True


RP_TABLE = "self.rendezvous_point_for"


def _sync_part(repo, f: FuncInfo, depth: int = 3, seen=None) -> list:
    """
    [(function, node)] for the syntax that RUNS while a (plain, not awaited) call of f runs: f's own statements, the bodies of the local
    functions / private steps / overridden-or-super methods it calls by a call expression - not what it merely hands on as a callback
    (add_done_callback / call_later / register_task operands, lambdas, local functions that are only named), and nothing of an `async def`
    (calling it only creates the coroutine).
    """
    seen = seen if seen is not None else set()
    if id(f.node) in seen or f.is_async or any(isinstance(n, (ast.Yield, ast.YieldFrom)) for n in walk_no_nested(f.node) if n is not f.node):
        return []
    seen.add(id(f.node))
    out = []
    for n in walk_no_nested(f.node):
        if n is f.node:
            continue
        out.append((f, n))
        if isinstance(n, ast.Call) and depth > 0:
            for g in repo.resolve_call(f, n):
                if isinstance(g, FuncInfo) and g.module.relpath.startswith(PKG) and g.node is not f.node:
                    out.extend(_sync_part(repo, g, depth - 1, seen))
    return out


def _drops_from(f: FuncInfo, n, table: str) -> bool:
    """node n (in f) takes entries out of `table`: T.pop / popitem / clear, `del T[k]`, or T rebuilt by an assignment"""
    def is_t(e) -> bool:
        return chain(resolve(f, strip_cast(e))) == table
    if isinstance(n, ast.Call) and isinstance(n.func, ast.Attribute) and n.func.attr in ("pop", "popitem", "clear"):
        return is_t(n.func.value)
    if isinstance(n, ast.Delete):
        return any(isinstance(t, ast.Subscript) and is_t(t.value) for t in n.targets)
    if isinstance(n, (ast.Assign, ast.AnnAssign)) and getattr(n, "value", None) is not None:
        tg = n.targets if isinstance(n, ast.Assign) else [n.target]
        return any(isinstance(t, ast.Attribute) and chain(t) == table for t in tg)
    return False


def rule_rendezvous_single_use(ctx: Ctx) -> None:
    """
    on_link_e2e splices the circuit a LINK-E2E cell arrived on into the rendezvous circuit registered under the cell's cookie: it stores
    relay_from_to[<rendezvous circuit id>] (the existing circuit's id - not an id the cell names, so `id not in T` does not apply).  That store
    replaces nothing only because a cookie links ONCE: the registration rendezvous_point_for[cookie] is gone when on_link_e2e returns - it drops
    it itself, or the remove_exit_socket it calls for the rendezvous circuit drops it while that call runs.  The exit sockets linger for
    remove_tunnel_delay (the removal proper is an async step), so a cleanup that only runs when the delayed removal is done leaves a window in
    which the same cookie, sent over ANY other circuit, passes every guard and re-points the relay entry of the linked circuit (seeded C05-m17).
    """
    repo = ctx.repo
    hc = repo.try_cls("HiddenTunnelCommunity", HS)
    ctx.anchor(hc, "HiddenTunnelCommunity")
    link = hc.lookup("on_link_e2e")
    ctx.anchor(link, "HiddenTunnelCommunity.on_link_e2e")
    part = _sync_part(repo, link)
    reads = [n for f, n in part if isinstance(n, (ast.Subscript, ast.Call)) and (
        (isinstance(n, ast.Subscript) and isinstance(n.ctx, ast.Load) and chain(resolve(f, strip_cast(n.value))) == RP_TABLE)
        or (isinstance(n, ast.Call) and isinstance(n.func, ast.Attribute) and n.func.attr in ("get", "pop")
            and chain(resolve(f, strip_cast(n.func.value))) == RP_TABLE))]
    ctx.anchor(reads or None, "lookup of rendezvous_point_for[cookie] in on_link_e2e")
    stores = [n for f, n in part if isinstance(n, ast.Subscript) and isinstance(n.ctx, ast.Store) and _table_of(chain(n)) == "relay_from_to"] + \
        [n for f, n in part if isinstance(n, ast.Call) and isinstance(n.func, ast.Attribute) and n.func.attr in ("update", "setdefault", "__setitem__")
         and chain(n.func.value) == "self.relay_from_to"]
    ctx.anchor(stores or None, "store into relay_from_to reached from on_link_e2e")
    own = [n for f, n in part if _drops_from(f, n, RP_TABLE)]
    via = []
    if not own:
        for f, n in part:
            if isinstance(n, ast.Call) and call_name(n) == "remove_exit_socket":
                for g in repo.resolve_call(f, n):
                    if isinstance(g, FuncInfo) and g.module.relpath.startswith(PKG):
                        via.extend((g, m) for g2, m in _sync_part(repo, g) if _drops_from(g2, m, RP_TABLE))
    where = "on_link_e2e itself" if own else (f"{via[0][0].qualname}, while the call made by on_link_e2e runs" if via else "")
    ctx.check(bool(own or via), "rendezvous-single-use", link, reads[0],
              f"the registration rendezvous_point_for[cookie] is dropped synchronously ({where}): a cookie links one circuit, once",
              "on_link_e2e stores relay_from_to[<id of the rendezvous circuit registered under the cookie>], but nothing that runs while on_link_e2e "
              "runs (its own body, the synchronous part of the remove_exit_socket it calls) takes the cookie out of rendezvous_point_for; the replaced "
              "exit sockets linger for remove_tunnel_delay, so a second LINK-E2E with the same cookie over any other circuit passes every guard and "
              "overwrites the relay entry of the already linked circuit: a cell on an unrelated circuit re-routes an existing one")


def rule_entry_conversion(ctx: Ctx) -> None:
    """
    A store into a routing table under an id that did not come off the wire (those are no-overwrite-live-id's) puts a NEW entry there only
    if the id is one we just generated, or converts an entry that exists under the same id in ANOTHER table (exit socket -> relay pair when
    the circuit is extended / linked): ids are unique over the three tables, so presence elsewhere proves that no live entry of the
    destination table is replaced.  Anything else can overwrite an established entry of a different circuit.
    """
    repo = ctx.repo
    n = 0
    for fi in _pkg_functions(repo):
        stores = _table_stores(fi)
        for st, t in stores:
            if _wire_controlled(ctx, fi, t.slice)[0]:
                n += 1
                ctx.instance("entry-conversion", fi.where, f"{norm(t)}: id taken from a message, decided by no-overwrite-live-id", line=st.lineno)
        stores = [(st, t) for st, t in stores if not _wire_controlled(ctx, fi, t.slice)[0]]
        if not stores:
            continue
        # a private helper is judged where it is used: the walks start in the functions that (transitively) call it
        entries, chain_of = [fi], [fi]
        for _ in range(3):
            if not all(e.name.startswith("_") and not e.name.startswith("__") for e in entries):
                break
            ups = [u for e in entries for u in _callers_within(repo, e)]
            if not ups or any(u is None or not u.module.relpath.startswith(PKG) for u in ups):
                break
            entries = list({id(u.node): u for u in ups}.values())
            chain_of.extend(entries)
        walks = [_try_walk(ctx, e, force=tuple(chain_of)) for e in entries]
        if any(w is None for w in walks):
            raise AnalysisError(f"undecided: entry-conversion: stores of {fi.qualname} could not be followed")
        for st, t in stores:
            dest = TABLES[_table_of(chain(t))]
            others = tuple(c for c in TABLES.values() if c != dest)
            hits = [h for w in walks for h in w.hits if h.kind == "store" and h.orig is t]

            def path_ok(h: _Hit, others=others) -> bool:
                k = strip_cast(h.node().slice)
                if _generated_id(ctx, k):
                    return True
                key = norm(k)
                if any(_present(f, others, lambda x: norm(x) == key) for f in h.facts()):
                    return True
                # the id is read off an entry of another table (an entry is stored under its own circuit_id)
                if isinstance(k, ast.Attribute) and k.attr == "circuit_id" and _entry_of(k.value, others, lambda x: True):
                    ent = strip_cast(k.value)
                    return isinstance(ent, ast.Subscript) or any(_present(f, others, lambda x: True) and norm(strip_cast(f.left)) == norm(ent)
                                                                 for f in h.facts() if f.op in ("truthy", "is", "eq"))
                return False

            n += max(1, len({norm(h.node().slice) for h in hits}))
            _decide(ctx, "entry-conversion", fi, st, False, hits, path_ok,
                    f"store {norm(t)}: fresh id of our own, or conversion of the entry that exists under that id in another table",
                    f"`{norm(t)}` is stored on a path where its id is neither freshly generated nor known to be an existing "
                    f"{'/'.join(o.split('.')[-1] for o in others)} entry that is being converted: a late or repeated message can replace an "
                    f"established {dest.split('.')[-1]} entry, re-routing a circuit that belongs to somebody else")
    ctx.floor("entry-conversion", n, 6)


def _violation_at(ctx: Ctx, rule: str, fi: FuncInfo, construct: str, line: int, reason: str) -> None:
    """ctx.violation for a finding whose identity is a description (stable under reshaping of the statement) but which still names its line"""
    from ..core import Finding
    f = Finding(ctx.prop, ctx.rule_id(rule), fi.where, construct, reason, line)
    if f.key() not in {g.key() for g in ctx.findings}:
        ctx.findings.append(f)


def _ancestors_of(n):
    from ..model import ancestors
    return ancestors(n)


VERIFY_STEP = "verify_and_generate_shared_secret"
PLAINTEXT_HANDLERS = ("on_created", "on_extended")


def rule_unkeyed_teardown(ctx: Ctx) -> None:
    """
    CREATED / EXTENDED travel as plaintext cells: whoever knows (or guesses) the 16-bit identifier of a pending retry cache reaches on_created /
    on_extended and what they call without holding any key of the circuit.  The only thing in those handlers that needs the keys is the handshake
    verification (verify_and_generate_shared_secret checks the authenticator against our own DH secret).  So a routing entry may be removed there
    only on paths on which that verification has COMPLETED normally; the except-handler of the verification step itself is entered by its
    exceptional edge, i.e. for exactly the cells that were not made with the keys.  (Replacing an exit socket by the relay pair stored under the
    same id is a conversion, not a teardown: entry-conversion decides it.)
    """
    repo = ctx.repo
    tc = repo.cls("TunnelCommunity", TC)
    handlers = [m for m in (tc.lookup(n) for n in PLAINTEXT_HANDLERS) if m is not None]
    ctx.anchor(len(handlers) == len(PLAINTEXT_HANDLERS) or None, "TunnelCommunity.on_created / on_extended")

    def denoted(f: FuncInfo, c) -> list:
        """
        what the callee expression of call c may denote: every definition of a local it is read from (`verify = self.crypto.verify_...`,
        also bound together with others in one tuple assignment), every row of a literal table it is picked from
        (`{STATE: self._step_a, ...}.get(state)`), the function a functools.partial object was built around
        """
        out = []
        todo = [x for a in _alternatives(f, c.func) for x in _callee_alternatives(a)]
        while todo and len(out) < 32:
            x = strip_cast(todo.pop())
            if isinstance(x, ast.Call) and _last(chain(x.func)) == "partial" and x.args and not isinstance(x.args[0], ast.Starred):
                todo.extend(y for a in _alternatives(f, x.args[0]) for y in _callee_alternatives(a))
            elif isinstance(x, ast.Constant) and x.value is None:
                continue                    # (calling None raises: no path goes on from there)
            else:
                out.append(x)
        return out

    def is_verify(f: FuncInfo, c) -> bool:
        """the call runs the handshake verification, under whatever local name the bound method is held"""
        if call_name(c) == VERIFY_STEP:
            return True
        if not isinstance(strip_cast(c.func), (ast.Name, ast.Call)):
            return False
        ds = denoted(f, c)
        return bool(ds) and all(isinstance(x, ast.Attribute) and x.attr == VERIFY_STEP for x in ds)

    def step_targets(f: FuncInfo, c) -> list:
        """functions of the repository the call may enter, also through a local / a table row / a partial object holding a bound method"""
        out = list(repo.resolve_call(f, c))
        if isinstance(strip_cast(c.func), (ast.Name, ast.Call, ast.Subscript)):
            for x in denoted(f, c):
                if isinstance(x, ast.Attribute) and isinstance(x.value, ast.Name) and x.value.id == "self" and f.cls is not None:
                    for g in repo.dispatch(f.cls, x.attr):
                        if g not in out:
                            out.append(g)
        return out

    def verifies(f: FuncInfo, seen: frozenset = frozenset()) -> list:
        """statement nodes of f whose normal completion means the handshake verification completed"""
        cfg = ctx.cfg(f)
        out = []
        for c in calls(f):
            if is_verify(f, c):
                out.extend(cfg.nodes_for(c))
                continue
            if call_name(c) in REMOVERS or f.qualname in seen or len(seen) > 3:
                continue
            for g in repo.resolve_call(f, c):
                # a private step that cannot return normally without having completed the verification is the verification
                if isinstance(g, FuncInfo) and g.module.relpath.startswith(PKG) and g.node is not f.node and not g.is_async \
                        and any(is_verify(g, k) for k in calls(g)) and len(repo.resolve_call(f, c)) == 1:
                    gcfg = ctx.cfg(g)
                    inner = verifies(g, seen | {f.qualname})
                    if inner and gcfg.exit not in gcfg.reach(cut_out_normal=inner):
                        out.extend(cfg.nodes_for(c))
        return out

    def removal_sites(f: FuncInfo) -> list:
        out = [(c, call_name(c)) for c in calls(f) if call_name(c) in REMOVERS]
        for c in calls(f):
            ch = chain(c.func) or ""
            if call_name(c) in ("pop", "popitem", "clear") and any(ch.startswith(p + ".") for p in _DICT_TABLES):
                out.append((c, ch))
        for st in walk_no_nested(f.node):
            if isinstance(st, ast.Delete) and any(_table_of(chain(t)) for t in st.targets if isinstance(t, ast.Subscript)):
                out.append((st, "del"))
        return out

    def conversion(f: FuncInfo, c, name: str) -> bool:
        """remove_exit_socket(K) that is always followed by a store of a relay route under the same K"""
        if name != "remove_exit_socket" or not isinstance(c, ast.Call):
            return False
        k = arg(c, 0, "circuit_id")
        if k is None:
            return False
        key = norm(resolve(f, strip_cast(k)))
        cfg = ctx.cfg(f)
        targets = [x for st, t in _table_stores(f) if _table_of(chain(t)) == "relay_from_to" and norm(resolve(f, strip_cast(t.slice))) == key
                   for x in cfg.nodes_for(st)]
        if targets and all(cfg.always_followed_by(x, targets) for x in cfg.nodes_for(c)):
            return True
        # per path (the stores may sit in a loop over a literal sequence of (id, route) pairs, which the walk unrolls): behind every execution
        # of the removal a relay route is stored under the id that was removed, under exactly the same decisions
        w = _try_walk(ctx, f)
        if w is None:
            return False
        rs = [(i, h) for i, h in enumerate(w.hits) if h.kind == "call" and h.orig is c]

        def decided(h):
            return [(norm(a), bool(p)) for a, p in h.st.conds]

        def removed_key(h):
            a = arg(h.node(), 0, "circuit_id") if isinstance(h.node(), ast.Call) else None
            return norm(strip_cast(a)) if a is not None else None

        return bool(rs) and all(removed_key(h) is not None and any(
            j > i and g.kind == "store" and isinstance(g.orig, ast.Subscript) and _table_of(chain(g.orig)) == "relay_from_to"
            and norm(strip_cast(g.node().slice)) == removed_key(h) and decided(g) == decided(h)
            for j, g in enumerate(w.hits)) for i, h in rs)

    n = 0
    seen_v = False
    done: set = set()

    def visit(f: FuncInfo, verified: bool, via: tuple) -> None:
        nonlocal n, seen_v
        if verified or (f.qualname, verified) in done or len(via) > 4:
            return              # (everything a step does that is only entered after a completed verification is after it)
        done.add((f.qualname, verified))
        cfg = ctx.cfg(f)
        vs_all = verifies(f)
        seen_v = seen_v or bool(vs_all)
        everything = cfg.reach()
        # `with <context manager of the repository>:` - the graph lets a failure inside the block leave the function, but a manager that swallows
        # it lets execution go on behind the block: a verification step inside such a block proves nothing about the code behind it ...
        managed = []            # (with statement, parts, nodes of its body)
        for wn in [x for x in walk_no_nested(f.node) if isinstance(x, (ast.With, ast.AsyncWith))]:
            for item in wn.items:
                parts = _context_manager_parts(repo, f, item.context_expr)
                if parts:
                    managed.append((wn, item, parts, [x for s_ in wn.body for y in walk_no_nested(s_) for x in cfg.nodes_for(y)]))
        hidden = {id(x) for _wn, _it, parts, body in managed if any(sw for *_r, sw in parts) for x in body}
        vs = [x for x in vs_all if id(x) not in hidden]
        # ... unless the code behind it tests a local that is None from the start and is only ever assigned after the verification completed
        witness = set()
        for nm in {x.id for x in walk_no_nested(f.node) if isinstance(x, ast.Name) and isinstance(x.ctx, ast.Store)} - set(f.params()):
            defs = local_defs(f, nm)
            if not defs or any(v is None for _s, v, _i in defs) or any(isinstance(x, (ast.NamedExpr, ast.For, ast.AsyncFor, ast.comprehension))
                                                                       and nm in {y.id for y in ast.walk(x.target) if isinstance(y, ast.Name)}
                                                                       for x in ast.walk(f.node) if hasattr(x, "target")):
                continue
            nones = [d for d in defs if d[2] is None and _is_none(strip_cast(d[1]))]
            rest = [d for d in defs if d not in nones]
            if nones and rest and vs_all and all(all(cfg.must_complete(x, vs_all) for x in cfg.nodes_for(st_)) and cfg.nodes_for(st_) for st_, _v, _i in rest):
                witness.add(nm)

        def witnessed(x) -> bool:
            for fct in facts_at(cfg, x):
                l = strip_cast(fct.left)
                if isinstance(l, ast.Name) and l.id in witness and (
                        (fct.op == "truthy" and fct.pos) or (fct.op in ("is", "eq") and fct.right is not None and _is_none(strip_cast(fct.right)) and not fct.pos)):
                    return True
            return False

        def after(node) -> bool:
            ns = [x for x in cfg.nodes_for(node) if x in everything]
            if verified or not ns:
                return True
            return all((bool(vs) and cfg.must_complete(x, vs)) or witnessed(x) for x in ns)

        handled_cm_calls = set()
        for wn, item, parts, body in managed:
            in_body = any(id(x) in {id(v) for v in vs_all} for x in body)
            for kind, owner, hnode, htype, _sw in parts:
                if not (owner.cls is not None and (owner.cls is tc or owner.cls.is_subclass_of("TunnelCommunity") or tc.is_subclass_of(owner.cls.name))):
                    continue
                handled_cm_calls.add(id(strip_cast(resolve(f, item.context_expr))))
                scope = hnode if kind == "handler" else owner.node
                for rc in [k for k in calls(scope, nested=True) if call_name(k) in REMOVERS]:
                    n += 1
                    desc = (f"`{norm(rc)[:60]}` of context manager {owner.qualname} around `{norm(wn.body[0])[:40]}` runs only after the handshake "
                            "verification completed normally")
                    if not in_body and after(wn):
                        ctx.instance("unkeyed-teardown", f.where, desc, line=wn.lineno)
                        continue
                    short = call_name(rc)
                    if in_body and kind == "handler":
                        ht = hnode.type
                        if isinstance(ht, ast.Name) and ht.id in owner.params() and isinstance(strip_cast(resolve(f, item.context_expr)), ast.Call):
                            bound_t = arg(strip_cast(resolve(f, item.context_expr)), owner.params().index(ht.id) - (1 if owner.cls is not None else 0), ht.id)
                            ht = bound_t if bound_t is not None else ht
                        construct = f"{short} in except {norm(ht) if ht is not None else ''} of the handshake verification".replace("  ", " ")
                    else:
                        construct = head(rc)
                    ctx.instance("unkeyed-teardown", f.where, desc, ok=False, line=wn.lineno)
                    _violation_at(ctx, "unkeyed-teardown", f if in_body and kind == "handler" else owner, construct, wn.lineno,
                                  f"`{norm(rc)[:80]}` (context manager {owner.qualname}, used by {f.qualname} around `{norm(wn.body[0])[:50]}`) is reached "
                                  f"from the plaintext handler {via[0] if via else f.qualname} on a path on which {VERIFY_STEP} has not completed normally: "
                                  "CREATED / EXTENDED are plaintext cells, so a third party that names the circuit id and the pending 16-bit identifier - "
                                  "without any key of the circuit - tears the circuit down")

        for c, name in removal_sites(f):
            if not [x for x in cfg.nodes_for(c) if x in everything]:
                continue
            n += 1
            if conversion(f, c, name):
                ctx.instance("unkeyed-teardown", f.where, f"`{norm(c)[:70]}` converts the exit socket into the relay pair stored under the same id "
                             "(entry-conversion)", line=c.lineno)
                continue
            ok = after(c)
            desc = f"`{norm(c)[:70]}` runs only after the handshake verification completed normally (entered via {' <- '.join(via) or f.qualname})"
            if ok:
                ctx.instance("unkeyed-teardown", f.where, desc, line=c.lineno)
                continue
            # the finding is named by what is removed and by where it stands relative to the verification, not by the statement's text
            h = next((a for a in _ancestors_of(c) if isinstance(a, ast.ExceptHandler)), None)
            t = getattr(h, "_parent", None) if h is not None else None
            short = name.rsplit(".", 1)[-1] if name != "del" else "del"
            if isinstance(t, ast.Try) and any(x in vs for s_ in t.body for x in cfg.nodes_for(s_)) or \
                    (isinstance(t, ast.Try) and any(is_verify(f, k) for s_ in t.body for k in calls(s_))):
                construct = f"{short} in except {norm(h.type) if h.type is not None else ''} of the handshake verification".replace("  ", " ")
            else:
                construct = head(c)
            ctx.instance("unkeyed-teardown", f.where, desc, ok=False, line=c.lineno)
            _violation_at(ctx, "unkeyed-teardown", f, construct, c.lineno,
                          f"`{norm(c)[:80]}` in {f.qualname} is reached from the plaintext handler {via[0] if via else f.qualname} on a path on which "
                          f"{VERIFY_STEP} has not completed normally"
                          + (" (the except-handler of the verification step is entered for exactly the cells that fail it)" if h is not None else "")
                          + ": CREATED / EXTENDED are plaintext cells, so a third party that names the circuit id and the pending 16-bit identifier - "
                          "without any key of the circuit - tears the circuit down")
        for c in calls(f):
            if call_name(c) in REMOVERS or id(c) in handled_cm_calls:
                continue
            if not [x for x in cfg.nodes_for(c) if x in everything]:
                continue
            for g in step_targets(f, c):
                if not (isinstance(g, FuncInfo) and g.module.relpath.startswith(PKG)) or g.node is f.node:
                    continue
                if g.cls is not None and not (g.cls is tc or g.cls.is_subclass_of("TunnelCommunity") or tc.is_subclass_of(g.cls.name)):
                    continue            # another object's method: it has no access to this community's tables except through remove_* calls on it
                visit(g, after(c), (*via, g.qualname))

    for hfn in handlers:
        visit(hfn, False, (hfn.qualname,))
    ctx.anchor(seen_v or None, f"{VERIFY_STEP} reached from on_created / on_extended")
    ctx.floor("unkeyed-teardown", n, 2)


def rule_interception(ctx: Ctx) -> None:
    """
    Cells reach the community's handlers only after PythonCryptoEndpoint.on_packet / process_cell removed their layers with the circuit's
    keys.  That holds because setup_tunnels() detaches the community from - and attaches the decrypting listener to - the endpoint the
    crypto endpoint WRAPS.  The community itself was registered (Community.__init__) on `self.endpoint`; so the wrapped endpoint has to be
    that very object.  Wrapping a part of it (one interface of a DispatcherEndpoint) leaves the community a direct listener on the other
    interfaces, where any datagram carrying the prefix is dispatched to the cell handlers without a single key being used.
    """
    repo = ctx.repo
    tc = repo.cls("TunnelCommunity", TC)
    family = {id(c.node) for c in [tc, *tc.all_subclasses()]}
    sites = [(fi, c) for _m, fi, c in repo.callers_of_name("PythonCryptoEndpoint") if fi is not None and fi.module.relpath.startswith(PKG)
             and not (fi.cls is not None and fi.cls.name == "PythonCryptoEndpoint")]
    via_walk: dict = {}
    if not sites:
        # the class may be called through a local / a table it was put in: the calls of __init__ whose callee denotes it
        init = tc.lookup("__init__")
        w0 = _try_walk(ctx, init) if init is not None and init.cls is tc else None
        for h in (w0.hits if w0 is not None else []):
            if h.kind == "call" and any(_last(chain(f)) == "PythonCryptoEndpoint" for f in h.funcs()):
                via_walk.setdefault(id(h.orig), (init, h.orig, []))[2].append(h)
        sites = [(f_, c_) for f_, c_, _hs in via_walk.values()]
    ctx.anchor(sites, "construction of the PythonCryptoEndpoint that intercepts the community's packets")
    reason = ("the PythonCryptoEndpoint is built around `{a}` instead of the endpoint the community is registered on (`self.endpoint`): setup_tunnels() "
              "removes the community as a listener of the wrapped endpoint only, so on every other interface of `self.endpoint` the community still "
              "receives datagrams directly and hands cells naming a known circuit id to its handlers without any decryption - no keys needed")
    for fi, c in sites:
        first = arg(c, 0, "endpoint")
        d_ok = first is not None and not isinstance(first, ast.Starred) and norm(strip_cast(resolve(fi, strip_cast(first)))) == "self.endpoint" \
            and fi.cls is not None and id(fi.cls.node) in family
        hits = None
        if id(c) in via_walk:
            d_ok, hits = False, via_walk[id(c)][2]
        elif not d_ok:
            # per path (a local that is the whole endpoint on one path and one interface on another; construction moved into a helper)
            entries, chain_of = [fi], [fi]
            for _ in range(3):
                if not all(e.name.startswith("_") and not e.name.startswith("__") for e in entries):
                    break
                ups = [u for e in entries for u in _callers_within(repo, e)]
                if not ups or any(u is None or not u.module.relpath.startswith(PKG) for u in ups):
                    break
                entries = list({id(u.node): u for u in ups}.values())
                chain_of.extend(entries)
            if not all(e.cls is not None and id(e.cls.node) in family for e in entries):
                raise AnalysisError(f"undecided: interception: PythonCryptoEndpoint is constructed in {fi.qualname}, which is not reached from TunnelCommunity only")
            walks = [_try_walk(ctx, e, force=tuple(x for x in chain_of if x is not e)) for e in entries]
            if any(w is None for w in walks):
                raise AnalysisError(f"undecided: interception: construction of PythonCryptoEndpoint in {fi.qualname} could not be followed")
            hits = [h for w in walks for h in w.hits if h.orig is c]

        def path_ok(h: _Hit) -> bool:
            n = h.node()
            a = arg(n, 0, "endpoint") if isinstance(n, ast.Call) else None
            if a is None or isinstance(a, ast.Starred):
                return False
            a = strip_cast(a)
            if norm(a) == "self.endpoint":
                return True
            # `settings.endpoint` inside __init__(self, settings): Overlay.__init__ makes exactly that object self.endpoint
            top = h.st.frames[0].fi
            if isinstance(a, ast.Attribute) and a.attr == "endpoint" and isinstance(a.value, ast.Name) and top.name == "__init__" \
                    and a.value.id in top.params()[1:] and not local_defs(top, a.value.id):
                ann = next((p.annotation for p in top.node.args.args if p.arg == a.value.id), None)
                return ann is not None and "Settings" in norm(ann)
            return False

        shown = norm(resolve(fi, strip_cast(first))) if first is not None else "?"
        _decide(ctx, "keys-required", fi, c, True if d_ok else None, hits, path_ok,
                "the decrypting endpoint wraps the endpoint the community is registered on (self.endpoint)", reason.format(a=shown))


def run(ctx: Ctx) -> None:
    _ensure_sentinels(ctx.repo)
    rule_interception(ctx)
    rule_authenticated_accounting(ctx)
    rule_unkeyed_circuit(ctx)
    rule_outgoing_keys(ctx)
    rule_destroy(ctx)
    rule_no_overwrite(ctx)
    rule_data_origin(ctx)
    rule_return_path(ctx)
    rule_removers(ctx)
    rule_auth_failure_inert(ctx)
    rule_hop_fixed(ctx)
    rule_entry_conversion(ctx)
    rule_unkeyed_teardown(ctx)
    rule_rendezvous_single_use(ctx)
    ctx.assume("no shared mutable state between circuits besides the three routing tables and request caches (structural argument; interleavings not explored)")
    ctx.assume("collision of locally generated 32-bit ids with relay/exit ids is a 2^-32 event and not decided")


WITNESSES = [
    {"name": "rendezvous cookie forgotten only when the delayed exit-socket removal is done (seeded C05-m17)", "file": HS, "rule": "rendezvous-single-use",
     "old": "        for cookie, rendezvous_circuit in list(self.rendezvous_point_for.items()):\n"
            "            if rendezvous_circuit.circuit_id == circuit_id:\n"
            "                self.rendezvous_point_for.pop(cookie)\n\n"
            "        return super().remove_exit_socket(circuit_id, additional_info, remove_now, destroy)\n",
     "new": "        def forget_rendezvous(_: object) -> None:\n"
            "            for cookie, rendezvous_circuit in list(self.rendezvous_point_for.items()):\n"
            "                if rendezvous_circuit.circuit_id == circuit_id:\n"
            "                    self.rendezvous_point_for.pop(cookie)\n\n"
            "        removal = super().remove_exit_socket(circuit_id, additional_info, remove_now, destroy)\n"
            "        removal.add_done_callback(forget_rendezvous)\n"
            "        return removal\n"},
    {"name": "relay passes a destroy on before the adjacency test (seeded C05-m15)", "file": TC, "rule": "destroy-authorised",
     "old": "        if prev_relay and peer == prev_relay.hop.peer:\n",
     "new": "        if next_relay and payload.reason:\n            self.destroy_relay(circuit_id, reason=payload.reason)\n"
            "        if prev_relay and peer == prev_relay.hop.peer:\n"},
    {"name": "repaired twin of the known finding: a failed handshake verification only logs and returns", "kind": "twin", "file": TC,
     "rule": "unkeyed-teardown", "at": "_ours_on_created_extended", "construct": "remove_circuit",
     "old": "            self.remove_circuit(circuit.circuit_id, \"error while verifying shared secret\")\n            return\n",
     "new": "            self.logger.warning(\"Handshake verification failed for circuit %d, dropping the answer\", circuit_id)\n            return\n"},
    {"name": "second removal without a completed verification (no unverified hop -> remove_circuit) next to the known one", "file": TC,
     "rule": "unkeyed-teardown",
     "old": "            self.logger.error(\"Can't extend circuit %d (no unverified hop)\", circuit_id)\n            return\n",
     "new": "            self.logger.error(\"Can't extend circuit %d (no unverified hop)\", circuit_id)\n"
            "            self.remove_circuit(circuit_id, \"no unverified hop\")\n            return\n"},
    {"name": "cells accepted for a circuit without keys (defect fixed by 3cadd29)", "file": "ipv8/messaging/anonymization/crypto.py", "rule": "keys-required",
     "old": """        if circuit and not circuit.hops and not cell.plaintext:
            self.logger.debug("Got encrypted cell for circuit %d, which has no session keys yet", circuit_id)
            return None

""", "new": ""},
    {"name": "cell for a circuit id without any routing entry is handed to send_cell unencrypted (seeded C05-m14)",
     "file": "ipv8/messaging/anonymization/crypto.py", "rule": "keys-required",
     "old": "                self.logger.warning(\"Dropping outgoing cell for unknown circuit %d\", circuit_id)\n                return None\n",
     "new": "                self.logger.debug(\"Outgoing cell for unknown circuit %d\", circuit_id)\n"},
    {"name": "decrypting endpoint wraps one interface only, the community stays a direct listener on the others (seeded C05-m12)", "file": TC,
     "rule": "keys-required",
     "old": "CryptoEndpoint) else PythonCryptoEndpoint(self.endpoint)", "new": "CryptoEndpoint) else PythonCryptoEndpoint(ipv4_endpoint)"},
    {"name": "pre-fix: join_circuit overwrites live id", "file": TC, "rule": "no-overwrite-live-id",
     "old": "        if circuit_id in self.circuits or circuit_id in self.relay_from_to or circuit_id in self.exit_sockets:\n            self.logger.warning(\"Refusing to join circuit %d: circuit id is already in use\", circuit_id)\n            return\n",
     "new": ""},
    {"name": "live-id check misses relay table", "file": TC, "rule": "no-overwrite-live-id",
     "old": "if circuit_id in self.circuits or circuit_id in self.relay_from_to or circuit_id in self.exit_sockets:",
     "new": "if circuit_id in self.circuits or circuit_id in self.exit_sockets:"},
    {"name": "destroy of exit socket unauthenticated neighbour", "file": TC, "rule": "destroy-authorised",
     "old": "        elif circuit_id in self.exit_sockets and peer == self.exit_sockets[circuit_id].hop.peer:",
     "new": "        elif circuit_id in self.exit_sockets:"},
    {"name": "destroy of circuit compares address only", "file": TC, "rule": "destroy-authorised",
     "old": "        elif circuit_id in self.circuits and peer == self.circuits[circuit_id].hop.peer:",
     "new": "        elif circuit_id in self.circuits and source_address == self.circuits[circuit_id].hop.address:"},
    {"name": "relay destroy checks wrong side", "file": TC, "rule": "destroy-authorised",
     "old": "        if prev_relay and peer == prev_relay.hop.peer:", "new": "        if next_relay and prev_relay and peer == next_relay.hop.peer:"},
    {"name": "on_destroy made unsigned", "rule": "destroy-authorised",
     "edits": [{"file": TC, "old": "    @lazy_wrapper(DestroyPayload)\n    def on_destroy(self, peer: Peer, payload: DestroyPayload) -> None:",
                "new": "    @lazy_wrapper_unsigned(DestroyPayload)\n    def on_destroy(self, peer: Peer, payload: DestroyPayload) -> None:"},
               {"file": TC, "old": "from ...lazy_community import lazy_wrapper\n", "new": "from ...lazy_community import lazy_wrapper, lazy_wrapper_unsigned\n"}]},
    {"name": "create-window check removed", "file": TC, "rule": "create-window",
     "old": "        if self.request_cache.has(CreatedRequestCache, payload.circuit_id):\n            self.logger.warning(\"Already have a request for circuit %d\", payload.circuit_id)\n            return\n",
     "new": ""},
    {"name": "data accepted from any sender", "file": TC, "rule": "data-origin",
     "old": "if circuit and origin and sock_addr == circuit.hop.address:", "new": "if circuit and origin:"},
    {"name": "return path uses caller-supplied circuit", "file": "ipv8/messaging/anonymization/exit_socket.py", "rule": "return-path-bound",
     "old": "self.overlay.send_data(self.hop.address, self.circuit_id, (\"0.0.0.0\", 0), source, data)",
     "new": "self.overlay.send_data(self.hop.address, self.overlay.exit_sockets and next(iter(self.overlay.exit_sockets)), (\"0.0.0.0\", 0), source, data)"},
    {"name": "new table writer", "file": TC, "rule": "table-writers",
     "old": "        exit_socket = self.exit_sockets.get(payload.circuit_id)\n        if exit_socket:\n            exit_socket.beat_heart()\n\n        self.send_cell(source_address, PongPayload",
     "new": "        exit_socket = self.exit_sockets.get(payload.circuit_id)\n        if exit_socket:\n            exit_socket.beat_heart()\n            self.exit_sockets[payload.identifier] = exit_socket\n\n        self.send_cell(source_address, PongPayload"},
    {"name": "unwrap takes circuit id from body", "file": "ipv8/messaging/anonymization/payload.py", "rule": "return-path-bound",
     "old": "                         pack(\"!I\", self.circuit_id),\n                         self.message[1:]])",
     "new": "                         self.message[1:5],\n                         self.message[5:]])"},
    {"name": "handshake authentication failure tears the circuit down", "file": TC, "rule": "auth-failure-inert",
     "old": "        except ValueError:\n            self.remove_circuit(circuit.circuit_id, \"error while verifying shared secret\")",
     "new": "        except Exception:\n            self.remove_circuit(circuit.circuit_id, \"error while verifying shared secret\")"},
    {"name": "create admission evicts an existing relay", "file": TC, "rule": "create-changes-nothing",
     "old": "            self.logger.warning(\"Too many relays (%d)\", (len(self.relay_from_to) + len(self.exit_sockets)))\n            return False\n",
     "new": "            self.logger.warning(\"Too many relays (%d)\", (len(self.relay_from_to) + len(self.exit_sockets)))\n            self.remove_relay(next(iter(self.relay_from_to)), \"make room\")\n"},
    {"name": "exit socket's previous hop follows the source address of an accepted cell (seeded C05-m9)", "file": "ipv8/messaging/anonymization/crypto.py",
     "rule": "return-path-bound",
     "old": "        circuit = self.circuits.get(cell.circuit_id)\n        if circuit:\n            circuit.beat_heart()\n            circuit.bytes_down += len(data)\n",
     "new": "        circuit = self.circuits.get(cell.circuit_id)\n        if circuit:\n            circuit.beat_heart()\n            circuit.bytes_down += len(data)\n"
            "        exit_socket = self.exit_sockets.get(cell.circuit_id)\n        if exit_socket and exit_socket.hop.address != source_address:\n"
            "            exit_socket.hop.peer.address = source_address\n"},
    {"name": "hop of an exit socket replaced by the ping handler", "file": TC, "rule": "return-path-bound",
     "old": "        exit_socket = self.exit_sockets.get(payload.circuit_id)\n        if exit_socket:\n            exit_socket.beat_heart()\n\n        self.send_cell(source_address, PongPayload",
     "new": "        exit_socket = self.exit_sockets.get(payload.circuit_id)\n        if exit_socket:\n            exit_socket.beat_heart()\n            exit_socket.hop = Hop(Peer(exit_socket.hop.peer.public_key, source_address), exit_socket.hop.keys)\n\n        self.send_cell(source_address, PongPayload"},
    {"name": "late CREATED re-routes an established relay (seeded C05-m7)", "file": TC, "rule": "entry-conversion",
     "old": "            if request.from_circuit_id not in self.exit_sockets:\n                self.logger.info(\"Created for unknown exit socket %s\", request.from_circuit_id)\n                return\n            session_keys = self.exit_sockets[request.from_circuit_id].hop.keys\n",
     "new": "            previous = self.exit_sockets.get(request.from_circuit_id) or self.relay_from_to.get(request.from_circuit_id)\n            if previous is None:\n                self.logger.info(\"Created for unknown exit socket %s\", request.from_circuit_id)\n                return\n            session_keys = previous.hop.keys\n"},
    {"name": "ping handler removes an exit entry", "file": TC, "rule": "table-removers",
     "old": "        exit_socket = self.exit_sockets.get(payload.circuit_id)\n        if exit_socket:\n            exit_socket.beat_heart()\n\n        self.send_cell(source_address, PongPayload",
     "new": "        exit_socket = self.exit_sockets.get(payload.circuit_id)\n        if exit_socket:\n            exit_socket.beat_heart()\n        else:\n            self.remove_exit_socket(payload.identifier)\n\n        self.send_cell(source_address, PongPayload"},
]
