"""C09 - Tunnel state is always reclaimed, whatever gets lost."""
from __future__ import annotations

import ast

from ..core import Ctx

from ..localnames import load_table
from ..match import Fact, arg, call_name, calls, fact_of, facts_at, is_param, local_defs, rchain, resolve, single_def, stores
from ..model import AnalysisError, FuncInfo, chain, clone, const_value, enclosing_stmt, norm, set_parents, strip_cast, walk_no_nested

LEVEL = "other"
EXPLANATION = (
    "Reclamation does not depend on any message arriving: do_remove sweeps a copy of each of the three tables with an "
    "inactivity (and age) test on every element, do_circuits calls it on every path and is registered with a positive "
    "interval; every remove_* reaches the table pop on every normal path after its bounded sleep, the exit variant closes "
    "the socket and its task manager; destroy is forwarded on exactly the far side; join limit; relay_early budget on the "
    "relay and the originator (decided on the CFG under the assumption 'flag set and budget used up', so extra conjuncts are "
    "seen); the build retry count strictly decreases and gives up by removing the circuit, and the retry cache is released "
    "only for a READY circuit, after the hop's answer was verified, or when a new one is armed / the circuit removed; entries leave "
    "exit_sockets only through remove_exit_socket (the one place that closes the outside sockets). Conditions are decided on the "
    "CFG under assumptions (any spelling, aliases, decide-then-act, helpers, unrolled literal loops). The time bound itself and loss "
    "patterns are not explored (timers/schedules)."
)

TC = "ipv8/messaging/anonymization/community.py"
CR = "ipv8/messaging/anonymization/crypto.py"
CA = "ipv8/messaging/anonymization/caches.py"

SWEEP = {
    "self.circuits": ("remove_circuit", True),
    "self.relay_from_to": ("remove_relay", False),
    "self.exit_sockets": ("remove_exit_socket", True),
}


# ------------------------------------------------------------------------------------ spelling-independent guards
def _clone(n):
    """Copy of an expression tree over its syntactic fields only (the engine's parent links are not followed)."""
    if isinstance(n, ast.AST):
        return n.__class__(**{f: _clone(getattr(n, f, None)) for f in n._fields})
    if isinstance(n, list):
        return [_clone(x) for x in n]
    return n


class _Expand(ast.NodeTransformer):
    """Replace single-assignment locals by their defining expression and drop cast(); used on a deep copy only."""

    def __init__(self, fi: FuncInfo, depth: int = 3) -> None:
        self.fi, self.depth = fi, depth

    def visit_Call(self, n: ast.Call):
        s = strip_cast(n)
        if s is not n:
            return self.visit(s)
        return self.generic_visit(n)

    def visit_Name(self, n: ast.Name):
        if not isinstance(n.ctx, ast.Load) or self.depth <= 0:
            return n
        d = single_def(self.fi, n.id)
        if d is None or d[1] is not None:
            return n
        v = strip_cast(d[0])
        if any(isinstance(x, (ast.Await, ast.Yield, ast.YieldFrom, ast.NamedExpr, ast.Lambda)) for x in ast.walk(v)):
            return n
        return _Expand(self.fi, self.depth - 1).visit(_clone(v))


def _texts(fi: FuncInfo, e: ast.AST | None) -> list[str]:
    """Spellings of e: as written (cast-free) and with local aliases expanded (`delay = self.settings.x` ... `delay`)."""
    if e is None:
        return [""]
    out = [norm(strip_cast(e))]
    t = norm(_Expand(fi).visit(_clone(e)))
    if t not in out:
        out.append(t)
    return out


def _expand_text(fi: FuncInfo, text: str) -> str:
    return _texts(fi, ast.parse(text, mode="eval").body)[-1] if text else text


class _Key(tuple):
    """Canonical key of an atomic condition (a plain tuple for dict lookups) that remembers how it was declared."""
    raw = None          # (op, left text, right text, integer)
    flip = None         # for `lt`: the key of the opposite strict inequality shifted by one (equivalent over the integers)


def _parse(text: str):
    try:
        return ast.parse(text, mode="eval").body
    except SyntaxError:
        return None


def _lin(e: ast.AST, sign: int, terms: dict, k: list) -> None:
    """e as a signed sum: terms[text] += sign, numeric constants are added up in k[0]."""
    e = strip_cast(e)
    if isinstance(e, ast.BinOp) and isinstance(e.op, (ast.Add, ast.Sub)):
        _lin(e.left, sign, terms, k)
        _lin(e.right, sign if isinstance(e.op, ast.Add) else -sign, terms, k)
        return
    if isinstance(e, ast.UnaryOp) and isinstance(e.op, (ast.USub, ast.UAdd)):
        _lin(e.operand, -sign if isinstance(e.op, ast.USub) else sign, terms, k)
        return
    if isinstance(e, ast.Constant) and isinstance(e.value, (int, float)) and not isinstance(e.value, bool):
        k[0] += sign * e.value
        return
    t = norm(e)
    if t == "time()":
        t = "time.time()"
    terms[t] = terms.get(t, 0) + sign


def _canon_sum(terms: dict, k) -> tuple[str, str]:
    if isinstance(k, float) and k.is_integer():
        k = int(k)
    return "".join(f"{c:+d}*{t}" for t, c in sorted(terms.items()) if c), repr(k)


def _lt_keys(le: ast.AST, re_: ast.AST):
    """`le < re_` as `sum + k < 0` (so a < b, b > a, 0 < b - a, a - b < 0 ... share one key) and its integer twin."""
    terms: dict = {}
    k = [0]
    _lin(le, 1, terms, k)
    _lin(re_, -1, terms, k)
    return ("lt", *_canon_sum(terms, k[0])), ("lt", *_canon_sum({t: -c for t, c in terms.items()}, -k[0] - 1))


def _K(op: str, left: str, right: str = "", integer: bool = False) -> tuple[str, str, str]:
    """
    Canonical key of an atomic condition; `eq` is symmetric, `lt` is `left < right` (match.fact_of orientation) brought to
    the form `signed sum < 0`.  integer=True declares both sides integer-valued: then `not (S + k < 0)` is the same
    condition as `-S - k - 1 < 0` (`n < 1` / `n <= 0` / `not n > 0`), which _World uses to recognise either spelling.
    """
    flip = None
    if op == "eq":
        l2, r2 = sorted((left, right))
        key = (op, l2, r2)
    elif op == "lt" and _parse(left) is not None and _parse(right) is not None:
        key, flip = _lt_keys(_parse(left), _parse(right))
    else:
        key = (op, left, right)
    out = _Key(key)
    out.raw = (op, left, right, integer)
    out.flip = flip
    return out


def _keys(fi: FuncInfo, atom: ast.AST) -> list[tuple[tuple[str, str, str], bool]]:
    """(key, polarity) candidates for one CFG atom: the atom is true iff key holds == polarity."""
    f = fact_of(strip_cast(atom), True)
    out = []
    for l in _texts(fi, f.left):
        for r in _texts(fi, f.right):
            k = (_K(f.op, l, r), f.pos)
            if k not in out:
                out.append(k)
            # emptiness of a sized object spelled through len(): len(x) == 0, len(x) > 0, len(x) < 1, len(x) ...
            for a, b, flip in ((l, r, False), (r, l, True)):
                if not (a.startswith("len(") and a.endswith(")") and _parse(a) is not None and isinstance(_parse(a), ast.Call) and len(_parse(a).args) == 1):
                    continue
                x = norm(_parse(a).args[0])
                k2 = None
                if f.op == "truthy" and not flip:
                    k2 = (_K("truthy", x), f.pos)
                elif f.op == "eq" and b == "0":
                    k2 = (_K("truthy", x), not f.pos)
                elif f.op == "lt" and (not flip and b == "1" or flip and b == "0"):   # len(x) < 1  /  0 < len(x)
                    k2 = (_K("truthy", x), not f.pos if not flip else f.pos)
                if k2 is not None and k2 not in out:
                    out.append(k2)
    return out


def _and3(a, b):
    return False if a is False or b is False else True if a is True and b is True else None


class _World:
    """
    The function's CFG under an assumption on named atomic conditions ({key: bool}).  Conditions are evaluated
    three-valued (True / False / None = unknown) after canonicalisation (negation, de Morgan and nesting are already
    split by the CFG; flipped comparisons, `!=`, `not a < b`, local aliases by _keys), locals and attributes assigned
    in the function are followed through their reaching definitions.  An edge is removed only when its condition
    definitely has the other value, so reachability here over-approximates the runs that satisfy the assumption.
    """

    def __init__(self, fi: FuncInfo, cfg, assume: dict, pinned=()) -> None:
        self.fi, self.cfg, self.assume = fi, cfg, {}
        # pinned: CFG nodes (loop heads) whose bindings the assumption talks about ("for the entry of this iteration")
        self.pinned = set(pinned)
        for key, v in assume.items():
            variants = [key]
            raw = getattr(key, "raw", None)
            if raw is not None:                                     # the same key with this function's aliases expanded
                variants.append(_K(raw[0], _expand_text(fi, raw[1]), _expand_text(fi, raw[2]), raw[3]))
            for kk in variants:
                self.assume.setdefault(tuple(kk), v)
                if raw is not None and raw[3] and getattr(kk, "flip", None) is not None:
                    self.assume.setdefault(tuple(kk.flip), not v)
        self._memo: dict = {}
        self._defs: dict = {}

    # -- edges
    def _cut(self, u, lab, deep: bool) -> bool:
        if u.kind != "cond" or not isinstance(lab, bool):
            return False
        k = (u.id, deep)
        if k not in self._memo:
            self._memo[k] = None            # cycle guard: unknown
            self._memo[k] = self.ev(u.ast, u, deep)
        vals = self._memo[k]
        return vals is not None and (vals == {True} and lab is False or vals == {False} and lab is True)

    def cut_direct(self, u, v, lab) -> bool:
        return self._cut(u, lab, False)

    def cut(self, u, v, lab) -> bool:
        return self._cut(u, lab, True)

    def reach(self, starts=None, *, cut_nodes=(), follow_exc: bool = True):
        return self.cfg.reach(starts, cut_nodes=cut_nodes, cut_edge=self.cut, follow_exc=follow_exc)

    def reaches(self, site: ast.AST, starts=None, *, cut_nodes=(), follow_exc: bool = True) -> bool:
        r = self.reach(starts, cut_nodes=cut_nodes, follow_exc=follow_exc)
        return any(n in r for n in self.cfg.nodes_for(site))

    # -- definitions of a chain (`x`, `cell.relay_early`) inside the function
    def defs(self, c: str):
        if c not in self._defs:
            out, seen = [], set()
            for st, t in stores(self.fi, lambda ch, c=c: ch == c):
                if id(st) in seen:
                    continue
                seen.add(id(st))
                if isinstance(st, ast.Assign) and len(st.targets) == 1 and st.targets[0] is t:
                    out.append((st, st.value))
                elif isinstance(st, ast.AnnAssign) and st.value is not None and st.target is t:
                    out.append((st, st.value))
                else:
                    out.append((st, None))
            if "." not in c and "[" not in c and "(" not in c:
                for st, v, idx in local_defs(self.fi, c):
                    if id(st) not in seen:
                        seen.add(id(st))
                        out.append((st, v if idx is None and isinstance(st, (ast.Assign, ast.AnnAssign)) else None))
            self._defs[c] = out
        return self._defs[c]

    def _def_nodes(self, c: str):
        return {n for st, _ in self.defs(c) for n in self.cfg.nodes_for(st)}

    def _stable(self, e: ast.AST, node) -> bool:
        """No re-definition of an operand of e can reach `node` (so the assumed value is the one evaluated there)."""
        for x in ast.walk(e):
            if not isinstance(x, (ast.Name, ast.Attribute, ast.Subscript)):
                continue
            c = chain(x)
            if c is None or not self.defs(c):
                continue
            if isinstance(x, ast.Name) and not is_param(self.fi, c) and len(self.defs(c)) == 1:
                continue                                            # one binding: every use sees the same definition
            dn = self._def_nodes(c)
            kill = (dn & self.pinned) - {node}                      # the pinned binding hides every earlier one
            for d in dn:
                if d is node or d in self.pinned:
                    continue
                if node in self.cfg.reach([v for v, lab in d.succ if lab != "exc"], cut_nodes=kill):
                    return False
        return True

    def atom(self, e: ast.AST):
        for key, pol in _keys(self.fi, e):
            if key in self.assume:
                return self.assume[key] if pol else not self.assume[key]
        return None

    # -- evaluation
    def ev(self, e: ast.AST, node, deep: bool = True, depth: int = 0) -> set:
        e = strip_cast(e)
        if isinstance(e, ast.Constant):
            return {bool(e.value)}
        if isinstance(e, (ast.Tuple, ast.List, ast.Set)):
            return {bool(e.elts)}
        if isinstance(e, ast.Dict):
            return {bool(e.keys)}
        if isinstance(e, ast.Compare) and len(e.ops) == 1 and isinstance(e.ops[0], (ast.Is, ast.IsNot, ast.Eq, ast.NotEq)):
            # a local compared with a constant (`verdict is not None`, `tag == 'idle'`): decided from what was assigned to it
            l, r = strip_cast(e.left), strip_cast(e.comparators[0])
            var, cst = (l, r) if isinstance(r, ast.Constant) else (r, l) if isinstance(l, ast.Constant) else (None, None)
            if isinstance(var, ast.Name) and self.defs(var.id):
                neg = isinstance(e.ops[0], (ast.IsNot, ast.NotEq))
                out = set()
                for av in (self._absvals(var, node, depth) if deep and depth < 4 else {None}):
                    v = self._cmp_abs(av, cst.value)
                    out.add(None if v is None else (not v if neg else v))
                if out and None not in out:
                    return out                                      # otherwise: the comparison may still be an assumed atom
        if isinstance(e, ast.UnaryOp) and isinstance(e.op, ast.Not):
            return {None if v is None else not v for v in self.ev(e.operand, node, deep, depth)}
        if isinstance(e, ast.BoolOp):
            is_and = isinstance(e.op, ast.And)
            acc = {True}
            for v in e.values:
                vs = self.ev(v, node, deep, depth)
                if not is_and:
                    vs = {None if x is None else not x for x in vs}
                acc = {_and3(a, b) for a in acc for b in vs}
            return acc if is_and else {None if x is None else not x for x in acc}
        if isinstance(e, ast.IfExp):
            t = self.ev(e.test, node, deep, depth)
            out = set()
            if t - {False}:
                out |= self.ev(e.body, node, deep, depth)
            if t - {True}:
                out |= self.ev(e.orelse, node, deep, depth)
            return out
        c = chain(e) if isinstance(e, (ast.Name, ast.Attribute)) else None
        if c is not None and self.defs(c) and (isinstance(e, ast.Name) or not self._stable(e, node)):
            # a local, or an attribute that is (re)assigned on a path to this use: its value is what was assigned
            if not deep or depth >= 4:
                return {None}
            return self._reaching(c, e, node, depth)
        if not self._stable(e, node):
            return {None}
        return {self.atom(e)}

    def _rdefs(self, c: str, node, cut):
        """(value on entry reaches node, [(definition node, value expr | None)] reaching node) under the edge filter `cut`."""
        dn = self._def_nodes(c)
        cutn = dn - {node}
        entry = node in self.cfg.reach(cut_nodes=cutn, cut_edge=cut)
        live = self.cfg.reach(cut_edge=cut)
        out = []
        for st, val in self.defs(c):
            for d in self.cfg.nodes_for(st):
                if d not in live:
                    continue                                        # this definition is not executed under the assumption
                starts = [v for v, lab in d.succ if lab != "exc"]
                if node in starts or node in self.cfg.reach(starts, cut_nodes=cutn, cut_edge=cut):
                    out.append((d, val))
        return entry, out

    def _reaching(self, c: str, e: ast.AST, node, depth: int) -> set:
        entry, ds = self._rdefs(c, node, self.cut_direct)
        out = set()
        if entry and ("." in c or is_param(self.fi, c)):
            out.add(self.atom(e))                                   # value on entry
        for d, val in ds:
            out |= {None} if val is None else self.ev(val, d, True, depth + 1)
        return out or {None}

    def value_at(self, c: str, e: ast.AST, node) -> set:
        """Truth values the chain c (`cell.relay_early`) can have when `node` runs, under the assumption (all conditions decided deeply)."""
        entry, ds = self._rdefs(c, node, self.cut)
        out = set()
        if entry:
            out.add(self.atom(e))
        for d, val in ds:
            out |= {None} if val is None else self.ev(val, d, True, 1)
        return out or {None}

    # -- abstract values of locals: constants, non-empty / empty literals, "some object"
    def _absvals(self, e: ast.AST, node, depth: int) -> set:
        e = strip_cast(e)
        if isinstance(e, ast.Constant):
            return {("c", e.value)}
        if isinstance(e, (ast.Tuple, ast.List, ast.Set)):
            return {("t",) if e.elts else ("f",)}
        if isinstance(e, ast.Dict):
            return {("t",) if e.keys else ("f",)}
        if isinstance(e, (ast.JoinedStr, ast.ListComp, ast.SetComp, ast.DictComp, ast.GeneratorExp, ast.Lambda)):
            return {("n",)}
        if isinstance(e, ast.IfExp):
            t = self.ev(e.test, node, True, depth)
            out = set()
            if t - {False}:
                out |= self._absvals(e.body, node, depth)
            if t - {True}:
                out |= self._absvals(e.orelse, node, depth)
            return out
        if isinstance(e, ast.Name) and self.defs(e.id) and depth < 4:
            entry, ds = self._rdefs(e.id, node, self.cut_direct)
            out = {None} if entry else set()
            for d, val in ds:
                out |= {None} if val is None else self._absvals(val, d, depth + 1)
            return out or {None}
        return {None}

    @staticmethod
    def _cmp_abs(av, cv):
        """Is the abstract value equal to / identical with the constant cv?  (None = unknown)"""
        if av is None:
            return None
        if av[0] == "c":
            v = av[1]
            if v is None or cv is None or isinstance(v, bool) or isinstance(cv, bool):
                return v is cv
            return type(v) is type(cv) and v == cv
        return False if cv is None or isinstance(cv, (bool, int, float, str, bytes)) else None


# ------------------------------------------------------------------------------------ new helpers / closed sets
def _private(fi: FuncInfo) -> bool:
    return fi.name.startswith("_") and not (fi.name.startswith("__") and fi.name.endswith("__"))


def _is_new(fi: FuncInfo) -> bool:
    """fi does not exist in the reviewed tree (sa/tables/local_names.json lists every reviewed function)."""
    known = load_table().get(fi.module.relpath)
    return known is not None and fi.qualname not in known


def _within(fi: FuncInfo, allowed) -> bool:
    return any(fi.qualname == a or fi.qualname.startswith(a + ".") for a in allowed)


def _only_reached_from(repo, fi: FuncInfo, allowed, _seen=None) -> bool:
    """
    fi is a NEW private helper (or closure) and every place that calls it or mentions it as a value lies in an allowed
    function, or in another such helper: what fi does is done on behalf of the allowed members only.
    """
    if _within(fi, allowed):
        return True
    nested = "." in fi.qualname and (fi.cls is None or fi.qualname.count(".") > 1)
    if not _is_new(fi) or not (_private(fi) or nested):
        return False
    seen = set() if _seen is None else _seen
    if fi.qualname in seen:
        return True
    seen.add(fi.qualname)
    users = []
    for m, g, c in repo.callers_of_name(fi.name):
        users.append(g)
    for m, g, a in repo.attribute_uses(fi.name):
        users.append(g)
    if nested:
        for g in fi.module.all_functions:
            if g is not fi and any(isinstance(n, ast.Name) and n.id == fi.name for n in ast.walk(g.node)) and fi.qualname.startswith(g.qualname + "."):
                users.append(g)
    users = [g for g in users if g is None or g.node is not fi.node]
    if not users:
        return False
    return all(g is not None and (_within(g, allowed) or _only_reached_from(repo, g, allowed, seen)) for g in users)


def _new_helper_targets(repo, fi: FuncInfo, call: ast.Call) -> list[FuncInfo]:
    """The NEW private helper(s) a call `self._x(...)` / `_x(...)` made in fi denotes (all targets must be new helpers)."""
    f = call.func
    if not (isinstance(f, ast.Name) or isinstance(f, ast.Attribute) and isinstance(f.value, ast.Name) and f.value.id in ("self", "cls")):
        return []
    try:
        ts = repo.resolve_call(fi, call)
    except Exception:  # noqa: BLE001
        return []
    ts = [t for t in ts if t.node is not fi.node]
    if ts and all(_is_new(t) for t in ts):
        return ts
    return []


def _bind_args(g: FuncInfo, call: ast.Call) -> dict[str, ast.AST]:
    """parameter name of g -> argument expression of the call (positional and keyword; self is skipped for methods)."""
    ps = g.params()
    if g.cls is not None and ps and ps[0] in ("self", "cls") and "staticmethod" not in g.decorator_names():
        ps = ps[1:]
    out = {}
    for i, a in enumerate(call.args):
        if isinstance(a, ast.Starred) or i >= len(ps):
            break
        out[ps[i]] = a
    for k in call.keywords:
        if k.arg is not None:
            out[k.arg] = k.value
    return out


def _passes_always(ctx: Ctx, fi: FuncInfo, is_target, depth: int = 2, cut_edge=None, _stack=()) -> list:
    """
    CFG nodes of fi that count as "the step happens here": calls satisfying is_target(fi, call), and calls of own
    methods / local functions every normal path of which passes such a node (followed `depth` levels).
    """
    cfg = ctx.cfg(fi)
    out = []
    for c in calls(fi):
        if is_target(fi, c):
            out.extend(cfg.nodes_for(c))
            continue
        if depth <= 0:
            continue
        f = c.func
        if not (isinstance(f, ast.Attribute) and isinstance(f.value, ast.Name) and f.value.id == "self" or isinstance(f, ast.Name)):
            continue
        if isinstance(f, ast.Name) and f.id in ("len", "list", "tuple", "sorted", "dict", "set", "cast", "str", "int", "float", "bool", "isinstance", "hexlify", "sleep", "print", "min", "max", "sum", "any", "all", "range", "enumerate", "zip", "getattr", "setattr", "hasattr", "next", "iter", "repr", "type", "id"):
            continue
        try:
            ts = ctx.repo.resolve_call(fi, c)
        except Exception:  # noqa: BLE001
            ts = []
        ts = [_view(ctx, t) for t in ts]
        if not ts or any(t.qualname in _stack or t.node is fi.node for t in ts):
            continue
        if any(any(isinstance(n, (ast.Yield, ast.YieldFrom)) for n in walk_no_nested(t.node)) for t in ts):
            continue                                               # calling a generator function runs nothing
        if all(_always_passes(ctx, t, is_target, depth - 1, _stack + (fi.qualname,)) for t in ts):
            out.extend(cfg.nodes_for(c))
    return out


def _always_passes(ctx: Ctx, fi: FuncInfo, is_target, depth: int = 2, _stack=()) -> bool:
    cfg = ctx.cfg(fi)
    tg = _passes_always(ctx, fi, is_target, depth, _stack=_stack)
    return bool(tg) and cfg.exit not in cfg.reach(cut_nodes=tg, follow_exc=False)


# ------------------------------------------------------------------------------------ unrolled view of a function
_SIMPLE_CALLS = ("getattr", "setattr")


def _simple_elt(e: ast.AST, consts_only: bool = False) -> bool:
    if isinstance(e, ast.Constant):
        return True
    if isinstance(e, (ast.Tuple, ast.List)):
        return all(_simple_elt(x, consts_only) for x in e.elts)
    if isinstance(e, ast.Dict):
        return all(k is not None and isinstance(k, ast.Constant) and _simple_elt(v, consts_only) for k, v in zip(e.keys, e.values))
    if consts_only:
        return False
    while isinstance(e, ast.Attribute):
        e = e.value
    return isinstance(e, ast.Name)


def _literal_elts(repo, fi: FuncInfo, it: ast.AST):
    """Elements of a loop iterable that is a literal tuple / list / dict view (directly, through a single-assignment local or a constant)."""
    it = strip_cast(it)
    if isinstance(it, ast.Name):
        d = single_def(fi, it.id)
        if d is not None and d[1] is None and isinstance(strip_cast(d[0]), ast.Tuple):
            it = strip_cast(d[0])
        elif d is None and not is_param(fi, it.id) and not local_defs(fi, it.id):
            r = repo.resolve_name(fi.module, it.id)
            if isinstance(r, tuple) and r[0] == "const" and isinstance(r[2], (ast.Tuple, ast.List)) and _simple_elt(r[2], True):
                return list(r[2].elts)
            return None
    if isinstance(it, ast.Attribute) and isinstance(it.value, ast.Name) and it.value.id in ("self", "cls") and fi.cls is not None:
        v = fi.cls.lookup_attr(it.attr)
        if isinstance(v, (ast.Tuple, ast.List)) and _simple_elt(v, True) and not any(True for _ in stores_anywhere(repo, it.attr)):
            return list(v.elts)
        return None
    if isinstance(it, (ast.Tuple, ast.List)):
        return list(it.elts) if all(_simple_elt(x) for x in it.elts) and not any(isinstance(x, ast.Starred) for x in it.elts) else None
    if isinstance(it, ast.Call) and isinstance(it.func, ast.Attribute) and not it.args and isinstance(it.func.value, ast.Dict) and _simple_elt(it.func.value):
        d = it.func.value
        if it.func.attr == "items":
            return [ast.Tuple(elts=[k, v], ctx=ast.Load()) for k, v in zip(d.keys, d.values)]
        if it.func.attr == "values":
            return list(d.values)
        if it.func.attr == "keys":
            return list(d.keys)
    if isinstance(it, ast.Dict) and _simple_elt(it):
        return list(it.keys)
    return None


def stores_anywhere(repo, attr: str):
    for m, g, a in repo.attribute_uses(attr):
        if isinstance(a.ctx, (ast.Store, ast.Del)) and not (g is not None and g.name == "__init__"):
            yield a


def _bind_target(t: ast.AST, e: ast.AST, out: dict) -> bool:
    if isinstance(t, ast.Name):
        out[t.id] = e
        return True
    if isinstance(t, (ast.Tuple, ast.List)) and isinstance(e, (ast.Tuple, ast.List)) and len(t.elts) == len(e.elts):
        return all(_bind_target(a, b, out) for a, b in zip(t.elts, e.elts))
    return False


class _Subst(ast.NodeTransformer):
    def __init__(self, mapping: dict) -> None:
        self.mapping = mapping

    def visit_Name(self, n: ast.Name):
        if isinstance(n.ctx, ast.Load) and n.id in self.mapping:
            return ast.copy_location(clone(self.mapping[n.id]), n)
        return n


class _FoldDyn(ast.NodeTransformer):
    """getattr(x, 'a') -> x.a ; setattr(x, 'a', v) -> x.a = v ; f(**{'k': v}) -> f(k=v) ; {'a': f}['a'] -> f"""

    def __init__(self, has_attr) -> None:
        self.has_attr = has_attr
        self.changed = False

    def visit_Call(self, n: ast.Call):
        self.generic_visit(n)
        if isinstance(n.func, ast.Name) and n.func.id == "getattr" and not n.keywords and len(n.args) in (2, 3) \
                and isinstance(n.args[1], ast.Constant) and isinstance(n.args[1].value, str) and n.args[1].value.isidentifier() \
                and (len(n.args) == 2 or self.has_attr(n.args[0], n.args[1].value)):
            self.changed = True
            return ast.copy_location(ast.Attribute(value=n.args[0], attr=n.args[1].value, ctx=ast.Load()), n)
        if any(k.arg is None and isinstance(k.value, ast.Dict) for k in n.keywords):
            kws = []
            for k in n.keywords:
                if k.arg is None and isinstance(k.value, ast.Dict) and all(isinstance(x, ast.Constant) and isinstance(x.value, str) for x in k.value.keys):
                    kws.extend(ast.keyword(arg=x.value, value=v) for x, v in zip(k.value.keys, k.value.values))
                    self.changed = True
                else:
                    kws.append(k)
            n.keywords = kws
        return n

    def visit_Subscript(self, n: ast.Subscript):
        self.generic_visit(n)
        if isinstance(n.ctx, ast.Load) and isinstance(n.value, ast.Dict) and isinstance(n.slice, ast.Constant):
            for k, v in zip(n.value.keys, n.value.values):
                if isinstance(k, ast.Constant) and k.value == n.slice.value and type(k.value) is type(n.slice.value):
                    self.changed = True
                    return v
        return n

    def visit_Expr(self, n: ast.Expr):
        self.generic_visit(n)
        c = n.value
        if isinstance(c, ast.Call) and isinstance(c.func, ast.Name) and c.func.id == "setattr" and len(c.args) == 3 and not c.keywords \
                and isinstance(c.args[1], ast.Constant) and isinstance(c.args[1].value, str) and c.args[1].value.isidentifier():
            self.changed = True
            return ast.copy_location(ast.Assign(targets=[ast.Attribute(value=c.args[0], attr=c.args[1].value, ctx=ast.Store())],
                                                value=c.args[2], type_comment=None), n)
        return n


def _own_loop_jumps(body) -> bool:
    """break / continue that belong to the loop whose body this is"""
    stack = list(body)
    while stack:
        n = stack.pop()
        if isinstance(n, (ast.Break, ast.Continue)):
            return True
        if isinstance(n, (ast.For, ast.AsyncFor, ast.While, ast.FunctionDef, ast.AsyncFunctionDef, ast.ClassDef, ast.Lambda)):
            if isinstance(n, (ast.For, ast.AsyncFor, ast.While)):
                stack.extend(n.orelse)
            continue
        stack.extend(ast.iter_child_nodes(n))
    return False


def _stored_chains(body) -> set[str]:
    out = set()
    for st in body:
        for n in ast.walk(st):
            if isinstance(n, (ast.Name, ast.Attribute, ast.Subscript)) and isinstance(n.ctx, (ast.Store, ast.Del)):
                c = chain(n)
                if c:
                    out.add(c)
            elif isinstance(n, ast.Call) and isinstance(n.func, ast.Name) and n.func.id in ("setattr", "delattr") and n.args:
                out.add((chain(n.args[0]) or "?") + ".*")
    return out


class _Unroller:
    def __init__(self, repo, fi: FuncInfo, root) -> None:
        self.repo, self.fi, self.root, self.changed = repo, fi, root, False

    def block(self, stmts: list) -> list:
        out = []
        for st in stmts:
            for f in ("body", "orelse", "finalbody"):
                v = getattr(st, f, None)
                if isinstance(v, list) and v and isinstance(v[0], ast.stmt):
                    setattr(st, f, self.block(v))
            for h in getattr(st, "handlers", []) or []:
                h.body = self.block(h.body)
            if isinstance(st, ast.For):
                un = self.unroll(st)
                if un is not None:
                    out.extend(un)
                    self.changed = True
                    continue
            out.append(st)
        return out

    def unroll(self, st: ast.For):
        elts = _literal_elts(self.repo, self.fi, st.iter)
        if elts is None or len(elts) > 8 or _own_loop_jumps(st.body):
            return None
        tnames = {n.id for n in ast.walk(st.target) if isinstance(n, ast.Name)}
        if not tnames or any(not isinstance(n, (ast.Name, ast.Tuple, ast.List, ast.Load, ast.Store)) for n in ast.walk(st.target)):
            return None
        stored = _stored_chains(st.body)
        if tnames & stored:
            return None
        # the loop variables must not be used outside the loop (they would keep the last element)
        inside = {id(n) for n in ast.walk(st)}
        for n in ast.walk(self.root):
            if isinstance(n, ast.Name) and n.id in tnames and id(n) not in inside:
                return None
        out = []
        for e in elts:
            m: dict = {}
            if not _bind_target(st.target, e, m):
                return None
            for v in m.values():
                for x in ast.walk(v):
                    if isinstance(x, (ast.Name, ast.Attribute)):
                        c = chain(x)
                        if c and (c in stored or any(s.endswith(".*") and c.startswith(s[:-2] + ".") for s in stored)) and not isinstance(v, ast.Constant):
                            # the element is re-assigned inside the body: keep the value the tuple held
                            if any(isinstance(n, ast.Name) and isinstance(n.ctx, ast.Load) and n.id in m and m[n.id] is v and self._used_after_store(st.body, n, c)
                                   for b in st.body for n in ast.walk(b)):
                                return None
            sub = _Subst(m)
            out.extend(sub.visit(clone(b)) for b in st.body)
        out.extend(st.orelse)
        return out

    @staticmethod
    def _used_after_store(body, use: ast.Name, c: str) -> bool:
        """a store to chain c textually precedes the use inside the loop body (conservative)"""
        for b in body:
            for n in ast.walk(b):
                if isinstance(n, (ast.Name, ast.Attribute)) and isinstance(n.ctx, (ast.Store, ast.Del)) and chain(n) == c:
                    if (n.lineno, n.col_offset) < (use.lineno, use.col_offset):
                        return True
                if isinstance(n, ast.Call) and isinstance(n.func, ast.Name) and n.func.id in ("setattr", "delattr") and (n.lineno, n.col_offset) < (use.lineno, use.col_offset):
                    return True
        return False


def _make_view(repo, fi: FuncInfo) -> FuncInfo:
    interesting = False
    for n in ast.walk(fi.node):
        if isinstance(n, ast.For) and (isinstance(strip_cast(n.iter), (ast.Tuple, ast.List, ast.Dict, ast.Name, ast.Attribute))
                                       or isinstance(n.iter, ast.Call) and isinstance(n.iter.func, ast.Attribute) and isinstance(n.iter.func.value, ast.Dict)):
            interesting = True
        elif isinstance(n, ast.Call) and (isinstance(n.func, ast.Name) and n.func.id in _SIMPLE_CALLS or any(k.arg is None and isinstance(k.value, ast.Dict) for k in n.keywords)):
            interesting = True
        elif isinstance(n, ast.Subscript) and isinstance(n.value, ast.Dict):
            interesting = True
    if not interesting:
        return fi
    node = clone(fi.node)
    un = _Unroller(repo, fi, node)
    node.body = un.block(node.body)

    def has_attr(base: ast.AST, name: str) -> bool:
        if not (isinstance(base, ast.Name) and base.id == "self" and fi.cls is not None):
            return False
        for c in fi.cls.mro():
            init = c.methods.get("__init__")
            if init is not None and any(chain(t) == f"self.{name}" for st, t in stores(init, lambda ch: ch == f"self.{name}")):
                return True
        return False
    fd = _FoldDyn(has_attr)
    node = fd.visit(node)
    if not (un.changed or fd.changed):
        return fi
    ast.fix_missing_locations(node)
    set_parents(node)
    v = FuncInfo(fi.name, fi.qualname, node, fi.module, fi.cls)
    node._info = v  # type: ignore[attr-defined]
    return v


def _view(ctx: Ctx, fi: FuncInfo) -> FuncInfo:
    """
    fi with every loop over a literal tuple / list / dict of simple elements unrolled (the loop variable replaced by the
    element) and constant-name getattr / setattr / **{...} / {...}[k] folded: the same statements in the same order, so a
    verdict about the view is a verdict about fi.  fi itself when there is nothing to unroll.
    """
    cache = ctx.__dict__.setdefault("_c09_views", {})
    k = id(fi.node)
    if k not in cache:
        try:
            v = _make_view(ctx.repo, fi)
        except RecursionError:
            v = fi
        cache[k] = (fi, v)
        cache[id(v.node)] = (v, v)
    return cache[k][1]


def _meth(ctx: Ctx, cls: str, name: str, rel: str) -> FuncInfo:
    return _view(ctx, ctx.repo.method(cls, name, rel))


# ------------------------------------------------------------------------------------ facts through fresh aliases / flags
def _between_inert(cfg, dnodes, unodes) -> bool:
    """Every statement that can run between a definition and a use neither calls anything (logging aside) nor stores an attribute."""
    fwd = cfg.reach([v for d in dnodes for v, lab in d.succ if lab != "exc"], cut_nodes=unodes)
    back, todo = set(), list(unodes)
    while todo:
        u = todo.pop()
        for p, _ in u.pred:
            if p not in back and p not in dnodes:
                back.add(p)
                todo.append(p)
    from ..cfg import call_may_raise
    for n in fwd & back:
        if n.ast is None or n in unodes:
            continue
        a = n.ast
        if isinstance(a, (ast.For, ast.AsyncFor, ast.While, ast.Try, ast.ExceptHandler, ast.With, ast.AsyncWith)):
            continue
        for x in ast.walk(a):
            if isinstance(x, ast.Call) and call_may_raise(x):
                return False
            if isinstance(x, (ast.Await, ast.Yield, ast.YieldFrom)):
                return False
            if isinstance(x, (ast.Attribute, ast.Subscript)) and isinstance(x.ctx, (ast.Store, ast.Del)):
                return False
    return True


def _facts(fi: FuncInfo, cfg, site) -> list[Fact]:
    """
    facts_at plus what they say once single-assignment locals are read back: `state = c.state ... if state == READY`
    gives `c.state == READY`, `ready = c.state == READY ... if ready` gives the comparison itself - provided nothing that
    could change the aliased value runs between the assignment and the test.
    """
    base = facts_at(cfg, site)
    out = list(base)

    def fresh_value(name_node: ast.AST, f: Fact):
        if not isinstance(name_node, ast.Name):
            return None
        d = single_def(fi, name_node.id)
        if d is None or d[1] is not None:
            return None
        st = local_defs(fi, name_node.id)[0][0]
        if not _between_inert(cfg, set(cfg.nodes_for(st)), set(cfg.nodes_for(f.atom))):
            return None
        return strip_cast(d[0])

    def atoms(e: ast.AST, pol: bool) -> list[Fact]:
        e = strip_cast(e)
        if isinstance(e, ast.UnaryOp) and isinstance(e.op, ast.Not):
            return atoms(e.operand, not pol)
        if isinstance(e, ast.BoolOp):
            if isinstance(e.op, ast.And) == pol:
                return [g for v in e.values for g in atoms(v, pol)]
            return []
        return [fact_of(e, pol)]

    todo = list(base)
    for _ in range(3):
        nxt = []
        for f in todo:
            if f.op == "truthy":
                v = fresh_value(f.left, f)
                if v is not None and isinstance(v, (ast.Compare, ast.BoolOp, ast.UnaryOp)):
                    nxt.extend(Fact(g.op, g.left, g.right, g.pos, f.atom) for g in atoms(v, f.pos))
            else:
                lv, rv = fresh_value(f.left, f), fresh_value(f.right, f) if f.right is not None else None
                if lv is not None or rv is not None:
                    nxt.append(Fact(f.op, lv if lv is not None else f.left, rv if rv is not None else f.right, f.pos, f.atom))
        out.extend(nxt)
        todo = nxt
        if not todo:
            break
    return out


def _is_increment(st: ast.stmt, target: str) -> bool:
    """`target += 1` or `target = target + 1` / `1 + target`."""
    if isinstance(st, ast.AugAssign):
        return norm(st.target) == target and isinstance(st.op, ast.Add) and const_value(st.value) == 1
    if isinstance(st, ast.Assign) and len(st.targets) == 1 and norm(st.targets[0]) == target and isinstance(st.value, ast.BinOp) \
            and isinstance(st.value.op, ast.Add):
        a, b = st.value.left, st.value.right
        return norm(a) == target and const_value(b) == 1 or norm(b) == target and const_value(a) == 1
    return False


def _snapshot_items_of(it: ast.AST) -> str | None:
    """`list(T.items())`, `tuple(...)`, `sorted(...)`, `T.copy().items()`, `dict(T).items()` -> chain of T (a copy is iterated)."""
    it = strip_cast(it)
    if isinstance(it, ast.Call) and isinstance(it.func, ast.Name) and it.func.id in ("list", "tuple", "sorted") and len(it.args) == 1:
        inner = strip_cast(it.args[0])
        if isinstance(inner, ast.Call) and isinstance(inner.func, ast.Attribute) and inner.func.attr == "items" and not inner.args:
            base = inner.func.value
            return _snapshot_base(base) or chain(base)
        return None
    if isinstance(it, ast.Call) and isinstance(it.func, ast.Attribute) and it.func.attr == "items" and not it.args:
        return _snapshot_base(it.func.value)
    return None


def _snapshot_base(base: ast.AST) -> str | None:
    if isinstance(base, ast.Call) and isinstance(base.func, ast.Attribute) and base.func.attr == "copy" and not base.args:
        return chain(base.func.value)
    if isinstance(base, ast.Call) and isinstance(base.func, ast.Name) and base.func.id == "dict" and len(base.args) == 1 and not base.keywords:
        return chain(base.args[0])
    return None


def _older_than(fi: FuncInfo, f, stamp: str, limit_ok) -> bool:
    """Fact f says `stamp < time.time() - LIMIT` (or the same inequality as `LIMIT < time.time() - stamp`), limit_ok(LIMIT text)."""
    if f.op != "lt" or not f.pos:
        return False
    for small in _texts(fi, f.left):
        for big in _texts(fi, f.right):
            be = ast.parse(big, mode="eval").body
            if not (isinstance(be, ast.BinOp) and isinstance(be.op, ast.Sub) and norm(be.left) in ("time.time()", "time()")):
                continue
            if small == stamp and limit_ok(norm(be.right)) or norm(be.right) == stamp and limit_ok(small):
                return True
    return False


def _traversal(fi: FuncInfo, it: ast.AST):
    """(table chain, items|keys|values) when `it` walks a *copy* of a table: list(T.items()), tuple(T), T.copy().values(), dict(T) ..."""
    def table_of(base):
        base = strip_cast(base)
        return _snapshot_base(base), rchain(fi, base)

    it = strip_cast(resolve(fi, it))
    if isinstance(it, ast.Call) and isinstance(it.func, ast.Name) and it.func.id in ("list", "tuple", "sorted") and len(it.args) == 1:
        inner = strip_cast(resolve(fi, it.args[0]))
        if isinstance(inner, ast.Call) and isinstance(inner.func, ast.Attribute) and inner.func.attr in ("items", "keys", "values") and not inner.args:
            snap, plain = table_of(inner.func.value)
            return (snap or plain), inner.func.attr
        if isinstance(inner, (ast.Name, ast.Attribute)):
            return rchain(fi, inner), "keys"
        snap = _snapshot_base(inner)
        return (snap, "keys") if snap else None
    if isinstance(it, ast.Call) and isinstance(it.func, ast.Attribute) and it.func.attr in ("items", "keys", "values") and not it.args:
        snap = _snapshot_base(strip_cast(resolve(fi, it.func.value)))
        return (snap, it.func.attr) if snap else None
    snap = _snapshot_base(it)
    return (snap, "keys") if snap else None


def _entry_texts(l: ast.For, table: str, kind: str):
    """(texts naming the entry's circuit id, texts naming the entry object, loop variable names) for one sweep loop."""
    t = l.target
    if kind == "items":
        if isinstance(t, ast.Tuple) and len(t.elts) == 2 and all(isinstance(e, ast.Name) for e in t.elts):
            return [t.elts[0].id], [t.elts[1].id], {t.elts[0].id, t.elts[1].id}
        if isinstance(t, ast.Name):
            return [f"{t.id}[0]"], [f"{t.id}[1]"], {t.id}
    elif kind == "keys" and isinstance(t, ast.Name):
        return [t.id], [f"{table}[{t.id}]", f"{table}.get({t.id})", f"{table}.get({t.id}, None)"], {t.id}
    elif kind == "values" and isinstance(t, ast.Name) and table != "self.relay_from_to":     # a relay's circuit_id is the far side's key
        return [f"{t.id}.circuit_id"], [t.id], {t.id}
    return None


def _sweep_sites(ctx: Ctx, fi: FuncInfo):
    """
    (function, loop, table, kind, consumer) for every loop over a copy of a routing table in fi and in the NEW private
    helpers fi runs on every normal path; a loop inside a NEW generator helper is tied to the loop of fi that consumes it.
    """
    out = []
    todo, seen = [(fi, None)], set()
    while todo:
        f, consumer = todo.pop(0)
        if f.qualname in seen:
            continue
        seen.add(f.qualname)
        cfg = ctx.cfg(f)
        for l in [l for l in walk_no_nested(f.node) if isinstance(l, ast.For)]:
            tr = _traversal(f, l.iter)
            if tr is not None and tr[0] in SWEEP:
                out.append((f, l, tr[0], tr[1], consumer))
                continue
            it = strip_cast(resolve(f, l.iter))
            if isinstance(it, ast.Call):
                for g in _new_helper_targets(ctx.repo, f, it):
                    if any(isinstance(n, (ast.Yield, ast.YieldFrom)) for n in walk_no_nested(g.node)) and consumer is None:
                        todo.append((_view(ctx, g), (f, l)))
        if consumer is not None:
            continue
        for c in calls(f):
            par = getattr(c, "_parent", None)
            if isinstance(par, ast.For) and par.iter is c:
                continue
            for g in _new_helper_targets(ctx.repo, f, c):
                if any(isinstance(n, (ast.Yield, ast.YieldFrom)) for n in walk_no_nested(g.node)):
                    continue
                ns = cfg.nodes_for(c)
                if ns and cfg.exit not in cfg.reach(cut_nodes=ns, follow_exc=False):
                    todo.append((_view(ctx, g), None))
    return out


def _remover_sinks(f: FuncInfo, cfg, within: ast.AST, remover: str, idset: set[str]) -> list:
    out = []
    for c in ast.walk(within):
        if isinstance(c, ast.Call) and chain(c.func) == f"self.{remover}":
            a = arg(c, 0, "circuit_id")
            if a is not None and set(_texts(f, a)) & idset:
                out.extend(cfg.nodes_for(c))
    return out


def _record_slot(f: FuncInfo, value: ast.AST | None, idset: set[str]):
    """Where a record (`cid` or `(cid, reason, ...)`) carries the circuit id: () for the bare id, (k,) for element k; None = not there."""
    if value is None:
        return None
    v = strip_cast(value)
    if set(_texts(f, v)) & idset:
        return ()
    if isinstance(v, (ast.Tuple, ast.List)):
        for k, e in enumerate(v.elts):
            if not isinstance(e, ast.Starred) and set(_texts(f, e)) & idset:
                return (k,)
    return None


def _consumer_removes(ctx: Ctx, f: FuncInfo, l: ast.For, slot, remover: str) -> bool:
    """The loop l hands the id found at `slot` of every record to self.<remover> on every normal path of its body, and never stops early."""
    t = l.target
    ids: set[str] = set()
    if slot == ():
        if isinstance(t, ast.Name):
            ids = {t.id}
    elif isinstance(t, (ast.Tuple, ast.List)) and slot[0] < len(t.elts) and isinstance(t.elts[slot[0]], ast.Name) \
            and not any(isinstance(e, ast.Starred) for e in t.elts[:slot[0] + 1]):
        ids = {t.elts[slot[0]].id}
    elif isinstance(t, ast.Name):
        ids = {f"{t.id}[{slot[0]}]"}
    if not ids or any(isinstance(n, (ast.Break, ast.Return)) for n in ast.walk(l)):
        return False
    cfg = ctx.cfg(f)
    sinks = _remover_sinks(f, cfg, l, remover, ids)
    loopn = cfg.nodes_for(l)
    starts = [v for n in loopn for v, lab in n.succ if lab is True]
    r = cfg.reach(starts, cut_nodes=sinks, follow_exc=False)
    return bool(sinks) and not any(n in r for n in loopn) and cfg.exit not in r


def _deferred_sinks(ctx: Ctx, f: FuncInfo, cfg, l: ast.For, idset: set[str], remover: str, consumer) -> list:
    """
    Statements of the sweep loop that only *record* the entry for removal, where the removal provably follows:
    `todo.append((cid, ...))` with a later unconditional loop over `todo` in the same function that removes each record, and
    `yield (cid, ...)` in a generator helper whose consuming loop removes each record.
    """
    out = []
    if consumer is not None:
        cf, cl = consumer
        for y in ast.walk(l):
            if isinstance(y, ast.Yield):
                slot = _record_slot(f, y.value, idset)
                if slot is not None and _consumer_removes(ctx, cf, cl, slot, remover):
                    out.extend(cfg.nodes_for(y))
        return out
    loopn = cfg.nodes_for(l)
    after = [v for n in loopn for v, lab in n.succ if lab is False]
    for c in ast.walk(l):
        if not (isinstance(c, ast.Call) and isinstance(c.func, ast.Attribute) and c.func.attr == "append" and isinstance(c.func.value, ast.Name) and len(c.args) == 1):
            continue
        lst = c.func.value.id
        d = single_def(f, lst)
        if d is None or d[1] is not None or not (isinstance(strip_cast(d[0]), ast.List) and not strip_cast(d[0]).elts
                                                 or isinstance(strip_cast(d[0]), ast.Call) and chain(strip_cast(d[0]).func) == "list" and not strip_cast(d[0]).args):
            continue
        slot = _record_slot(f, c.args[0], idset)
        if slot is None:
            continue
        for l2 in [x for x in walk_no_nested(f.node) if isinstance(x, ast.For) and x is not l]:
            it = strip_cast(l2.iter)
            if isinstance(it, ast.Call) and isinstance(it.func, ast.Name) and it.func.id in ("list", "tuple") and len(it.args) == 1:
                it = strip_cast(it.args[0])
            if not (isinstance(it, ast.Name) and it.id == lst):
                continue
            l2n = cfg.nodes_for(l2)
            # the consuming loop runs on every normal continuation after the sweep loop, and the list is only appended to
            others = [x for x in ast.walk(f.node) if isinstance(x, ast.Name) and x.id == lst and isinstance(getattr(x, "_parent", None), ast.Attribute)
                      and x._parent.attr != "append"]
            if cfg.exit not in cfg.reach(after, cut_nodes=l2n, follow_exc=False) and not others and _consumer_removes(ctx, f, l2, slot, remover):
                out.extend(cfg.nodes_for(c))
    return out


def rule_sweep(ctx: Ctx) -> None:
    repo = ctx.repo
    fi = _meth(ctx, "TunnelCommunity", "do_remove", TC)
    sites = _sweep_sites(ctx, fi)
    for table, (remover, need_age) in SWEEP.items():
        lp = [s for s in sites if s[2] == table]
        ctx.check(len(lp) == 1, "sweep-coverage", fi, fi.node, f"do_remove iterates a copy of {table}",
                  f"do_remove has no loop over list({table}.items()): entries of that table are never swept")
        if len(lp) != 1:
            continue
        f, l, _, kind, consumer = lp[0]
        cfg = ctx.cfg(f)
        names = _entry_texts(l, table, kind)
        if names is None:
            raise AnalysisError(f"undecided: the sweep loop `{norm(l.target)} in {norm(l.iter)}` binds the entries of {table} in a way this rule does not follow")
        ids, objs, pinned_names = names
        idset = set(ids)
        # no early exit from the sweep
        early = [n for n in ast.walk(l) if isinstance(n, (ast.Break, ast.Return))]
        ctx.check(not early, "sweep-coverage", f, l, f"sweep over {table} examines every entry", f"the sweep over {table} can stop early")
        if consumer is not None:
            early2 = [n for n in ast.walk(consumer[1]) if isinstance(n, (ast.Break, ast.Return))]
            ctx.check(not early2, "sweep-coverage", consumer[0], consumer[1], f"consumer of the sweep over {table} handles every entry",
                      f"the loop that removes the swept entries of {table} can stop early")
        loopn = cfg.nodes_for(l)
        starts = [v for n in loopn for v, lab in n.succ if lab is True]
        sinks = _remover_sinks(f, cfg, l, remover, idset) + _deferred_sinks(ctx, f, cfg, l, idset, remover, consumer)

        def removed_under(assume: dict) -> bool:
            """Under the assumption about *this* entry, no normal run of the loop body gets to the next entry without handing it to the remover."""
            if not sinks or not starts:
                return False
            w = _World(f, cfg, assume, pinned=loopn)
            r = w.reach(starts, cut_nodes=sinks, follow_exc=False)
            return not any(n in r for n in loopn) and cfg.exit not in r

        # the inactivity test must be the *only* condition of the removal (besides `state == READY` for own circuits): an
        # extra conjunct is unknown under the assumption, leaves a path around the removal, and is reported
        idle = {}
        for o in objs:
            idle[_K("lt", f"{o}.last_activity", "time.time() - self.settings.max_time_inactive")] = True
            idle[_K("eq", f"{o}.state", "CIRCUIT_STATE_READY")] = True
        ctx.check(removed_under(idle), "sweep-coverage", f, l, f"{table}: entry removed when last_activity < now - max_time_inactive",
                  f"entries of {table} are not removed by inactivity: an abandoned entry lives forever if the destroy is lost")
        if need_age:
            old = {_K("lt", f"{o}.creation_time", f"time.time() - self.get_max_time({i})"): True for o in objs for i in ids}
            ctx.check(removed_under(old), "sweep-coverage", f, l, f"{table}: entry removed when older than get_max_time",
                      f"entries of {table} are not removed by age")
    # do_circuits -> do_remove on every path; registered periodically
    dc = _meth(ctx, "TunnelCommunity", "do_circuits", TC)
    ok = _always_passes(ctx, dc, lambda f, c: chain(c.func) == "self.do_remove")
    ctx.check(ok, "sweep-coverage", dc, dc.node, "do_circuits calls do_remove on every normal path", "do_circuits can finish without running the sweep")
    init = repo.method("TunnelCommunity", "__init__", TC)
    regs = [c for c in calls(init, "self.register_task") if chain(arg(c, 1, "task")) == "self.do_circuits"]
    ok = False
    for c in regs:
        iv = arg(c, None, "interval")
        v = repo.resolve_const(init.module, iv, init.cls) if iv is not None else None
        ok = isinstance(v, (int, float)) and v > 0
    ctx.check(ok, "sweep-coverage", init, init.node, "do_circuits registered with a positive constant interval",
              "the periodic sweep is not scheduled (no register_task(do_circuits, interval>0) in __init__)")
    # max_time_inactive etc. are positive constants in TunnelSettings
    ts = repo.cls("TunnelSettings", TC)
    for name in ("max_time_inactive", "max_time", "remove_tunnel_delay", "max_joined_circuits", "_max_relay_early"):
        v = repo.resolve_const(ts.module, ts.attrs.get(name), ts) if name in ts.attrs else None
        ctx.check(isinstance(v, (int, float)) and (v > 0 or name == "remove_tunnel_delay" and v >= 0), "sweep-coverage", ts.where, name,
                  f"TunnelSettings.{name} = {v} (finite, positive)", f"TunnelSettings.{name} is not a positive finite constant ({v})")
    # last_activity only moves by beat_heart (monotone clock reads), creation_time set once
    for m, f2, a in repo.attribute_uses("creation_time"):
        if isinstance(a.ctx, ast.Store):
            ok = f2 is not None and (f2.name == "__init__" or _only_reached_from(repo, f2, {f"{f2.cls.name}.__init__"} if f2.cls else set()))
            ctx.check(ok, "sweep-coverage", f2 or m.relpath, enclosing_stmt(a),
                      "creation_time assigned only at construction", "creation_time is refreshed after construction (age limit never reached)")


def _pops_entry(f: FuncInfo, c: ast.Call, table: str, cid_texts: set[str]) -> bool:
    """c is `<table>.pop(<cid>[, default])` (the table possibly through a local alias)."""
    return call_name(c) == "pop" and isinstance(c.func, ast.Attribute) and rchain(f, c.func.value) == table \
        and arg(c, 0) is not None and bool(set(_texts(f, arg(c, 0))) & cid_texts)


def _unknown_entry_edge(f: FuncInfo, table: str, cid_texts: set[str]):
    """Edge filter: edges that say "there is no such entry" (`T.get(id) is None`, falsy `T.get(id)`, `id not in T`), however the test is written."""
    def is_get(e) -> bool:
        got = resolve(f, e)
        return isinstance(got, ast.Call) and call_name(got) == "get" and isinstance(got.func, ast.Attribute) and rchain(f, got.func.value) == table \
            and arg(got, 0) is not None and bool(set(_texts(f, arg(got, 0))) & cid_texts)

    def unknown_entry(u, v, lab) -> bool:
        if u.kind != "cond" or not isinstance(lab, bool):
            return False
        g = fact_of(u.ast, lab)
        if g.op == "in":
            return not g.pos and bool(set(_texts(f, g.left)) & cid_texts) and rchain(f, strip_cast(g.right)) == table
        if g.op == "is":
            return g.pos and is_get(g.left) and isinstance(g.right, ast.Constant) and g.right.value is None
        return g.op == "truthy" and not g.pos and is_get(g.left)
    return unknown_entry


def _removal_nodes(ctx: Ctx, f: FuncInfo, table: str, cid: str, depth: int = 1):
    """(removal call / del statements of f, CFG nodes where the entry <table>[cid] is taken out - also inside NEW helpers that always do it)."""
    cfg = ctx.cfg(f)
    cid_texts = {cid}
    pops = [c for c in calls(f) if _pops_entry(f, c, table, cid_texts)]
    dels = [st for st, t in stores(f, lambda ch: ch.endswith("[]")) if isinstance(st, ast.Delete) and isinstance(t, ast.Subscript)
            and rchain(f, t.value) == table and set(_texts(f, t.slice)) & cid_texts]
    nodes = [n for p in pops + dels for n in cfg.nodes_for(p)]
    if depth > 0:
        for c in calls(f):
            for g0 in _new_helper_targets(ctx.repo, f, c):
                g = _view(ctx, g0)
                bound = _bind_args(g, c)
                for pname, a in bound.items():
                    if set(_texts(f, a)) & cid_texts and pname in g.params():
                        sub_sites, sub_nodes = _removal_nodes(ctx, g, table, pname, depth - 1)
                        gcfg = ctx.cfg(g)
                        if sub_nodes and gcfg.exit not in gcfg.reach(cut_nodes=sub_nodes, cut_edge=_unknown_entry_edge(g, table, {pname}), follow_exc=False):
                            pops.append(c)
                            nodes.extend(cfg.nodes_for(c))
    return pops + dels, nodes


def rule_remove_removes(ctx: Ctx) -> None:
    repo = ctx.repo
    for meth, table in (("remove_circuit", "self.circuits"), ("remove_relay", "self.relay_from_to"), ("remove_exit_socket", "self.exit_sockets")):
        fi = _meth(ctx, "TunnelCommunity", meth, TC)
        cfg = ctx.cfg(fi)
        cid = fi.params()[1]
        sites, pn = _removal_nodes(ctx, fi, table, cid)
        ctx.check(bool(sites), "remove-removes", fi, fi.node, f"{meth} pops {table}[{cid}]", f"{meth} never removes the entry from {table}")
        if not sites:
            continue
        # the only edges that may lead around the removal say "there is no such entry": `T.get(id) is None`, a falsy
        # `T.get(id)` (entries are objects), `id not in T` - in whatever form the test is written (guard clause, nesting,
        # if/else, fall-through); they are cut, and the normal exit must then be unreachable without passing the removal
        r = cfg.reach(cut_nodes=pn, cut_edge=_unknown_entry_edge(fi, table, {cid}), follow_exc=False)
        ctx.check(cfg.exit not in r, "remove-removes", fi, sites[0], f"every normal path of {meth} reaches {table}.pop({cid}, None)",
                  f"{meth} can return without removing the entry (a path around the pop)")
        # the sleep is the configured delay
        for s in calls(fi, "sleep"):
            ctx.check("self.settings.remove_tunnel_delay" in _texts(fi, arg(s, 0, "delay")), "remove-removes", fi, s,
                      "removal delayed by settings.remove_tunnel_delay only", "removal sleeps for something other than the configured delay")
        ctx.check("task" in fi.decorator_names(), "remove-removes", fi, fi.node, f"{meth} runs as a tracked task", f"{meth} is not a @task")
    fi = _meth(ctx, "TunnelCommunity", "remove_exit_socket", TC)
    cfg = ctx.cfg(fi)
    closes = [c for c in calls(fi) if call_name(c) == "close"]
    shuts = [c for c in calls(fi) if call_name(c) == "shutdown_task_manager"]
    popvar, popst = None, None
    for st in walk_no_nested(fi.node):
        if isinstance(st, (ast.Assign, ast.AnnAssign)) and isinstance(strip_cast(st.value), ast.Call) and _pops_entry(fi, strip_cast(st.value), "self.exit_sockets", {fi.params()[1]}):
            t = st.targets[0] if isinstance(st, ast.Assign) else st.target
            if isinstance(t, ast.Name):
                popvar, popst = t.id, st
    ok = popvar is not None and any(chain(c.func) == f"{popvar}.close" for c in closes) and any(chain(c.func) == f"{popvar}.shutdown_task_manager" for c in shuts)
    ctx.check(ok, "remove-removes", fi, fi.node, "popped exit socket is closed (if enabled) and its task manager shut down",
              "the removed exit socket's outside sockets / tasks are not released")
    for c in closes + shuts:
        awaited = isinstance(getattr(c, "_parent", None), ast.Await)
        ctx.check(awaited, "remove-removes", fi, c, f"{norm(c)} awaited", "socket release is not awaited")

    def about_popped(g: Fact) -> bool:
        """The condition is about the popped socket: the socket itself, its `enabled` flag, or a local read from it *after* the pop."""
        if chain(g.left) in (popvar, f"{popvar}.enabled"):
            return True
        if isinstance(g.left, ast.Name) and popst is not None:
            d = single_def(fi, g.left.id)
            ds = local_defs(fi, g.left.id)
            if d is not None and d[1] is None and norm(strip_cast(d[0])) in (popvar, f"{popvar}.enabled"):
                return all(cfg.must_complete(n, cfg.nodes_for(popst)) for n in cfg.nodes_for(ds[0][0]))
        return False

    for c in closes:
        fs = facts_at(cfg, c)
        only_enabled = [g for g in fs if g.op == "truthy" and g.pos]
        ctx.check(all(about_popped(g) for g in only_enabled), "remove-removes", fi, c,
                  "close() conditional only on the socket existing and being enabled", "closing the socket depends on an unrelated condition")
    cl = _meth(ctx, "TunnelExitSocket", "close", "ipv8/messaging/anonymization/exit_socket.py")
    tc = sorted(rchain(cl, c.func) or "?" for c in calls(cl) if call_name(c) == "close")
    want = ["self.transport_ipv4.close", "self.transport_ipv6.close"]
    if tc != want and any(not t.startswith("self.transport_") for t in tc):
        raise AnalysisError(f"undecided: TunnelExitSocket.close closes {tc}: which transports these are cannot be read off the code")
    ctx.check(tc == want, "remove-removes", cl, cl.node,
              "TunnelExitSocket.close closes both transports", f"TunnelExitSocket.close closes {tc}")
    _rule_exit_entries_leave_through_remover(ctx)


EXIT_TABLE_REMOVERS = ("TunnelCommunity.remove_exit_socket",)
_DROPPING = {"pop", "popitem", "clear"}


def _rule_exit_entries_leave_through_remover(ctx: Ctx) -> None:
    """
    remove_exit_socket() is the only code that closes an exit's outside UDP sockets (TunnelExitSocket.close), and it finds the
    socket through the exit_sockets table.  So an entry may leave that table nowhere else: an exit socket that is popped,
    deleted or overwritten by other code is out of reach of the destroy message, of the inactivity / age sweep and of unload,
    and its transports stay open for good.
    """
    repo = ctx.repo
    rule = "remove-removes"
    n = 0
    for m, fi, a in repo.attribute_uses("exit_sockets"):
        if not m.relpath.startswith("ipv8/"):
            continue
        p = getattr(a, "_parent", None)
        what = None
        if isinstance(p, ast.Attribute) and p.value is a and p.attr in _DROPPING and isinstance(getattr(p, "_parent", None), ast.Call) and p._parent.func is p:
            what = p._parent
        elif isinstance(p, ast.Subscript) and p.value is a and isinstance(p.ctx, ast.Del):
            what = enclosing_stmt(p)
        elif isinstance(a.ctx, ast.Del):
            what = enclosing_stmt(a)
        elif isinstance(a.ctx, ast.Store) and not (fi is not None and fi.name == "__init__"):
            what = enclosing_stmt(a)
        elif fi is not None and isinstance(p, (ast.Assign, ast.AnnAssign)) and p.value is a:
            # a local alias of the table: the same forms through the alias
            t = p.targets[0] if isinstance(p, ast.Assign) else p.target
            if isinstance(t, ast.Name):
                for x in walk_no_nested(fi.node):
                    if isinstance(x, ast.Name) and x.id == t.id and x is not t:
                        px = getattr(x, "_parent", None)
                        if isinstance(px, ast.Attribute) and px.attr in _DROPPING and isinstance(getattr(px, "_parent", None), ast.Call) \
                                or isinstance(px, ast.Subscript) and px.value is x and isinstance(px.ctx, ast.Del):
                            what = enclosing_stmt(x)
        if what is None:
            continue
        n += 1
        ok = fi is not None and (fi.qualname in EXIT_TABLE_REMOVERS or _only_reached_from(repo, fi, EXIT_TABLE_REMOVERS))
        ctx.check(ok, rule, fi or m.relpath, what, f"exit_sockets entry dropped by {fi.qualname if fi else m.relpath} (the remover that closes the socket)",
                  f"{fi.qualname if fi else m.relpath} takes an entry out of exit_sockets (`{norm(what)[:80]}`) without going through remove_exit_socket(): that is the "
                  "only place that closes the exit's outside sockets (TunnelExitSocket.close), so an enabled exit socket dropped here keeps its UDP "
                  "transports open and is unreachable for the destroy message, the inactivity/age sweep and unload")
    ctx.floor("remove-removes.exit-table-drops", n, 1)


def _argval(c: ast.Call, index: int, name: str):
    """Argument of a call by position or keyword (None when not passed)."""
    return arg(c, index, name)


def rule_destroy_propagates(ctx: Ctx) -> None:
    repo = ctx.repo
    fi = _meth(ctx, "TunnelCommunity", "on_destroy", TC)
    payload = fi.params()[2]
    rr = [c for c in calls(fi, "self.remove_relay")]
    own = [c for c in rr if f"{payload}.circuit_id" in _texts(fi, arg(c, 0, "circuit_id"))]
    other = [c for c in rr if c not in own]

    def destroy_of(c):
        d = _argval(c, 3, "destroy")
        return None if d is None or isinstance(d, ast.Constant) and not d.value else d
    ok = len(own) == 1 and len(other) == 1 and destroy_of(own[0]) is not None and f"{payload}.reason" in _texts(fi, destroy_of(own[0])) \
        and destroy_of(other[0]) is None and not any(k.arg is None for k in other[0].keywords)
    ctx.check(ok, "destroy-propagates", fi, fi.node, "relay branch removes both directions and forwards destroy on exactly the far side",
              "a destroy received by a relay is not forwarded onward exactly once (or one direction is left in the table)")
    for meth, helper in (("remove_relay", "destroy_relay"), ("remove_circuit", "destroy_circuit"), ("remove_exit_socket", "destroy_exit_socket")):
        f2 = _meth(ctx, "TunnelCommunity", meth, TC)
        cfg = ctx.cfg(f2)
        hc = [c for c in calls(f2, f"self.{helper}")]
        ctx.check(len(hc) == 1, "destroy-propagates", f2, f2.node, f"{meth} sends destroy via {helper} when asked", f"{meth} no longer sends destroy")
        for c in hc:
            fs = _facts(f2, cfg, c)
            ctx.check(any(g.op == "truthy" and g.pos and chain(g.left) == "destroy" for g in fs), "destroy-propagates", f2, c,
                      f"{helper} under truthy destroy", "destroy sending is not controlled by the destroy argument")
            # before the entry is popped
            pops = [n for p in calls(f2) if call_name(p) == "pop" and "request_cache" not in (chain(p.func) or "") for n in cfg.nodes_for(p)]
            hn = cfg.nodes_for(c)
            after = cfg.reach([v for p in pops for v, lab in p.succ])
            ctx.check(not any(h in after for h in hn), "destroy-propagates", f2, c, "destroy is sent before the entry is popped",
                      "destroy would be sent after the entry is gone (nothing to address it to)")
    dr = _meth(ctx, "TunnelCommunity", "destroy_relay", TC)
    sd = [c for c in calls(dr, "self.send_destroy")]
    cid = dr.params()[1]
    far = [f"self.relay_from_to.get({cid})", f"self.relay_from_to.get({cid}, None)", f"self.relay_from_to[{cid}]"]
    ok = len(sd) == 1 and any(f"{b}.hop.address" in _texts(dr, arg(sd[0], 0)) for b in far) and any(f"{b}.circuit_id" in _texts(dr, arg(sd[0], 1)) for b in far)
    ctx.check(ok, "destroy-propagates", dr, dr.node, "destroy_relay addresses the far side (relay.hop.address, relay.circuit_id)",
              "destroy_relay sends the destroy to the wrong neighbour / under the wrong circuit id")
    sdf = _meth(ctx, "TunnelCommunity", "send_destroy", TC)
    pk = [c for c in calls(sdf, "self.ezr_pack")]
    ok = len(pk) == 1 and not any(k.arg == "sig" and isinstance(k.value, ast.Constant) and k.value.value is False for k in pk[0].keywords)
    ctx.check(ok, "destroy-propagates", sdf, sdf.node, "destroy messages are signed (ezr_pack default sig)", "destroy is sent unsigned: the neighbour will reject it")


def _site_chains(ctx: Ctx, fi: FuncInfo, pattern, depth: int = 2, _stack=()):
    """
    Where fi performs the call `pattern`: [[(fi, call)]] for calls written in fi, [(fi, call of helper), (helper, call)] when
    the call was moved into a NEW private helper (followed `depth` levels).
    """
    out = [[(fi, c)] for c in calls(fi, pattern)]
    if depth > 0:
        for c in calls(fi):
            for g0 in _new_helper_targets(ctx.repo, fi, c):
                if g0.qualname in _stack:
                    continue
                g = _view(ctx, g0)
                for ch in _site_chains(ctx, g, pattern, depth - 1, _stack + (fi.qualname,)):
                    out.append([(fi, c), *ch])
    return out


def _rename_key(key, mapping: dict[str, str]):
    """The assumption key re-expressed in a helper's parameter names (None when it mentions a caller local the helper does not get)."""
    op, l, r, integer = key.raw

    def ren(text: str):
        if not text:
            return text
        e = _parse(text)
        if e is None:
            return None
        for n in ast.walk(e):
            if isinstance(n, ast.Name):
                if n.id in mapping:
                    n.id = mapping[n.id]
                elif n.id not in ("self", "time", "len") and not n.id.isupper():
                    return None
        return norm(e)
    l2, r2 = ren(l), ren(r)
    return None if l2 is None or r2 is None else _K(op, l2, r2, integer)


def _blocked_under(ctx: Ctx, ch, assume: dict) -> tuple[bool, bool]:
    """(site is live at all, site cannot be reached when the assumption holds) for a site chain; the assumption follows the arguments into helpers."""
    live, blocked = True, False
    cur = dict(assume)
    for i, (f, c) in enumerate(ch):
        cfg = ctx.cfg(f)
        live = live and any(n in cfg.reach() for n in cfg.nodes_for(c))
        if _World(f, cfg, cur).reaches(c) is False:
            blocked = True
        if i + 1 < len(ch):
            g = ch[i + 1][0]
            mapping = {}
            for pname, a in _bind_args(g, c).items():
                a = strip_cast(a)
                if isinstance(a, ast.Name):
                    mapping[a.id] = pname
            nxt = {}
            for k, v in cur.items():
                k2 = _rename_key(k, mapping) if getattr(k, "raw", None) else None
                if k2 is not None:
                    nxt[k2] = v
            cur = nxt
    return live, blocked


def _return_sites(fi: FuncInfo):
    return [r for r in walk_no_nested(fi.node) if isinstance(r, ast.Return)]


def rule_limits(ctx: Ctx) -> None:
    repo = ctx.repo
    oc = _meth(ctx, "TunnelCommunity", "on_create", TC)
    for ch in ctx.anchor(_site_chains(ctx, oc, "self.join_circuit"), "join_circuit in on_create"):
        fs = [g for f, c in ch for g in _facts(f, ctx.cfg(f), c)]
        ok = False
        for g in fs:
            if g.op == "truthy" and g.pos:
                r = resolve(ch[0][0], g.left)
                if isinstance(r, ast.Await):
                    r = r.value
                if isinstance(r, ast.Call) and chain(r.func) == "self.should_join_circuit":
                    ok = True
        f, c = ch[-1]
        ctx.check(ok, "join-limit", f, c, "join_circuit dominated by a truthy should_join_circuit", "a create is joined without consulting the join limit",
                  [str(g) for g in fs])
    sj = _meth(ctx, "TunnelCommunity", "should_join_circuit", TC)
    cfgs = ctx.cfg(sj)
    # at the limit (`not relays + exits < max_joined_circuits`, in any spelling) every verdict that can be returned is False
    full = _World(sj, cfgs, {_K("lt", "len(self.relay_from_to) + len(self.exit_sockets)", "self.settings.max_joined_circuits", integer=True): False})
    rets = _return_sites(sj)
    refuses = False
    for r in rets:
        if not full.reaches(r):
            ctx.instance("join-limit", sj.where, "return not taken at the limit", line=r.lineno)
            continue
        vals = set()
        if r.value is not None:
            for n in cfgs.nodes_for(r):
                vals |= full.ev(r.value, n)
        else:
            vals = {False}
        refuses = refuses or vals == {False}
        const = isinstance(r.value, ast.Constant)
        ctx.check(vals == {False}, "join-limit", sj, r, "at relays+exits >= max_joined_circuits the verdict is False",
                  "should_join_circuit admits a circuit at or above the joined-circuit limit" if const or True in vals else
                  "should_join_circuit returns a non-constant verdict", [f"verdict at the limit: {sorted(map(str, vals))}"])
    ctx.check(refuses and cfgs.exit not in full.reach(cut_nodes=[n for r in rets for n in cfgs.nodes_for(r)], follow_exc=False),
              "join-limit", sj, sj.node, "a refusing branch exists", "should_join_circuit never refuses")
    # ---- relay_early
    rc = _meth(ctx, "PythonCryptoEndpoint", "relay_cell", CR)
    cfgr = ctx.cfg(rc)
    # assumption "the cell carries relay_early and the route's budget is used up": the send must be unreachable, whatever
    # else is tested on the way (an extra conjunct such as a direction test leaves the send reachable and is reported)
    k_early = _K("truthy", "cell.relay_early")
    k_left = _K("lt", "next_relay.relay_early_count", "self.max_relay_early", integer=True)
    for ch in ctx.anchor(_site_chains(ctx, rc, "self.endpoint.send"), "send in relay_cell"):
        f, s = ch[-1]
        cfgf = ctx.cfg(f)
        live, blocked = _blocked_under(ctx, ch, {k_early: True, k_left: False})
        ctx.check(live and blocked, "relay-early-budget", f, s,
                  "no path forwards a relay_early cell once the relay's budget is used up",
                  "a relay forwards relay_early cells beyond max_relay_early (the send is reachable with relay_early set and "
                  "relay_early_count >= max_relay_early)")
        ok = False
        for lvl in range(len(ch) - 1, -1, -1):                      # counted in the function that sends, or by its caller right after
            f2, c2 = ch[lvl]
            cfg2 = ctx.cfg(f2)
            route = "next_relay"
            if lvl > 0:
                back = {strip_cast(a).id: p for p, a in _bind_args(f2, ch[lvl - 1][1]).items() if isinstance(strip_cast(a), ast.Name)}
                route = back.get("next_relay", "next_relay") if lvl == 1 else route
            incs = [n for st in walk_no_nested(f2.node) if isinstance(st, ast.stmt) and _is_increment(st, f"{route}.relay_early_count")
                    for n in cfg2.nodes_for(st)]
            if incs and all(cfg2.always_followed_by(sn, incs) for sn in cfg2.nodes_for(c2)):
                ok = True
                break
        ctx.check(ok, "relay-early-budget", f, s, "every forwarded cell increments the relay's relay_early counter",
                  "forwarded relay_early cells are not counted")
    d = single_def(rc, "next_relay")
    ctx.check(d is not None and d[1] is None and "self.relays[cell.circuit_id]" in _texts(rc, d[0]), "relay-early-budget", rc, rc.node,
              "budget is the one of the route the cell is relayed over", "the relay_early budget of a different route is consulted")
    mre = repo.cls("PythonCryptoEndpoint", CR).methods.get("max_relay_early")
    ok = mre is not None
    if mre is not None:
        cfgm = ctx.cfg(mre)
        for has, want in ((True, lambda e: norm(strip_cast(e)) == "self.settings.max_relay_early"),
                          (False, lambda e: isinstance(const_value(e), int) and not isinstance(const_value(e), bool) and const_value(e) > 0)):
            w = _World(mre, cfgm, {_K("truthy", "self.settings"): has})
            seen = 0
            for r in _return_sites(mre):
                if not w.reaches(r) or r.value is None:
                    continue
                seen += 1
                vs = [r.value]
                while any(isinstance(strip_cast(v), ast.IfExp) for v in vs):
                    nv = []
                    for v in vs:
                        v = strip_cast(v)
                        if isinstance(v, ast.IfExp):
                            t = set()
                            for n in cfgm.nodes_for(r):
                                t |= w.ev(v.test, n)
                            nv += ([v.body] if t - {False} else []) + ([v.orelse] if t - {True} else [])
                        else:
                            nv.append(v)
                    vs = nv
                ok = ok and all(want(resolve(mre, v)) for v in vs)
            ok = ok and seen > 0
    ctx.check(ok, "relay-early-budget", mre or rc, (mre or rc).node, "max_relay_early is the configured setting (default 8)",
              "the relay_early budget is not the configured number")
    # ---- originator: flag == (extend or budget left), decided as a truth table over the two conditions
    sc = _meth(ctx, "PythonCryptoEndpoint", "send_cell", CR)
    cfgs2 = ctx.cfg(sc)
    sts = [s for s, t in stores(sc, "cell.relay_early")]
    cnt = [s for s, t in stores(sc, "circuit.relay_early_count")]
    k_ext = _K("eq", "cell.message[0]", "4")
    k_own = _K("lt", "circuit.relay_early_count", "self.max_relay_early", integer=True)
    k_circ = _K("truthy", "circuit")
    sendn = [n for c in calls(sc, "self.endpoint.send") for n in cfgs2.nodes_for(c)]
    marks = bool(sts) and bool(sendn)
    counts = marks and bool(cnt) and all(_is_increment(c, "circuit.relay_early_count") for c in cnt)
    incn = [n for c in cnt for n in cfgs2.nodes_for(c)]
    probe = ast.parse("cell.relay_early", mode="eval").body
    if marks:
        for ext in (True, False):
            for own in (True, False):
                # for a cell sent over one of our own circuits: the flag that goes out is exactly (extend or budget left)
                w = _World(sc, cfgs2, {k_ext: ext, k_own: own, k_circ: True})
                vals = set()
                for n in sendn:
                    if n in w.reach():
                        vals |= w.value_at("cell.relay_early", probe, n)
                marks = marks and vals == {ext or own}
                if not counts:
                    continue
                if ext or own:
                    # no normal run  entry -> send -> exit  that avoids the increment, and none that counts twice
                    r1 = w.reach(cut_nodes=incn, follow_exc=False)
                    for sn in [n for n in sendn if n in r1]:
                        if cfgs2.exit in w.reach([v for v, lab in sn.succ if lab != "exc"], cut_nodes=incn, follow_exc=False):
                            counts = False
                    for i in incn:
                        if any(j in w.reach([v for v, lab in i.succ if lab != "exc"], follow_exc=False) for j in incn):
                            counts = False
                elif any(n in w.reach(follow_exc=False) for n in incn):
                    counts = False
    ctx.check(marks, "relay-early-budget", sc, sc.node, "originator marks relay_early exactly for extend or while its own budget lasts",
              "the originator marks cells relay_early without budget")
    ctx.check(counts, "relay-early-budget", sc, sc.node, "originator counts every relay_early cell it sends (and only those)",
              "originator's relay_early cells are not counted")
    pc = _meth(ctx, "PythonCryptoEndpoint", "process_cell", CR)
    for ch in ctx.anchor(_site_chains(ctx, pc, "self.tunnel_community.on_packet"), "on_packet in process_cell"):
        f, s = ch[-1]
        live, blocked = _blocked_under(ctx, ch, {k_early: False, k_ext: True})
        ctx.check(live and blocked, "relay-early-budget", f, s,
                  "an extend that arrives without relay_early is dropped", "extend cells are accepted without the relay_early flag")


def rule_retry(ctx: Ctx) -> None:
    repo = ctx.repo
    ot = _meth(ctx, "RetryRequestCache", "on_timeout", CA)
    cfg = ctx.cfg(ot)

    def gives_up(f, c) -> bool:
        return call_name(c) == "remove_circuit" and "self.circuit.circuit_id" in _texts(f, arg(c, 0, "circuit_id"))
    rm = _passes_always(ctx, ot, gives_up, depth=1)
    ctx.check(bool(rm), "retry-gives-up", ot, ot.node, "on_timeout removes the circuit when it gives up", "a failed circuit build is never removed")
    # the retry passes the remaining candidates / tries on (closure, or a method of the cache handed to the task)
    rcls = repo.cls("RetryRequestCache", CA)
    retry = [c for f2 in ot.module.all_functions if f2.qualname.startswith("RetryRequestCache.") and (f2.qualname.startswith("RetryRequestCache.on_timeout.") or _is_new(f2))
             for c in calls(f2) if chain(c.func) == "self.retry_func"]
    retry += [c for c in calls(ot) if chain(c.func) == "self.retry_func"]
    ctx.check(len(retry) == 1 and [norm(a) for a in retry[0].args] == ["self.circuit", "self.candidates", "self.max_tries"] and not retry[0].keywords,
              "retry-gives-up", ot, ot.node,
              "retry passes (circuit, remaining candidates, remaining tries)", "retry does not pass the remaining tries on")
    # with no tries left, or no candidate left, (and the circuit not already closing) nothing is scheduled and the circuit is removed
    k_closing = _K("eq", "self.circuit.state", "CIRCUIT_STATE_CLOSING")
    worlds = (("max_tries < 1", {_K("lt", "self.max_tries", "1", integer=True): True, k_closing: False}),
              ("no candidates", {_K("truthy", "self.candidates"): False, k_closing: False}))
    reg = [c for c in calls(ot) if call_name(c) in ("register_anonymous_task", "register_task", "ensure_future", "create_task")] + \
          [c for c in calls(ot) if chain(c.func) == "self.retry_func"]
    ctx.anchor(reg, "retry scheduling in RetryRequestCache.on_timeout")
    for c in reg:
        bad = [name for name, a in worlds if _World(ot, cfg, a).reaches(c)]
        ctx.check(not bad, "retry-gives-up", ot, c, "retry scheduled only while max_tries >= 1 and candidates remain",
                  "the build retry is scheduled without tries left: it can retry forever", [f"reachable with {b}" for b in bad])
    for name, a in worlds:
        w = _World(ot, cfg, a)
        ctx.check(bool(rm) and cfg.exit not in w.reach(cut_nodes=rm, follow_exc=False), "retry-gives-up", ot, ot.node,
                  f"on_timeout removes the circuit when it gives up ({name})",
                  f"on_timeout can finish without retrying and without removing the circuit ({name}): the half-built circuit is left to the one-hour age limit")
    for meth in ("send_initial_create", "send_extend"):
        fi = _meth(ctx, "TunnelCommunity", meth, TC)
        for c in calls(fi, "RetryRequestCache"):
            ok = "max_tries - 1" in _texts(fi, arg(c, 3, "max_tries")) and "max_tries" in fi.params() and not local_defs(fi, "max_tries")
            ctx.check(ok, "retry-gives-up", fi, c, f"{meth}: the new retry cache gets max_tries - 1", f"{meth} does not decrease the remaining tries")
            ctx.check("self.settings.next_hop_timeout" in _texts(fi, arg(c, 5, "timeout")), "retry-gives-up", fi, c, "attempt timeout is settings.next_hop_timeout",
                      "attempt timeout is not the configured one")
    _rule_watchdog(ctx)
    td = rcls.methods.get("timeout_delay")
    ok = td is not None and bool(_return_sites(td)) and all(r.value is not None and _texts(td, r.value)[-1] in ("float(self.timeout)", "self.timeout")
                                                            for r in _return_sites(td))
    ctx.check(ok, "retry-gives-up", td or ot, (td or ot).node, "retry cache times out after the given timeout", "retry cache timeout is not the configured one")


def _retry_cache_pops(repo):
    """(function, call) of every `<request cache>.pop(RetryRequestCache, ...)` in the anonymization package."""
    for m, fi, c in repo.callers_of_name("pop"):
        if fi is None or not m.relpath.startswith("ipv8/messaging/anonymization/"):
            continue
        if arg(c, 0) is not None and chain(resolve(fi, arg(c, 0))) == "RetryRequestCache":
            yield fi, c


def _rule_watchdog(ctx: Ctx) -> None:
    """
    The RetryRequestCache of a circuit under construction is the only timer that gives up on it (the inactivity sweep looks at
    READY circuits only, an unanswered or rejected hop produces no message at all; what remains is the one-hour age limit).  So it may be taken out of the
    request cache only (a) by remove_circuit itself, (b) when the circuit is READY, or (c) when every normal continuation
    arms a new one (request_cache.add of a fresh RetryRequestCache, directly or through send_initial_create/send_extend) or
    removes the circuit; and, where the hop's answer is authenticated in the same function, only after that succeeded.
    """
    repo = ctx.repo
    rule = "retry-gives-up"

    def settle_call(rearm):
        def is_target(fi: FuncInfo, c: ast.Call) -> bool:
            nm = call_name(c)
            if nm == "remove_circuit":
                return True
            if nm == "add" and (chain(c.func) or "").endswith("request_cache.add"):
                v = resolve(fi, arg(c, 0))
                return isinstance(v, ast.Call) and chain(v.func) == "RetryRequestCache"
            return nm in rearm and chain(c.func) == f"self.{nm}"
        return is_target

    def settles(fi: FuncInfo, cfg, rearm) -> list:
        """CFG nodes of fi after which the circuit is watched again or being removed (also through helpers that always do so)."""
        return _passes_always(ctx, fi, settle_call(rearm), depth=1)

    # functions that, on every normal path, arm a new retry cache or remove the circuit
    rearm: set[str] = set()
    makers = {fi.qualname: fi for m, fi, c in repo.callers_of_name("RetryRequestCache")
              if fi is not None and m.relpath.startswith("ipv8/messaging/anonymization/") and fi.cls is not None}
    changed = True
    while changed:
        changed = False
        for fi in makers.values():
            if fi.name in rearm:
                continue
            cfg = ctx.cfg(fi)
            if cfg.exit not in cfg.reach(cut_nodes=settles(fi, cfg, rearm), follow_exc=False):
                rearm.add(fi.name)
                changed = True

    def judge(fi: FuncInfo, site: ast.AST, depth: int = 2):
        """(ready, followed, verified, facts) for taking the watchdog out at `site` of fi; a NEW private helper is judged at its call sites too."""
        cfg = ctx.cfg(fi)
        fs = _facts(fi, cfg, site)
        ready = any(g.op == "eq" and g.pos and "CIRCUIT_STATE_READY" in (norm(g.left), norm(g.right)) and
                    (norm(g.left).endswith(".state") or norm(g.right).endswith(".state")) for g in fs)
        tg = settles(fi, cfg, rearm)
        followed = bool(tg) and all(cfg.always_followed_by(pn, [t for t in tg if t is not pn]) or pn in tg for pn in cfg.nodes_for(site))
        ver = [x for v in calls(fi) if call_name(v) == "verify_and_generate_shared_secret" for x in cfg.nodes_for(v)]
        verified = None if not ver else all(cfg.must_complete(pn, ver) for pn in cfg.nodes_for(site))
        if depth > 0 and _is_new(fi) and _private(fi) and not (ready or followed) or depth > 0 and _is_new(fi) and _private(fi) and verified is None:
            users = [(g, c) for m, g, c in repo.callers_of_name(fi.name) if g is not None and g.node is not fi.node]
            values = [a for m, g, a in repo.attribute_uses(fi.name) if not (isinstance(getattr(a, "_parent", None), ast.Call) and a._parent.func is a)]
            if values or not users:
                if not (ready or followed):
                    raise AnalysisError(f"undecided: {fi.qualname} pops the RetryRequestCache and is reached through a table / callback: its callers cannot be judged")
            else:
                sub = [judge(g, c, depth - 1) for g, c in users]
                ready = ready or all(s[0] for s in sub)
                followed = followed or all(s[1] for s in sub)
                if verified is None and any(s[2] is not None for s in sub):
                    verified = all(s[2] is not False for s in sub)
                fs = fs + [g for s in sub for g in s[3]]
        return ready, followed, verified, fs

    n = 0
    for fi, c in _retry_cache_pops(repo):
        n += 1
        if fi.name == "remove_circuit" or _only_reached_from(repo, fi, ("TunnelCommunity.remove_circuit",)):
            ctx.instance(rule, fi.where, "retry cache dropped by remove_circuit itself", line=c.lineno)
            continue
        ready, followed, verified, fs = judge(fi, c)
        ctx.check(ready or followed, rule, fi, c,
                  f"{fi.name}: the build watchdog is taken out only for a READY circuit or when a new one is armed / the circuit removed on every continuation",
                  f"{fi.qualname} pops the circuit's RetryRequestCache although a normal continuation neither arms a new one nor removes the circuit: "
                  "a circuit that is still being built loses the only timer that gives up on it (the inactivity sweep skips non-READY circuits), so its "
                  "entry outlives the build timeout and is left to the one-hour age limit",
                  [str(g) for g in fs])
        if verified is not None:
            ctx.check(verified, rule, fi, c, f"{fi.name}: the watchdog is released only after the hop's answer was verified",
                      f"{fi.qualname} pops the RetryRequestCache before verify_and_generate_shared_secret has succeeded: if verification fails or raises, "
                      "nothing times the half-built circuit out any more")
    ctx.floor("retry-gives-up.watchdog-pops", n, 4)


HEARTBEAT_CALLERS = {
    # function -> why refreshing activity there is legitimate (traffic was received and authenticated / accepted)
    "PythonCryptoEndpoint.process_cell": "cell received for this circuit / relay",
    "TunnelCommunity.on_data": "data received over our own circuit",
    "TunnelCommunity.on_ping": "ping received on an exit socket",
    "TunnelCommunity.on_pong": "pong received for our circuit",
    "TunnelCommunity.on_test_request": "speed-test request received on an exit socket",
    "TunnelExitSocket.sendto": "data left through the exit socket",
    "HiddenTunnelCommunity.on_raw_data": "e2e data received",
}


def rule_heartbeat(ctx: Ctx) -> None:
    repo = ctx.repo
    n = 0
    for m, fi, c in repo.callers_of_name("beat_heart"):
        if fi is None or not m.relpath.startswith("ipv8/messaging/anonymization/"):
            continue
        n += 1
        # a NEW private helper / closure that only the receive paths below use acts on their behalf
        ok = fi.qualname in HEARTBEAT_CALLERS or _only_reached_from(repo, fi, HEARTBEAT_CALLERS)
        ctx.check(ok, "sweep-coverage", fi, c, f"beat_heart in {fi.qualname}: {HEARTBEAT_CALLERS.get(fi.qualname, 'helper of a receive path')}",
                  f"{fi.qualname} refreshes last_activity (`{norm(c)}`) although it is not a receive path: own traffic (e.g. periodic pings sent every 7.5 s) keeps "
                  "an abandoned entry 'active', so the inactivity sweep never reclaims it")
    ctx.floor("sweep-coverage.heartbeat-sites", n, 5)
    writers = ("RoutingObject.__init__", "RoutingObject.beat_heart")
    for m, fi, a in repo.attribute_uses("last_activity"):
        if isinstance(a.ctx, ast.Store) and fi is not None:
            ctx.check(fi.qualname in writers or _only_reached_from(repo, fi, writers), "sweep-coverage", fi, enclosing_stmt(a),
                      "last_activity written only by the constructor and beat_heart", "last_activity is written outside beat_heart")
    rule_transports_stored(ctx)


def rule_transports_stored(ctx: Ctx, rule: str = "remove-removes") -> None:
    """Opened outside sockets are stored on the exit socket in the statement that opens them (so close() can always find them)."""
    repo = ctx.repo
    n = 0
    for fi0 in repo.module("ipv8/messaging/anonymization/exit_socket.py").all_functions:
        if not fi0.qualname.startswith("TunnelExitSocket."):
            continue
        fi = _view(ctx, fi0)
        for c in calls(fi):
            base = resolve(fi, c.func.value) if call_name(c) == "open" and isinstance(c.func, ast.Attribute) else None
            if isinstance(base, ast.Call) and chain(base.func) == "TunnelProtocol":
                n += 1
                st = enclosing_stmt(c)
                ok = isinstance(st, ast.Assign) and len(st.targets) == 1 and (chain(st.targets[0]) or "").startswith("self.transport_") and \
                    isinstance(st.value, ast.Await) and st.value.value is c
                ctx.check(ok, rule, fi, st, "each opened transport is assigned to self.transport_* in the statement that awaits its open()",
                          "an opened outside socket is held only in a local/gather result until later: if the task is cancelled (circuit removed, unload) or the other "
                          "open fails, close() never sees it and the UDP socket leaks")
    ctx.floor(f"{rule}.transport-opens", n, 2)


def run(ctx: Ctx) -> None:
    rule_heartbeat(ctx)
    rule_sweep(ctx)
    rule_remove_removes(ctx)
    rule_destroy_propagates(ctx)
    rule_limits(ctx)
    rule_retry(ctx)
    ctx.assume("asyncio timers fire; RequestCache timeouts fire once (C10); TaskManager keeps @task coroutines alive until unload (C11)")
    ctx.assume("the bound `max_time_inactive + sweep interval + remove_tunnel_delay` follows from the checked structure; it is not measured")


WITNESSES = [
    {"name": "relay sweep dropped", "file": TC, "rule": "sweep-coverage",
     "old": "        for circuit_id, relay in list(self.relay_from_to.items()):\n            if relay.last_activity < time.time() - self.settings.max_time_inactive:\n                self.remove_relay(circuit_id, \"no activity\")\n            elif",
     "new": "        for circuit_id, relay in list(self.relay_from_to.items()):\n            if relay.bytes_up + relay.bytes_down == 0 and relay.last_activity < time.time() - self.settings.max_time_inactive:\n                self.remove_relay(circuit_id, \"no activity\")\n            elif"},
    {"name": "exit sweep stops at first live socket", "file": TC, "rule": "sweep-coverage",
     "old": "            elif exit_socket.bytes_up + exit_socket.bytes_down > self.settings.max_traffic:\n                self.remove_exit_socket(circuit_id, \"traffic limit exceeded\", destroy=True)\n",
     "new": "            elif exit_socket.bytes_up + exit_socket.bytes_down > self.settings.max_traffic:\n                self.remove_exit_socket(circuit_id, \"traffic limit exceeded\", destroy=True)\n            else:\n                break\n"},
    {"name": "sweep skipped when nothing to build", "file": TC, "rule": "sweep-coverage",
     "old": "            if not num_to_build:\n                continue\n", "new": "            if not num_to_build:\n                return\n"},
    {"name": "exit inactivity compares creation time only", "file": TC, "rule": "sweep-coverage",
     "old": "            if exit_socket.last_activity < time.time() - self.settings.max_time_inactive:\n                self.remove_exit_socket(circuit_id, \"no activity\")\n            elif exit_socket.creation_time",
     "new": "            if exit_socket.last_activity < time.time() - self.get_max_time(circuit_id):\n                self.remove_exit_socket(circuit_id, \"no activity\")\n            elif exit_socket.creation_time"},
    {"name": "remove_relay keeps entry when destroy requested", "file": TC, "rule": "remove-removes",
     "old": "        self.logger.info(\"Removing relay %d %s\", circuit_id, additional_info)\n\n        return self.relay_from_to.pop(circuit_id, None)",
     "new": "        self.logger.info(\"Removing relay %d %s\", circuit_id, additional_info)\n        if destroy and remove_now:\n            return None\n\n        return self.relay_from_to.pop(circuit_id, None)"},
    {"name": "exit socket not closed", "file": TC, "rule": "remove-removes",
     "old": "            if exit_socket.enabled:\n                await exit_socket.close()\n            await exit_socket.shutdown_task_manager()",
     "new": "            await exit_socket.shutdown_task_manager()"},
    {"name": "close forgets ipv6 transport", "file": "ipv8/messaging/anonymization/exit_socket.py", "rule": "remove-removes",
     "old": "        if self.transport_ipv6:\n            self.transport_ipv6.close()\n            self.transport_ipv6 = None", "new": "        self.transport_ipv6 = None"},
    {"name": "exit entry popped outside remove_exit_socket", "file": TC, "rule": "remove-removes",
     "old": "            self.remove_exit_socket(request.from_circuit_id, remove_now=True)\n",
     "new": "            dropped = self.exit_sockets.pop(request.from_circuit_id)\n            self.register_anonymous_task(\"shutdown_exit_socket\", dropped.shutdown_task_manager)\n"},
    {"name": "join limit decided on a stale spelling (admits at the limit)", "file": TC, "rule": "join-limit",
     "old": "if self.settings.max_joined_circuits <= len(self.relay_from_to) + len(self.exit_sockets):",
     "new": "if self.settings.max_joined_circuits < len(self.relay_from_to) + len(self.exit_sockets):"},
    {"name": "retry gives up without removing the circuit", "file": CA, "rule": "retry-gives-up",
     "old": "            self.community.remove_circuit(self.circuit.circuit_id, reason)\n            return\n",
     "new": "            if self.candidates:\n                self.community.remove_circuit(self.circuit.circuit_id, reason)\n            return\n"},
    {"name": "destroy bounced instead of forwarded", "file": TC, "rule": "destroy-propagates",
     "old": "            self.remove_relay(circuit_id, f\"got destroy with reason {payload.reason}\", destroy=payload.reason)\n            self.remove_relay(cast(\"RelayRoute\", next_relay).circuit_id, f\"got destroy with reason {payload.reason}\")",
     "new": "            self.remove_relay(circuit_id, f\"got destroy with reason {payload.reason}\")\n            self.remove_relay(cast(\"RelayRoute\", next_relay).circuit_id, f\"got destroy with reason {payload.reason}\", destroy=payload.reason)"},
    {"name": "relay removes one direction only", "file": TC, "rule": "destroy-propagates",
     "old": "            self.remove_relay(cast(\"RelayRoute\", next_relay).circuit_id, f\"got destroy with reason {payload.reason}\")\n", "new": ""},
    {"name": "join limit off by table", "file": TC, "rule": "join-limit",
     "old": "if self.settings.max_joined_circuits <= len(self.relay_from_to) + len(self.exit_sockets):",
     "new": "if self.settings.max_joined_circuits <= len(self.exit_sockets):"},
    {"name": "join ignores verdict", "file": TC, "rule": "join-limit",
     "old": "        result = await self.should_join_circuit(payload, source_address)\n        if result:\n            self.join_circuit(payload, source_address)",
     "new": "        result = await self.should_join_circuit(payload, source_address)\n        if result is not None:\n            self.join_circuit(payload, source_address)"},
    {"name": "relay_early budget not enforced", "file": CR, "rule": "relay-early-budget",
     "old": "        if cell.relay_early and next_relay.relay_early_count >= self.max_relay_early:\n            self.logger.warning(\"Dropping cell (too many relay_early cells)\")\n            return\n",
     "new": "        if cell.relay_early and next_relay.relay_early_count >= self.max_relay_early:\n            self.logger.warning(\"Dropping cell (too many relay_early cells)\")\n"},
    {"name": "relay_early counter only on rendezvous", "file": CR, "rule": "relay-early-budget",
     "old": "        next_relay.bytes_up += len(packet)\n        next_relay.relay_early_count += 1",
     "new": "        next_relay.bytes_up += len(packet)\n        if next_relay.rendezvous_relay:\n            next_relay.relay_early_count += 1"},
    {"name": "relay_early budget only for forward routes", "file": CR, "rule": "relay-early-budget",
     "old": "        if cell.relay_early and next_relay.relay_early_count >= self.max_relay_early:",
     "new": "        if cell.relay_early and next_relay.direction == FORWARD and next_relay.relay_early_count >= self.max_relay_early:"},
    {"name": "originator budget off by one", "file": CR, "rule": "relay-early-budget",
     "old": "circuit.relay_early_count < self.max_relay_early", "new": "circuit.relay_early_count <= self.max_relay_early"},
    {"name": "retry cache released before the hop is verified", "file": TC, "rule": "retry-gives-up",
     "old": "        try:\n            shared_secret = self.crypto.verify_and_generate_shared_secret(",
     "new": "        self.request_cache.pop(RetryRequestCache, circuit.circuit_id)\n        try:\n            shared_secret = self.crypto.verify_and_generate_shared_secret("},
    {"name": "retry does not decrease tries", "file": TC, "rule": "retry-gives-up",
     "old": "        cache = RetryRequestCache(self, circuit, alt_first_hops, max_tries - 1,", "new": "        cache = RetryRequestCache(self, circuit, alt_first_hops, max_tries,"},
    {"name": "retry scheduled without tries", "file": CA, "rule": "retry-gives-up",
     "old": "        if not self.candidates or self.max_tries < 1:", "new": "        if not self.candidates:"},
]
