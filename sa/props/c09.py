"""C09 - Tunnel state is always reclaimed, whatever gets lost."""
from __future__ import annotations

import ast

from ..core import Ctx

from ..localnames import load_table
from ..match import Fact, arg, call_name, calls, fact_of, facts_at, is_param, local_defs, rchain, resolve, single_def, stores
from ..model import AnalysisError, FuncInfo, chain, clone, const_value, enclosing_stmt, norm, set_parents, strip_cast, walk_no_nested

LEVEL = "other"
EXPLANATION = (
    "Reclamation does not depend on any message arriving: do_remove sweeps a copy of each of the three tables with an "
    "inactivity (and age) test on every element, do_circuits calls it on every path and is registered with a positive "
    "interval; every remove_* reaches the table pop on every normal path after its bounded sleep, the exit variant closes "
    "the socket and its task manager; destroy is forwarded on exactly the far side; join limit; relay_early budget on the "
    "relay and the originator (decided on the CFG under the assumption 'flag set and budget used up', so extra conjuncts are "
    "seen); the build retry count strictly decreases and gives up by removing the circuit, and the retry cache is released "
    "only for a READY circuit, after the hop's answer was verified, or when a new one is armed / the circuit removed; entries leave "
    "exit_sockets only through remove_exit_socket (the one place that closes the outside sockets) and a new exit socket is never "
    "stored under an id that is still in the table (the old socket would drop out unclosed); from counting the joined circuits to "
    "storing the new exit socket nothing suspends (no await of anything but a never-suspending repository coroutine), so a burst of "
    "creates cannot pass the limit together. Conditions are decided on the CFG under assumptions (any spelling, aliases, "
    "decide-then-act incl. verdict records / Enum tags / tuples followed per value, NEW helpers followed with the assumption carried "
    "through their arguments, unrolled literal loops, comprehension / filter fed loops, match statements as if-chains, operator / "
    "functools spellings). The time bound itself and loss patterns are not explored (timers/schedules)."
)

TC = "ipv8/messaging/anonymization/community.py"
CR = "ipv8/messaging/anonymization/crypto.py"
CA = "ipv8/messaging/anonymization/caches.py"

SWEEP = {
    "self.circuits": ("remove_circuit", True),
    "self.relay_from_to": ("remove_relay", False),
    "self.exit_sockets": ("remove_exit_socket", True),
}


# ------------------------------------------------------------------------------------ spelling-independent guards
def _clone(n):
    """Copy of an expression tree over its syntactic fields only (the engine's parent links are not followed)."""
    if isinstance(n, ast.AST):
        return n.__class__(**{f: _clone(getattr(n, f, None)) for f in n._fields})
    if isinstance(n, list):
        return [_clone(x) for x in n]
    return n


class _Expand(ast.NodeTransformer):
    """Replace single-assignment locals by their defining expression and drop cast(); used on a deep copy only."""

    def __init__(self, fi: FuncInfo, depth: int = 3) -> None:
        self.fi, self.depth = fi, depth

    def visit_Call(self, n: ast.Call):
        s = strip_cast(n)
        if s is not n:
            return self.visit(s)
        return self.generic_visit(n)

    def visit_Name(self, n: ast.Name):
        if not isinstance(n.ctx, ast.Load) or self.depth <= 0:
            return n
        d = single_def(self.fi, n.id)
        if d is not None and d[1] is not None:
            d = self._element(n.id, d)                              # `a, b = pair` -> pair[0], pair[1]
        if d is None or d[1] is not None:
            return n
        v = strip_cast(d[0])
        if any(isinstance(x, (ast.Await, ast.Yield, ast.YieldFrom, ast.NamedExpr, ast.Lambda)) for x in ast.walk(v)):
            return n
        return _Expand(self.fi, self.depth - 1).visit(_clone(v))


def _expand_element(self, name: str, d):
    """single_def (value, index) of a tuple-unpacked local as (element expression, None); None when there is a starred part in the way."""
    st = local_defs(self.fi, name)[0][0]
    if not isinstance(st, ast.Assign) or len(st.targets) != 1 or not isinstance(st.targets[0], (ast.Tuple, ast.List)):
        return None
    elts = st.targets[0].elts
    if any(isinstance(x, ast.Starred) for x in elts[:d[1] + 1]) or not (d[1] < len(elts) and isinstance(elts[d[1]], ast.Name) and elts[d[1]].id == name):
        return None
    v = strip_cast(d[0])
    if isinstance(v, (ast.Tuple, ast.List)):
        if any(isinstance(x, ast.Starred) for x in v.elts[:d[1] + 1]) or d[1] >= len(v.elts):
            return None
        return v.elts[d[1]], None
    if isinstance(v, (ast.Name, ast.Attribute)):
        return ast.Subscript(value=_clone(v), slice=ast.Constant(value=d[1]), ctx=ast.Load()), None
    return None


_Expand._element = _expand_element


def _texts(fi: FuncInfo, e: ast.AST | None) -> list[str]:
    """Spellings of e: as written (cast-free) and with local aliases expanded (`delay = self.settings.x` ... `delay`)."""
    if e is None:
        return [""]
    out = [norm(strip_cast(e))]
    t = norm(_Expand(fi).visit(_clone(e)))
    if t not in out:
        out.append(t)
    return out


def _expand_text(fi: FuncInfo, text: str) -> str:
    return _texts(fi, ast.parse(text, mode="eval").body)[-1] if text else text


class _Key(tuple):
    """Canonical key of an atomic condition (a plain tuple for dict lookups) that remembers how it was declared."""
    raw = None          # (op, left text, right text, integer)
    flip = None         # for `lt`: the key of the opposite strict inequality shifted by one (equivalent over the integers)


def _parse(text: str):
    try:
        return ast.parse(text, mode="eval").body
    except SyntaxError:
        return None


def _lin(e: ast.AST, sign: int, terms: dict, k: list) -> None:
    """e as a signed sum: terms[text] += sign, numeric constants are added up in k[0]."""
    e = strip_cast(e)
    if isinstance(e, ast.BinOp) and isinstance(e.op, (ast.Add, ast.Sub)):
        _lin(e.left, sign, terms, k)
        _lin(e.right, sign if isinstance(e.op, ast.Add) else -sign, terms, k)
        return
    if isinstance(e, ast.UnaryOp) and isinstance(e.op, (ast.USub, ast.UAdd)):
        _lin(e.operand, -sign if isinstance(e.op, ast.USub) else sign, terms, k)
        return
    if isinstance(e, ast.Constant) and isinstance(e.value, (int, float)) and not isinstance(e.value, bool):
        k[0] += sign * e.value
        return
    parts = _sum_terms(e)
    if parts is not None:
        for x in parts:
            _lin(x, sign, terms, k)
        return
    t = norm(e)
    if t == "time()":
        t = "time.time()"
    terms[t] = terms.get(t, 0) + sign


def _sum_terms(e: ast.AST):
    """The summands of sum((a, b)), sum(map(f, (x, y))), sum(f(t) for t in (x, y)), reduce(add, ...[, 0]) over a literal tuple / list; else None."""
    if not (isinstance(e, ast.Call) and not e.keywords and e.args and not any(isinstance(a, ast.Starred) for a in e.args)):
        return None
    fn = chain(e.func)
    seq = None
    if fn == "sum" and len(e.args) in (1, 2):
        seq, start = e.args[0], e.args[1] if len(e.args) == 2 else None
    elif fn in ("reduce", "functools.reduce") and len(e.args) in (2, 3) and chain(e.args[0]) in ("add", "operator.add"):
        seq, start = e.args[1], e.args[2] if len(e.args) == 3 else None
    if seq is None or start is not None and not (isinstance(start, ast.Constant) and start.value == 0 and not isinstance(start.value, bool)):
        return None
    seq = strip_cast(seq)
    if isinstance(seq, (ast.Tuple, ast.List)) and seq.elts and not any(isinstance(x, ast.Starred) for x in seq.elts):
        return list(seq.elts)
    if isinstance(seq, ast.Call) and chain(seq.func) == "map" and len(seq.args) == 2 and not seq.keywords and isinstance(seq.args[0], (ast.Name, ast.Attribute)) \
            and isinstance(strip_cast(seq.args[1]), (ast.Tuple, ast.List)) and strip_cast(seq.args[1]).elts \
            and not any(isinstance(x, ast.Starred) for x in strip_cast(seq.args[1]).elts):
        return [ast.Call(func=seq.args[0], args=[x], keywords=[]) for x in strip_cast(seq.args[1]).elts]
    if isinstance(seq, (ast.GeneratorExp, ast.ListComp)) and len(seq.generators) == 1 and not seq.generators[0].ifs and not seq.generators[0].is_async \
            and isinstance(seq.generators[0].target, ast.Name) and isinstance(strip_cast(seq.generators[0].iter), (ast.Tuple, ast.List)) \
            and strip_cast(seq.generators[0].iter).elts and not any(isinstance(x, ast.Starred) for x in strip_cast(seq.generators[0].iter).elts):
        var = seq.generators[0].target.id

        class Put(ast.NodeTransformer):
            def __init__(self_, v):  # noqa: N805
                self_.v = v

            def visit_Name(self_, n):  # noqa: N805
                return _clone(self_.v) if n.id == var else n
        return [Put(x).visit(_clone(seq.elt)) for x in strip_cast(seq.generators[0].iter).elts]
    return None


def _canon_sum(terms: dict, k) -> tuple[str, str]:
    if isinstance(k, float) and k.is_integer():
        k = int(k)
    return "".join(f"{c:+d}*{t}" for t, c in sorted(terms.items()) if c), repr(k)


def _lt_keys(le: ast.AST, re_: ast.AST):
    """`le < re_` as `sum + k < 0` (so a < b, b > a, 0 < b - a, a - b < 0 ... share one key) and its integer twin."""
    terms: dict = {}
    k = [0]
    _lin(le, 1, terms, k)
    _lin(re_, -1, terms, k)
    return ("lt", *_canon_sum(terms, k[0])), ("lt", *_canon_sum({t: -c for t, c in terms.items()}, -k[0] - 1))


def _K(op: str, left: str, right: str = "", integer: bool = False) -> tuple[str, str, str]:
    """
    Canonical key of an atomic condition; `eq` is symmetric, `lt` is `left < right` (match.fact_of orientation) brought to
    the form `signed sum < 0`.  integer=True declares both sides integer-valued: then `not (S + k < 0)` is the same
    condition as `-S - k - 1 < 0` (`n < 1` / `n <= 0` / `not n > 0`), which _World uses to recognise either spelling.
    """
    flip = None
    if op == "eq":
        l2, r2 = sorted((left, right))
        key = (op, l2, r2)
    elif op == "lt" and _parse(left) is not None and _parse(right) is not None:
        key, flip = _lt_keys(_parse(left), _parse(right))
    else:
        key = (op, left, right)
    out = _Key(key)
    out.raw = (op, left, right, integer)
    out.flip = flip
    return out


def _keys(fi: FuncInfo, atom: ast.AST) -> list[tuple[tuple[str, str, str], bool]]:
    """(key, polarity) candidates for one CFG atom: the atom is true iff key holds == polarity."""
    f = fact_of(strip_cast(atom), True)
    out = []
    for l in _texts(fi, f.left):
        for r in _texts(fi, f.right):
            k = (_K(f.op, l, r), f.pos)
            if k not in out:
                out.append(k)
            # emptiness of a sized object spelled through len(): len(x) == 0, len(x) > 0, len(x) < 1, len(x) ...
            for a, b, flip in ((l, r, False), (r, l, True)):
                if not (a.startswith("len(") and a.endswith(")") and _parse(a) is not None and isinstance(_parse(a), ast.Call) and len(_parse(a).args) == 1):
                    continue
                x = norm(_parse(a).args[0])
                k2 = None
                if f.op == "truthy" and not flip:
                    k2 = (_K("truthy", x), f.pos)
                elif f.op == "eq" and b == "0":
                    k2 = (_K("truthy", x), not f.pos)
                elif f.op == "lt" and (not flip and b == "1" or flip and b == "0"):   # len(x) < 1  /  0 < len(x)
                    k2 = (_K("truthy", x), not f.pos if not flip else f.pos)
                if k2 is not None and k2 not in out:
                    out.append(k2)
    return out


def _and3(a, b):
    return False if a is False or b is False else True if a is True and b is True else None


class _World:
    """
    The function's CFG under an assumption on named atomic conditions ({key: bool}).  Conditions are evaluated
    three-valued (True / False / None = unknown) after canonicalisation (negation, de Morgan and nesting are already
    split by the CFG; flipped comparisons, `!=`, `not a < b`, local aliases by _keys), locals and attributes assigned
    in the function are followed through their reaching definitions.  An edge is removed only when its condition
    definitely has the other value, so reachability here over-approximates the runs that satisfy the assumption.
    """

    def __init__(self, fi: FuncInfo, cfg, assume: dict, pinned=(), ctx: Ctx | None = None, params: dict | None = None, level: int = 0) -> None:
        self.fi, self.cfg, self.assume = fi, cfg, {}
        # pinned: CFG nodes (loop heads) whose bindings the assumption talks about ("for the entry of this iteration")
        self.pinned = set(pinned)
        # ctx: lets the world follow calls of NEW helpers and recognise record / Enum classes (None: the function alone)
        # params: parameter name -> (abstract values, truth values) the caller of this helper passes; level: helper nesting
        self.ctx, self.params, self.level = ctx, dict(params or {}), level
        self.bound: dict = {}
        self.keys: list = []                                        # (declared key, value) incl. alias-expanded variants
        for key, v in assume.items():
            variants = [key]
            raw = getattr(key, "raw", None)
            if raw is not None:                                     # the same key with this function's aliases expanded
                variants.append(_K(raw[0], _expand_text(fi, raw[1]), _expand_text(fi, raw[2]), raw[3]))
            for kk in variants:
                self.assume.setdefault(tuple(kk), v)
                if raw is not None:
                    self.keys.append((kk, v))
                if raw is not None and raw[3] and getattr(kk, "flip", None) is not None:
                    self.assume.setdefault(tuple(kk.flip), not v)
        self._memo: dict = {}
        self._defs: dict = {}
        self._hret: dict = {}
        self._proj_nodes: dict = {}
        self._fixed = None                                          # (local, abstract value, CFG node): the value the local has when that node runs

    # -- edges
    def _cannot_raise(self, u) -> bool:
        """The only thing that could raise at u is `T[k]` for a table / key pair assumed `k in T`: under the assumption it does not."""
        if u.kind not in ("stmt", "cond") or u.ast is None or isinstance(u.ast, (ast.Raise, ast.Assert, ast.With, ast.AsyncWith)):
            return False
        k = ("exc", u.id)
        if k not in self._memo:
            ins = [kk for kk, v in self.assume.items() if kk[0] == "in" and v is True]
            hit = []
            if ins:
                for x in ast.walk(u.ast):
                    if isinstance(x, ast.Subscript) and isinstance(x.ctx, ast.Load) and \
                            any(("in", a, b) in ins for a in _texts(self.fi, x.slice) for b in _texts(self.fi, x.value)) and self._stable(x, u):
                        hit.append(x)
            ok = False
            if hit:
                from ..cfg import expr_may_raise
                probe = _clone(u.ast)
                ids = {norm(h) for h in hit}

                class Rep(ast.NodeTransformer):
                    def visit_Subscript(self_, n):  # noqa: N805
                        if isinstance(n.ctx, ast.Load) and norm(n) in ids:
                            return ast.Name(id="_present_", ctx=ast.Load())
                        return self_.generic_visit(n)
                ok = not expr_may_raise(Rep().visit(probe))
            self._memo[k] = ok
        return self._memo[k]

    def _cut(self, u, lab, deep: bool) -> bool:
        if lab == "exc":
            return self._cannot_raise(u)
        if u.kind != "cond" or not isinstance(lab, bool):
            return False
        k = (u.id, deep)
        if k not in self._memo:
            self._memo[k] = None            # cycle guard: unknown
            self._memo[k] = self.ev(u.ast, u, deep)
        vals = self._memo[k]
        return vals is not None and (vals == {True} and lab is False or vals == {False} and lab is True)

    def cut_direct(self, u, v, lab) -> bool:
        return self._cut(u, lab, False)

    def cut(self, u, v, lab) -> bool:
        return self._cut(u, lab, True)

    def reach(self, starts=None, *, cut_nodes=(), follow_exc: bool = True, cut_out_normal=()):
        base = self.cfg.reach(starts, cut_nodes=cut_nodes, cut_edge=self.cut, follow_exc=follow_exc, cut_out_normal=cut_out_normal)
        for var in self._decision_vars():
            base &= self._reach_tracking(var, starts, set(cut_nodes), follow_exc, set(cut_out_normal))
        return base

    # -- one decision variable followed along the paths (decide-then-act on a verdict with several possible values)
    def _decision_vars(self) -> list[str]:
        """Locals that hold a verdict: tested (itself, a field, an element) in some condition and assigned values this world can name."""
        if "vars" not in self._memo:
            self._memo["vars"] = []
            cand = []
            for u in self.cfg.nodes:
                if u.kind != "cond" or u.ast is None:
                    continue
                for x in ast.walk(u.ast):
                    b = strip_cast(x.value) if isinstance(x, (ast.Attribute, ast.Subscript)) else x
                    if isinstance(b, ast.Name) and isinstance(b.ctx, ast.Load) and b.id not in cand and not is_param(self.fi, b.id) and self.defs(b.id):
                        cand.append(b.id)
            out = []
            for v in cand[:12]:
                if any(not self.cfg.nodes_for(st) or any(isinstance(x, ast.NamedExpr) and x.target.id == v for x in ast.walk(st)) for st, _ in self.defs(v)):
                    continue                                        # a binding without a CFG node of its own (walrus inside a test): not followed
                alts = self._alts(v)
                vals = {a for al in alts.values() if al for a in al}
                if len(vals) >= 2:
                    out.append(v)
            self._memo["vars"] = out[:6]
        return self._memo["vars"]

    def _alts(self, var: str) -> dict:
        """definition node of var -> the abstract values it can assign there (None: unknown)."""
        k = ("alts", var)
        if k not in self._memo:
            out = {}
            for st, val in self.defs(var):
                for d in self.cfg.nodes_for(st):
                    avs = None
                    if val is not None and d.kind == "stmt" and d not in out:
                        avs = self._absvals(val, d, 0)
                        if not avs or None in avs or len(avs) > 8:
                            avs = None
                    out[d] = sorted(avs, key=_av_key) if avs else None
            self._memo[k] = out
        return self._memo[k]

    def _reach_tracking(self, var: str, starts, cut_nodes: set, follow_exc: bool, cut_out_normal: set = frozenset()) -> set:
        """Nodes reachable when the value last assigned to `var` is remembered along the path and decides the tests on it."""
        alts = self._alts(var)
        todo = [(s_, None) for s_ in ([self.cfg.entry] if starts is None else list(starts)) if s_ not in cut_nodes]
        seen = set()
        while todo:
            u, tag = todo.pop()
            if (u, tag) in seen:
                continue
            seen.add((u, tag))
            for v, lab in u.succ:
                if v in cut_nodes or lab == "exc" and not follow_exc or lab != "exc" and u in cut_out_normal:
                    continue
                if self._cut_given(u, lab, var, tag):
                    continue
                if u in alts and lab != "exc":
                    for t in (alts[u] or [None]):
                        todo.append((v, t))
                else:
                    todo.append((v, tag))
        return {u for u, _ in seen}

    def _cut_given(self, u, lab, var: str, av) -> bool:
        if av is None or u.kind != "cond" or not isinstance(lab, bool):
            return self._cut(u, lab, True)
        k = ("given", u.id, var, av)
        if k not in self._memo:
            self._fixed = (var, av, u)
            try:
                self._memo[k] = self.ev(u.ast, u, True)
            finally:
                self._fixed = None
        vals = self._memo[k]
        return vals == {True} and lab is False or vals == {False} and lab is True

    def reaches(self, site: ast.AST, starts=None, *, cut_nodes=(), follow_exc: bool = True) -> bool:
        r = self.reach(starts, cut_nodes=cut_nodes, follow_exc=follow_exc)
        return any(n in r for n in self.cfg.nodes_for(site))

    # -- definitions of a chain (`x`, `cell.relay_early`) inside the function
    def defs(self, c: str):
        if c not in self._defs:
            out, seen = [], set()
            for st, t in stores(self.fi, lambda ch, c=c: ch == c):
                if id(st) in seen:
                    continue
                seen.add(id(st))
                if isinstance(st, ast.Assign) and any(tt is t for tt in st.targets):
                    out.append((st, st.value))                      # also `a = b = value`: every target gets the one value
                elif isinstance(st, ast.AnnAssign) and st.value is not None and st.target is t:
                    out.append((st, st.value))
                else:
                    out.append((st, None))
            if "." not in c and "[" not in c and "(" not in c:
                for st, v, idx in local_defs(self.fi, c):
                    if id(st) not in seen:
                        seen.add(id(st))
                        out.append((st, v if idx is None and isinstance(st, (ast.Assign, ast.AnnAssign)) else None))
                # `a, b = <record / tuple / helper call>`: the name is element idx of the value (no starred target)
                for i, (st, v) in enumerate(out):
                    if v is not None or not isinstance(st, ast.Assign) or len(st.targets) != 1:
                        continue
                    t = st.targets[0]
                    if not isinstance(t, (ast.Tuple, ast.List)) or any(not isinstance(x, ast.Name) for x in t.elts):
                        continue
                    idxs = [k for k, x in enumerate(t.elts) if x.id == c]
                    if len(idxs) == 1:
                        out[i] = (st, self._proj_node(st.value, idxs[0]))
            self._defs[c] = out
        return self._defs[c]

    def _proj_node(self, value: ast.AST, idx: int) -> ast.AST:
        """The synthetic expression `value[idx]` (one object per (value, idx), so it can be used as an identity)."""
        k = (id(value), idx)
        if k not in self._proj_nodes:
            n = ast.Subscript(value=value, slice=ast.Constant(value=idx), ctx=ast.Load())
            self._proj_nodes[k] = ast.copy_location(n, value)
            ast.fix_missing_locations(n)
        return self._proj_nodes[k]

    def _def_nodes(self, c: str):
        return {n for st, _ in self.defs(c) for n in self.cfg.nodes_for(st)}

    def _stable(self, e: ast.AST, node) -> bool:
        """No re-definition of an operand of e can reach `node` (so the assumed value is the one evaluated there)."""
        for x in ast.walk(e):
            if not isinstance(x, (ast.Name, ast.Attribute, ast.Subscript)):
                continue
            c = chain(x)
            if c is None or not self.defs(c):
                continue
            if isinstance(x, ast.Name) and not is_param(self.fi, c) and len(self.defs(c)) == 1:
                continue                                            # one binding: every use sees the same definition
            dn = self._def_nodes(c)
            if isinstance(x, ast.Name) and not is_param(self.fi, c) and not (dn & self.pinned) and node is not None and node not in dn:
                # a plain local bound on several branches (an inlined "parse or None" phase: `cell = None` / `cell = parse(data)`):
                # when no binding of it can run after `node`, the value read here is the one every later read sees - the assumption
                # speaks about that final value.  (A use that a binding can still follow stays undecided, so two tests never refer
                # to different values of the local.)
                k = ("final", c, node.id)
                if k not in self._memo:
                    self._memo[k] = not (dn & self.cfg.reach([v for v, _lab in node.succ]))
                if self._memo[k]:
                    continue
            kill = (dn & self.pinned) - {node}                      # the pinned binding hides every earlier one
            for d in dn:
                if d is node or d in self.pinned:
                    continue
                if node in self.cfg.reach([v for v, lab in d.succ if lab != "exc"], cut_nodes=kill):
                    return False
        return True

    def atom(self, e: ast.AST):
        for key, pol in _keys(self.fi, e):
            if key in self.assume:
                return self.assume[key] if pol else not self.assume[key]
        return None

    # -- evaluation
    def ev(self, e: ast.AST, node, deep: bool = True, depth: int = 0) -> set:
        e = strip_cast(e)
        if isinstance(e, ast.Constant):
            return {bool(e.value)}
        if isinstance(e, (ast.Tuple, ast.List, ast.Set)):
            return {bool(e.elts)}
        if isinstance(e, ast.Dict):
            return {bool(e.keys)}
        if isinstance(e, ast.Compare) and len(e.ops) == 1 and isinstance(e.ops[0], (ast.Is, ast.IsNot, ast.Eq, ast.NotEq)):
            # a local (or a field of a record held in a local, or the result of a NEW helper) compared with a constant /
            # Enum member (`verdict is not None`, `tag == 'idle'`, `v.kind is _Kind.DROP`): decided from what was assigned
            l, r = strip_cast(e.left), strip_cast(e.comparators[0])
            cl, cr = self._const_like(l), self._const_like(r)
            var, cst = (l, cr) if cr is not None else (r, cl) if cl is not None else (None, None)
            if var is not None and _len_arg(var) is not None and cst[0] == "c" and isinstance(e.ops[0], (ast.Eq, ast.NotEq)) and self._tracked(_len_arg(var)) \
                    and deep and depth < 4:
                out = set()
                for av in self._absvals(_len_arg(var), node, depth):
                    n_ = _len_of(av)
                    out.add(None if n_ is None else ((n_ == cst[1]) != isinstance(e.ops[0], ast.NotEq)))
                if out and None not in out:
                    return out
            elif var is not None and self._tracked(var):
                neg = isinstance(e.ops[0], (ast.IsNot, ast.NotEq))
                ident = isinstance(e.ops[0], (ast.Is, ast.IsNot))
                out = set()
                for av in (self._absvals(var, node, depth) if deep and depth < 4 else {None}):
                    v = self._cmp_abs(av, cst, ident)
                    out.add(None if v is None else (not v if neg else v))
                if out and None not in out:
                    return out                                      # otherwise: the comparison may still be an assumed atom
        if isinstance(e, ast.UnaryOp) and isinstance(e.op, ast.Not):
            return {None if v is None else not v for v in self.ev(e.operand, node, deep, depth)}
        if isinstance(e, ast.BoolOp):
            is_and = isinstance(e.op, ast.And)
            acc = {True}
            for v in e.values:
                vs = self.ev(v, node, deep, depth)
                if not is_and:
                    vs = {None if x is None else not x for x in vs}
                acc = {_and3(a, b) for a in acc for b in vs}
            return acc if is_and else {None if x is None else not x for x in acc}
        if isinstance(e, ast.IfExp):
            t = self.ev(e.test, node, deep, depth)
            out = set()
            if t - {False}:
                out |= self.ev(e.body, node, deep, depth)
            if t - {True}:
                out |= self.ev(e.orelse, node, deep, depth)
            return out
        if isinstance(e, (ast.Call, ast.Await)) and deep and depth < 4:
            t = self._call_truth(e, node, depth)
            if t is not None:
                return t
        if isinstance(e, (ast.Attribute, ast.Subscript)) and deep and depth < 4 and self._tracked(e) and not self.defs(chain(e) or "?"):
            pr = self._proj(e, node, depth)                         # a field of a record / element of a tuple built in this function
            if pr is not None and None not in pr[1]:
                return set(pr[1])
        if self._fixed is not None and isinstance(e, ast.Name) and e.id == self._fixed[0] and node is self._fixed[2]:
            t = self._truth_of(self._fixed[1])
            if t is not None:
                return {t}
        if isinstance(e, ast.Name) and e.id in self.params and not self.defs(e.id):
            a = self.atom(e)
            return {a} if a is not None else set(self.params[e.id][1])
        c = chain(e) if isinstance(e, (ast.Name, ast.Attribute)) else None
        if c is not None and self.defs(c) and (isinstance(e, ast.Name) or not self._stable(e, node)):
            # a local, or an attribute that is (re)assigned on a path to this use: its value is what was assigned
            if not deep or depth >= 4:
                return {None}
            return self._reaching(c, e, node, depth)
        if not self._stable(e, node):
            return {None}
        return {self.atom(e)}

    def _rdefs(self, c: str, node, cut):
        """(value on entry reaches node, [(definition node, value expr | None)] reaching node) under the edge filter `cut`."""
        dn = self._def_nodes(c)
        cutn = dn - {node}
        entry = node in self.cfg.reach(cut_nodes=cutn, cut_edge=cut)
        live = self.cfg.reach(cut_edge=cut)
        out = []
        for st, val in self.defs(c):
            for d in self.cfg.nodes_for(st):
                if d not in live:
                    continue                                        # this definition is not executed under the assumption
                starts = [v for v, lab in d.succ if lab != "exc"]
                if node in starts or node in self.cfg.reach(starts, cut_nodes=cutn, cut_edge=cut):
                    out.append((d, val))
        return entry, out

    def _reaching(self, c: str, e: ast.AST, node, depth: int) -> set:
        entry, ds = self._rdefs(c, node, self.cut_direct)
        out = set()
        if entry and ("." in c or is_param(self.fi, c)):
            a = self.atom(e)                                        # value on entry
            if a is None and c in self.params:
                out |= set(self.params[c][1])
            else:
                out.add(a)
        for d, val in ds:
            out |= {None} if val is None else self.ev(val, d, True, depth + 1)
        return out or {None}

    def value_at(self, c: str, e: ast.AST, node) -> set:
        """Truth values the chain c (`cell.relay_early`) can have when `node` runs, under the assumption (all conditions decided deeply)."""
        entry, ds = self._rdefs(c, node, self.cut)
        out = set()
        if entry:
            out.add(self.atom(e))
        for d, val in ds:
            out |= {None} if val is None else self.ev(val, d, True, 1)
        return out or {None}

    # -- abstract values: ("c", constant) | ("e", Enum class, member) | ("t",)/("f",) non-empty / empty literal | ("n",) some
    #    object | ("r", record class, ((field, values, truths), ...)) | ("u", ((values, truths), ...)) tuple literal | None unknown
    def _tracked(self, e: ast.AST) -> bool:
        """e is something whose value this world can follow: a local / bound parameter, a field or element of one, a call."""
        e = strip_cast(e)
        if isinstance(e, ast.Await):
            e = strip_cast(e.value)
        if isinstance(e, ast.Name):
            return bool(self.defs(e.id)) or e.id in self.params
        if isinstance(e, ast.Attribute):
            return self._tracked(e.value) and not isinstance(strip_cast(e.value), ast.Attribute)
        if isinstance(e, ast.Subscript):
            return isinstance(strip_cast(e.slice), ast.Constant) and self._tracked(e.value)
        return isinstance(e, ast.Call) and self.ctx is not None

    def _cls_of(self, e: ast.AST):
        if self.ctx is None or not isinstance(e, (ast.Name, ast.Attribute)):
            return None
        try:
            return self.ctx.repo.resolve_class_expr(self.fi.module, e)
        except Exception:  # noqa: BLE001
            return None

    def _const_like(self, e: ast.AST):
        """("c", v) for a constant, ("e", class, member) for `EnumClass.MEMBER`, else None."""
        e = strip_cast(e)
        if isinstance(e, ast.Constant):
            return ("c", e.value)
        if isinstance(e, ast.UnaryOp) and isinstance(e.op, ast.USub) and isinstance(e.operand, ast.Constant) and isinstance(e.operand.value, (int, float)) \
                and not isinstance(e.operand.value, bool):
            return ("c", -e.operand.value)
        if isinstance(e, ast.Attribute):
            cls = self._cls_of(e.value)
            if cls is not None and _enum_kind(cls) is not None and e.attr in cls.attrs and not e.attr.startswith("_"):
                return ("e", cls, e.attr)
        return None

    def _record(self, call: ast.Call, node, depth: int):
        """("r", class, fields) for `Record(...)` of a NamedTuple / dataclass (fields evaluated where the call is)."""
        cls = self._cls_of(call.func)
        if cls is None:
            return None
        names = _record_fields(self.ctx.repo, cls)
        if names is None or any(isinstance(a, ast.Starred) for a in call.args) or any(k.arg is None for k in call.keywords) or len(call.args) > len(names):
            return None
        given = dict(zip(names, call.args))
        for k in call.keywords:
            if k.arg not in names or k.arg in given:
                return None
            given[k.arg] = k.value
        fields = []
        for nme in names:
            x = given.get(nme)
            if x is None:
                x = next((c.attrs[nme] for c in cls.mro() if nme in c.attrs), None)
                if x is not None and not isinstance(strip_cast(x), ast.Constant):
                    x = None                                        # field(default_factory=...) and the like
            if x is None:
                fields.append((nme, frozenset({None}), frozenset({None})))
            else:
                fields.append((nme, frozenset(self._absvals(x, node, depth + 1)), frozenset(self.ev(x, node, True, depth + 1))))
        return ("r", cls, tuple(fields))

    def _proj(self, e: ast.AST, node, depth: int):
        """(values, truths) of `x.field` / `x[k]` where x holds records / tuple literals built here; None when x may be anything else."""
        base = strip_cast(e.value)
        if isinstance(e, ast.Attribute):
            sel = e.attr
        else:
            sel = strip_cast(e.slice).value if isinstance(strip_cast(e.slice), ast.Constant) else None
            if not isinstance(sel, int) or isinstance(sel, bool):
                return None
        vals, truths = set(), set()
        for av in self._absvals(base, node, depth + 1):
            hit = None
            if av is not None and av[0] == "r":
                if isinstance(sel, str):
                    hit = next((f for f in av[2] if f[0] == sel), None)
                elif _is_namedtuple(av[1]) and 0 <= sel < len(av[2]):
                    hit = av[2][sel]
                if hit is not None:
                    hit = hit[1:]
            elif av is not None and av[0] == "u" and isinstance(sel, int) and 0 <= sel < len(av[1]):
                hit = av[1][sel]
            if hit is None:
                return None
            vals |= hit[0]
            truths |= hit[1]
        return (vals, truths) if vals else None

    def _absvals(self, e: ast.AST, node, depth: int) -> set:
        out = self._absvals0(e, node, depth)
        if out == {None} and self._declared_nonnull(e):
            return {("n",)}                                         # nothing more is known than "some object, not None"
        return out

    def _declared_nonnull(self, e: ast.AST, _depth: int = 0) -> bool:
        """
        e is declared to be an object other than None: `cast(T, x)` with a non-Optional T, an instance construction, or a call
        every possible target of which is annotated with a non-Optional return type.  (Recorded assumption: the declared types
        of the repository hold - they are what its type checker enforces.)
        """
        if self.ctx is None or _depth > 3:
            return False
        repo = self.ctx.repo
        ok = False
        if isinstance(e, ast.Call) and chain(e.func) in ("cast", "typing.cast") and len(e.args) == 2 and not e.keywords:
            ok = _nonoptional_type(repo, self.fi.module, e.args[0]) or self._declared_nonnull(e.args[1], _depth + 1)
        else:
            awaited = isinstance(e, ast.Await)
            call = strip_cast(e.value) if awaited else e
            if isinstance(call, ast.Call):
                if not awaited and self._cls_of(call.func) is not None and not any(c.methods.get("__new__") for c in self._cls_of(call.func).mro()):
                    ok = True
                else:
                    try:
                        ts = repo.resolve_call(self.fi, call)
                    except Exception:  # noqa: BLE001
                        ts = []
                    ok = bool(ts) and all(bool(t.is_async) == awaited and all(d in ("staticmethod", "classmethod") for d in t.decorator_names())
                                          and not any(isinstance(n, (ast.Yield, ast.YieldFrom)) for n in walk_no_nested(t.node))
                                          and t.node.returns is not None and _nonoptional_type(repo, t.module, t.node.returns) for t in ts)
        if ok:
            self.ctx.assume("declared types hold: a value whose declared type (return annotation of every possible callee, cast target, constructed class) "
                            "is not Optional is not None")
        return ok

    def _absvals0(self, e: ast.AST, node, depth: int) -> set:
        e = strip_cast(e)
        cl = self._const_like(e)
        if cl is not None:
            return {cl}
        if self._fixed is not None and isinstance(e, ast.Name) and e.id == self._fixed[0] and node is self._fixed[2]:
            return {self._fixed[1]}
        if isinstance(e, ast.Tuple) and e.elts and depth < 4 and not any(isinstance(x, ast.Starred) for x in e.elts):
            return {("u", tuple((frozenset(self._absvals(x, node, depth + 1)), frozenset(self.ev(x, node, True, depth + 1))) for x in e.elts))}
        if isinstance(e, (ast.Tuple, ast.List, ast.Set)):
            return {("t",) if e.elts else ("f",)}
        if isinstance(e, ast.Dict):
            return {("t",) if e.keys else ("f",)}
        if isinstance(e, (ast.JoinedStr, ast.ListComp, ast.SetComp, ast.DictComp, ast.GeneratorExp, ast.Lambda)):
            return {("n",)}
        if isinstance(e, ast.IfExp):
            t = self.ev(e.test, node, True, depth)
            out = set()
            if t - {False}:
                out |= self._absvals(e.body, node, depth)
            if t - {True}:
                out |= self._absvals(e.orelse, node, depth)
            return out
        if isinstance(e, ast.Name) and self.defs(e.id) and depth < 4:
            entry, ds = self._rdefs(e.id, node, self.cut_direct)
            out = set()
            if entry:
                out |= set(self.params[e.id][0]) if e.id in self.params else {None}
            for d, val in ds:
                out |= {None} if val is None else self._absvals(val, d, depth + 1)
            return out or {None}
        if isinstance(e, ast.Name) and e.id in self.params:
            return set(self.params[e.id][0])
        if isinstance(e, (ast.Attribute, ast.Subscript)) and depth < 4 and self._tracked(e) and not self.defs(chain(e) or "?"):
            pr = self._proj(e, node, depth)
            return set(pr[0]) if pr is not None else {None}
        if isinstance(e, (ast.Call, ast.Await)) and depth < 4 and self.ctx is not None:
            call = strip_cast(e.value) if isinstance(e, ast.Await) else e
            if isinstance(call, ast.Call):
                if not isinstance(e, ast.Await):
                    rec = self._record(call, node, depth)
                    if rec is not None:
                        return {rec}
                hr = self._helper_returns(call, node, isinstance(e, ast.Await))
                if hr is not None:
                    out = set()
                    for w, r in hr:
                        if r is None or r.value is None:
                            out.add(("c", None))
                        else:
                            for n in w.cfg.nodes_for(r):
                                out |= w._absvals(r.value, n, depth + 1)
                    return out or {None}
        return {None}

    @staticmethod
    def _truth_of(av):
        if av is None or av[0] == "n":
            return None
        if av[0] == "c":
            return bool(av[1])
        if av[0] in ("t", "u"):
            return True
        if av[0] == "f":
            return False
        if av[0] == "e":
            return True if _enum_kind(av[1]) == "plain" else None
        if av[0] == "r":
            return True if (_is_namedtuple(av[1]) and av[2] or not _is_namedtuple(av[1])) and not any(c.methods.get("__bool__") or c.methods.get("__len__") for c in av[1].mro()) else None
        return None

    def _call_truth(self, e: ast.AST, node, depth: int):
        """Truth values of a call the world can look into: Record(...), isinstance(local, Class), a NEW helper (all its returns)."""
        awaited = isinstance(e, ast.Await)
        call = strip_cast(e.value) if awaited else e
        if not isinstance(call, ast.Call) or self.ctx is None:
            return None
        if not awaited and isinstance(call.func, ast.Name) and call.func.id == "isinstance" and len(call.args) == 2 and not call.keywords \
                and self._tracked(call.args[0]) and not isinstance(strip_cast(call.args[0]), ast.Call):
            want = strip_cast(call.args[1])
            classes = [self._cls_of(x) for x in (want.elts if isinstance(want, ast.Tuple) else [want])]
            if any(c is None for c in classes):
                return None
            out = set()
            for av in self._absvals(call.args[0], node, depth + 1):
                if av is None:
                    return None
                if av[0] in ("r", "e"):
                    out.add(any(k in av[1].mro() for k in classes))
                elif av[0] == "c" and av[1] is None:
                    out.add(False)
                else:
                    return None
            return out or None
        if not awaited:
            rec = self._record(call, node, depth)
            if rec is not None:
                return {self._truth_of(rec)}
        hr = self._helper_returns(call, node, awaited)
        if hr is None:
            return None
        out = set()
        for w, r in hr:
            if r is None or r.value is None:
                out.add(False)
            else:
                for n in w.cfg.nodes_for(r):
                    out |= w.ev(r.value, n, True, depth + 1)
        return out or None

    def _helper_returns(self, call: ast.Call, node, awaited: bool = False):
        """
        [(world of the helper, return statement | None = falls off the end)] for a call of NEW helper(s): the returns that can be
        taken when the caller's assumption holds.  The assumption follows the arguments (the argument expression is replaced by
        the parameter name; a condition about anything the helper cannot see is dropped = unknown there), the parameters carry the
        abstract / truth values of the arguments.  None: not a call this world can look into.
        """
        if self.ctx is None or self.level >= 2:
            return None
        k = (id(call), node.id if node is not None else -1, awaited)
        if k in self._hret:
            return self._hret[k]
        self._hret[k] = None                                        # recursion guard
        ts = _new_helper_targets(self.ctx.repo, self.fi, call)
        out = []
        for g0 in ts:
            g = _view(self.ctx, g0)
            if any(isinstance(n, (ast.Yield, ast.YieldFrom)) for n in walk_no_nested(g.node)) or bool(g.is_async) != awaited \
                    or any(isinstance(a, ast.Starred) for a in call.args) or any(kw.arg is None for kw in call.keywords) \
                    or g.node.args.vararg is not None or g.node.args.kwarg is not None:
                out = None
                break
            bound = _bind_args(g, call)
            params = {}
            for pname, a in bound.items():
                params[pname] = (frozenset(self._absvals(a, node, 1)), frozenset(self.ev(a, node, True, 1)))
            args = g.node.args
            pos = args.posonlyargs + args.args
            for prm, dflt in list(zip(pos[len(pos) - len(args.defaults):], args.defaults)) + [(p_, d_) for p_, d_ in zip(args.kwonlyargs, args.kw_defaults) if d_ is not None]:
                if prm.arg not in params and isinstance(dflt, ast.Constant):
                    params[prm.arg] = (frozenset({("c", dflt.value)}), frozenset({bool(dflt.value)}))
            assume = {}
            for key, v in self.keys:
                k2 = self._transfer_key(key, bound, node)
                if k2 is not None:
                    assume.setdefault(k2, v)
            w = _World(g, self.ctx.cfg(g), assume, ctx=self.ctx, params=params, level=self.level + 1)
            w.bound = bound
            live = w.reach()
            rets = _return_sites(g)
            retn = [n for r in rets for n in w.cfg.nodes_for(r)]
            for r in rets:
                if any(n in live for n in w.cfg.nodes_for(r)):
                    out.append((w, r))
            if w.cfg.exit in w.reach(cut_nodes=retn):
                out.append((w, None))
        self._hret[k] = out if out else None
        return self._hret[k]

    # -- which expressions a value can be (for "this argument is the configured delay / the route of this cell")
    def _truth_given(self, atom: ast.AST, var: str, av):
        """Truth of a CFG atom when the local `var` holds the abstract value av (None: the atom says nothing about it)."""
        atom = strip_cast(atom)

        def held(x: ast.AST):
            """(abstract values, truth values) of x when it is `var`, `var.field` or `var[k]`; None otherwise."""
            x = strip_cast(x)
            if isinstance(x, ast.Name):
                return ({av}, {self._truth_of(av)}) if x.id == var else None
            if isinstance(x, (ast.Attribute, ast.Subscript)) and isinstance(strip_cast(x.value), ast.Name) and strip_cast(x.value).id == var \
                    and av is not None and not self.defs(chain(x) or "?"):
                sel = x.attr if isinstance(x, ast.Attribute) else const_value(strip_cast(x.slice))
                if av[0] == "r" and isinstance(sel, str):
                    f = next((f for f in av[2] if f[0] == sel), None)
                    return (set(f[1]), set(f[2])) if f else None
                if av[0] == "r" and isinstance(sel, int) and not isinstance(sel, bool) and _is_namedtuple(av[1]) and 0 <= sel < len(av[2]):
                    return set(av[2][sel][1]), set(av[2][sel][2])
                if av[0] == "u" and isinstance(sel, int) and not isinstance(sel, bool) and 0 <= sel < len(av[1]):
                    return set(av[1][sel][0]), set(av[1][sel][1])
            return None

        h = held(atom)
        if h is not None:
            return next(iter(h[1])) if len(h[1]) == 1 else None
        if isinstance(atom, ast.Compare) and len(atom.ops) == 1 and isinstance(atom.ops[0], (ast.Eq, ast.NotEq)) and _len_arg(atom.left) is not None \
                and isinstance(strip_cast(atom.comparators[0]), ast.Constant):
            h = held(_len_arg(atom.left))
            if h is not None:
                ts = {None if _len_of(a) is None else ((_len_of(a) == strip_cast(atom.comparators[0]).value) != isinstance(atom.ops[0], ast.NotEq)) for a in h[0]}
                return next(iter(ts)) if len(ts) == 1 else None
        if isinstance(atom, ast.Call) and isinstance(atom.func, ast.Name) and atom.func.id == "isinstance" and len(atom.args) == 2 and held(atom.args[0]) is not None:
            want = strip_cast(atom.args[1])
            classes = [self._cls_of(x) for x in (want.elts if isinstance(want, ast.Tuple) else [want])]
            if all(c is not None for c in classes):
                ts = set()
                for a in held(atom.args[0])[0]:
                    ts.add(any(k in a[1].mro() for k in classes) if a is not None and a[0] in ("r", "e") else False if a == ("c", None) else None)
                return next(iter(ts)) if len(ts) == 1 else None
        if isinstance(atom, ast.Compare) and len(atom.ops) == 1 and isinstance(atom.ops[0], (ast.Is, ast.IsNot, ast.Eq, ast.NotEq)):
            l, r = strip_cast(atom.left), strip_cast(atom.comparators[0])
            cl, cr = self._const_like(l), self._const_like(r)
            v, cst = (l, cr) if cr is not None else (r, cl) if cl is not None else (None, None)
            h = held(v) if v is not None else None
            if h is not None:
                ts = {self._cmp_abs(a, cst, isinstance(atom.ops[0], (ast.Is, ast.IsNot))) for a in h[0]}
                t = next(iter(ts)) if len(ts) == 1 else None
                return None if t is None else (not t if isinstance(atom.ops[0], (ast.IsNot, ast.NotEq)) else t)
        return None

    def _feasible(self, var: str, av, d, node) -> bool:
        """Can control get from the definition d of `var` (value av) to `node` without re-defining var or taking a branch av contradicts?"""
        def cut(u, v, lab) -> bool:
            if u.kind != "cond" or not isinstance(lab, bool):
                return False
            t = self._truth_given(u.ast, var, av)
            return t is not None and t != lab
        starts = [v for v, lab in d.succ if lab != "exc"]
        return node in starts or node in self.cfg.reach(starts, cut_nodes=self._def_nodes(var) - {node}, cut_edge=cut)

    def exprs_at(self, e: ast.AST, node, depth: int = 0):
        """
        [(expression, CFG node where it is evaluated)]: what the value of e at `node` can have been computed by - locals are
        followed through ALL their reaching definitions (a definition whose constant / record value contradicts a branch
        taken on the way, such as the `None` of a 'nothing to do' verdict behind `if x is not None`, does not count),
        conditional expressions through both arms, fields of records and tuples to the constructor argument, NEW helpers
        to their return values (in the caller's words).  None: not known.
        """
        e = strip_cast(e)
        if depth > 6:
            return None
        if isinstance(e, ast.IfExp):
            a, b = self.exprs_at(e.body, node, depth + 1), self.exprs_at(e.orelse, node, depth + 1)
            return None if a is None or b is None else a + b
        if isinstance(e, ast.Name) and not is_param(self.fi, e.id) and self.defs(e.id):
            _, ds = self._rdefs(e.id, node, None)
            out = []
            for d, val in ds:
                if val is None:
                    return None
                alts = self.exprs_at(val, d, depth + 1)
                if alts is None:
                    return None
                for a, an in alts:
                    avs = self._absvals(a, an, 0)
                    if len(avs) == 1 and None not in avs and not self._feasible(e.id, next(iter(avs)), d, node):
                        continue
                    out.append((a, an))
            return out
        if isinstance(e, (ast.Attribute, ast.Subscript)) and self._tracked(e) and not self.defs(chain(e) or "?"):
            bases = self.exprs_at(e.value, node, depth + 1)
            if bases is None:
                return None
            out = []
            for b, bn in bases:
                b = strip_cast(b)
                x = None
                if isinstance(b, ast.Call) and self._cls_of(b.func) is not None and _record_fields(self.ctx.repo, self._cls_of(b.func)) is not None \
                        and not any(isinstance(a, ast.Starred) for a in b.args) and not any(k.arg is None for k in b.keywords):
                    names = _record_fields(self.ctx.repo, self._cls_of(b.func))
                    sel = e.attr if isinstance(e, ast.Attribute) else None
                    if sel is None and _is_namedtuple(self._cls_of(b.func)) and isinstance(const_value(strip_cast(e.slice)), int) and 0 <= const_value(strip_cast(e.slice)) < len(names):
                        sel = names[const_value(strip_cast(e.slice))]
                    if sel in names:
                        x = arg(b, names.index(sel), sel)
                elif isinstance(b, ast.Tuple) and isinstance(e, ast.Subscript) and isinstance(const_value(strip_cast(e.slice)), int) \
                        and not any(isinstance(a, ast.Starred) for a in b.elts) and 0 <= const_value(strip_cast(e.slice)) < len(b.elts):
                    x = b.elts[const_value(strip_cast(e.slice))]
                if x is None:
                    return [(e, node)]
                sub = self.exprs_at(x, bn, depth + 1)
                if sub is None:
                    return None
                out.extend(sub)
            return out
        if isinstance(e, (ast.Call, ast.Await)) and self.ctx is not None:
            awaited = isinstance(e, ast.Await)
            call = strip_cast(e.value) if awaited else e
            hr = self._helper_returns(call, node, awaited) if isinstance(call, ast.Call) else None
            if hr is not None:
                out = []
                for w, r in hr:
                    if r is None or r.value is None:
                        out.append((ast.Constant(value=None), node))
                        continue
                    for rn in w.cfg.nodes_for(r):
                        sub = w.exprs_at(r.value, rn, depth + 1)
                        if sub is None:
                            return [(e, node)]
                        for x, _ in sub:
                            y = w._in_caller_words(x)
                            if y is None:
                                return [(e, node)]
                            out.append((y, node))
                return out
        return [(e, node)]

    def _in_caller_words(self, x: ast.AST):
        """An expression of this helper rewritten over the caller's argument expressions (None when it uses a helper local)."""
        y = _Expand(self.fi).visit(_clone(x))
        mine = {n.id for n in ast.walk(y) if isinstance(n, ast.Name) and isinstance(n.ctx, ast.Load)}
        for nme in mine:
            if nme in self.bound:
                if self.defs(nme):
                    return None                                     # parameter re-assigned in the helper
            elif is_param(self.fi, nme) and nme not in ("self", "cls") or local_defs(self.fi, nme):
                return None
        y = _Subst({k: v for k, v in self.bound.items()}).visit(y)
        ast.fix_missing_locations(y)
        return y

    def _transfer_key(self, key, bound: dict, node):
        """The assumed condition in the words of a helper called at `node` with `bound` = {parameter: argument expression}."""
        op, l, r, integer = key.raw
        byarg = {}
        for pname, a in bound.items():
            a = strip_cast(a)
            if not isinstance(a, ast.Constant):
                for t in _texts(self.fi, a):
                    byarg.setdefault(t, pname)
        ok = [True]

        class Sub(ast.NodeTransformer):
            def visit(self_, n):  # noqa: N805
                if isinstance(n, ast.expr) and norm(n) in byarg:
                    return ast.Name(id="\0" + byarg[norm(n)], ctx=ast.Load())
                return self_.generic_visit(n)

        def ren(text: str):
            if not text:
                return text
            e = _parse(text)
            if e is None:
                return None
            if node is not None and not self._stable(e, node):
                return None                                         # the assumed value is not the one the helper gets
            e = Sub().visit(e)
            for n in ast.walk(e):
                if isinstance(n, ast.Name):
                    if n.id.startswith("\0"):
                        n.id = n.id[1:]
                    elif n.id not in ("self", "time", "len") and not n.id.isupper():
                        return None
            return norm(e)
        l2, r2 = ren(l), ren(r)
        return None if l2 is None or r2 is None else _K(op, l2, r2, integer)

    @staticmethod
    def _cmp_abs(av, cl, ident: bool = False):
        """Is the abstract value equal to / identical with the constant or Enum member cl?  (None = unknown)"""
        if av is None:
            return None
        if cl[0] == "e":
            if av[0] == "e":
                if av[1] is cl[1] or av[1] == cl[1]:
                    return av[2] == cl[2] if _enum_aliases(av[1], av[2], cl[2]) is False else None
                return False if ident or _enum_kind(av[1]) == "plain" and _enum_kind(cl[1]) == "plain" else None
            if av[0] == "c":
                return False if ident or av[1] is None or _enum_kind(cl[1]) == "plain" else None
            return False if av[0] != "n" or ident else None
        cv = cl[1]
        if av[0] == "c":
            v = av[1]
            if v is None or cv is None or isinstance(v, bool) or isinstance(cv, bool):
                return v is cv
            return type(v) is type(cv) and v == cv
        if av[0] == "e":
            return False if ident or cv is None or _enum_kind(av[1]) == "plain" else None
        return False if cv is None or isinstance(cv, (bool, int, float, str, bytes)) else None


_NONNULL_TYPES = frozenset({"int", "str", "bytes", "bool", "float", "list", "dict", "tuple", "set", "frozenset", "bytearray", "List", "Dict", "Tuple", "Set",
                            "FrozenSet", "Sequence", "Mapping", "Iterable", "Iterator", "Collection", "Callable", "Awaitable", "Coroutine", "Future", "type"})


def _nonoptional_type(repo, module, t: ast.AST, depth: int = 0) -> bool:
    """The annotation names a type None is not an instance of (a builtin container / scalar, a repository class, a union of such)."""
    if depth > 3:
        return False
    if isinstance(t, ast.Constant):
        p = _parse(t.value) if isinstance(t.value, str) else None
        return p is not None and _nonoptional_type(repo, module, p, depth + 1)
    if isinstance(t, ast.Name):
        if t.id in _NONNULL_TYPES:
            return True
        try:
            r = repo.resolve_name(module, t.id)
        except Exception:  # noqa: BLE001
            return False
        if isinstance(r, tuple) and r and r[0] == "const" and len(r) == 3:
            return _nonoptional_type(repo, r[1], r[2], depth + 1)   # a type alias of the repository
        if r is None and t.id in module.imports and module.imports[t.id][1] is not None and repo.modules.get(module.imports[t.id][0]) is None:
            # a class imported from outside the repository (CapWords name; the typing constructs that admit None are excluded)
            return t.id[:1].isupper() and not t.id.isupper() and t.id not in ("Any", "Optional", "Union", "NoReturn", "Never", "Self", "TypeVar", "Generic", "Literal", "Annotated")
        return r is not None and r.__class__.__name__ == "ClassInfo"
    if isinstance(t, ast.Attribute):
        try:
            return repo.resolve_class_expr(module, t) is not None
        except Exception:  # noqa: BLE001
            return False
    if isinstance(t, ast.Subscript):
        return isinstance(t.value, ast.Name) and t.value.id in _NONNULL_TYPES
    if isinstance(t, ast.BinOp) and isinstance(t.op, ast.BitOr):
        return _nonoptional_type(repo, module, t.left, depth + 1) and _nonoptional_type(repo, module, t.right, depth + 1)
    return False


def _len_arg(e: ast.AST):
    """x of `len(x)`, else None."""
    e = strip_cast(e)
    return e.args[0] if isinstance(e, ast.Call) and isinstance(e.func, ast.Name) and e.func.id == "len" and len(e.args) == 1 and not e.keywords else None


def _len_of(av):
    """Number of elements of an abstract value used as a sequence; -1 for something that is no sequence at all; None = unknown."""
    if av is None:
        return None
    if av[0] == "u":
        return len(av[1])
    if av[0] == "r":
        return len(av[2]) if _is_namedtuple(av[1]) else -1
    if av[0] == "f":
        return 0
    if av[0] == "e":
        return -1 if _enum_kind(av[1]) == "plain" else None
    if av[0] == "c" and (av[1] is None or isinstance(av[1], (bool, int, float))):
        return -1
    return None


def _av_key(av) -> str:
    """A cheap, deterministic sort key for abstract values (never the repr of a ClassInfo)."""
    if av is None:
        return "?"
    if av[0] == "c":
        return f"c:{type(av[1]).__name__}:{av[1]!r}"
    if av[0] == "e":
        return f"e:{av[1].name}.{av[2]}"
    if av[0] == "r":
        return f"r:{av[1].name}:" + ",".join(f"{f[0]}=" + "|".join(sorted(_av_key(x) for x in f[1])) for f in av[2])
    if av[0] == "u":
        return "u:" + ",".join("|".join(sorted(_av_key(x) for x in f[0])) for f in av[1])
    return av[0]


_ENUM_BASES = {"Enum": "plain", "Flag": "plain", "IntEnum": "int", "IntFlag": "int", "StrEnum": "str"}


def _enum_kind(cls) -> str | None:
    """'plain' (members equal nothing but themselves) | 'int' | 'str' for an Enum class of the repo, None otherwise."""
    kind = None
    for c in cls.mro():
        if any(m in c.methods for m in ("__eq__", "__bool__", "__len__", "__hash__")):
            return None if kind is None else "int"
        for b in c.base_names:
            b = b.rsplit(".", 1)[-1]
            if b in _ENUM_BASES:
                k = _ENUM_BASES[b]
                kind = k if kind in (None, "plain") else kind
            elif b in ("int", "str") and kind is not None:
                kind = b
    return kind


def _enum_aliases(cls, a: str, b: str):
    """False when members a and b of cls are certainly distinct objects (different constant values), None when they may be aliases."""
    if a == b:
        return False
    va, vb = cls.attrs.get(a), cls.attrs.get(b)
    for v in (va, vb):
        if isinstance(v, ast.Call) and chain(v.func) in ("auto", "enum.auto") and not v.args:
            continue
        if not isinstance(v, ast.Constant):
            return None
    if isinstance(va, ast.Constant) and isinstance(vb, ast.Constant):
        return False if (type(va.value), va.value) != (type(vb.value), vb.value) else None
    autos = [v for v in (va, vb) if not isinstance(v, ast.Constant)]
    if len(autos) == 2:
        return False
    # auto() next to explicit values: distinct unless the explicit value collides with a generated one - undecided
    return None


def _is_namedtuple(cls) -> bool:
    return any(b.rsplit(".", 1)[-1] == "NamedTuple" for c in cls.mro() for b in c.base_names)


def _record_fields(repo, cls) -> list[str] | None:
    """Constructor fields (in order) of a NamedTuple / dataclass without a hand-written __init__/__new__; None for any other class."""
    if any(m in c.methods for c in cls.mro() for m in ("__init__", "__new__", "__post_init__", "__getattr__", "__getattribute__")):
        return None
    if _is_namedtuple(cls):
        if len(cls.mro()) != 1:
            return None
        return [a for a in cls.annotations if "ClassVar" not in norm(cls.annotations[a])]
    decos = [d for d in cls.node.decorator_list]
    dc = [d for d in decos if (chain(d.func if isinstance(d, ast.Call) else d) or "").rsplit(".", 1)[-1] == "dataclass"]
    if not dc or len(decos) != 1 or len(cls.mro()) != 1:
        return None
    d = dc[0]
    frozen = isinstance(d, ast.Call) and any(k.arg == "frozen" and isinstance(k.value, ast.Constant) and k.value.value is True for k in d.keywords)
    if isinstance(d, ast.Call) and any(k.arg in ("init", "kw_only", "slots") or k.arg is None for k in d.keywords):
        return None
    names = [a for a in cls.annotations if "ClassVar" not in norm(cls.annotations[a]) and "InitVar" not in norm(cls.annotations[a])]
    if not frozen and any(True for n in names for _ in stores_anywhere(repo, n)):
        return None                                                 # a mutable record whose field name is stored to somewhere
    return names


# ------------------------------------------------------------------------------------ new helpers / closed sets
def _private(fi: FuncInfo) -> bool:
    return fi.name.startswith("_") and not (fi.name.startswith("__") and fi.name.endswith("__"))


def _is_new(fi: FuncInfo) -> bool:
    """fi does not exist in the reviewed tree (sa/tables/local_names.json lists every reviewed function)."""
    known = load_table().get(fi.module.relpath)
    if known is None:
        # a file the reviewed tree does not have at all (the table lists every reviewed file of the package that defines a function)
        return fi.module.relpath.startswith("ipv8/") and fi.module.relpath.endswith(".py")
    return fi.qualname not in known


def _within(fi: FuncInfo, allowed) -> bool:
    return any(fi.qualname == a or fi.qualname.startswith(a + ".") for a in allowed)


def _only_reached_from(repo, fi: FuncInfo, allowed, _seen=None) -> bool:
    """
    fi is a NEW private helper (or closure) and every place that calls it or mentions it as a value lies in an allowed
    function, or in another such helper: what fi does is done on behalf of the allowed members only.
    """
    if _within(fi, allowed):
        return True
    nested = "." in fi.qualname and (fi.cls is None or fi.qualname.count(".") > 1)
    # a method of a NEW private class (a small callable object that replaces a closure): whoever names the class uses it
    helper_cls = fi.cls if fi.cls is not None and fi.cls.name.startswith("_") and fi.cls.methods and all(_is_new(x) for x in fi.cls.methods.values()) \
        and len(fi.cls.mro()) == 1 else None
    if not _is_new(fi) or not (_private(fi) or nested or helper_cls is not None):
        return False
    seen = set() if _seen is None else _seen
    if fi.qualname in seen:
        return True
    seen.add(fi.qualname)
    users = []
    if helper_cls is not None:
        for m in repo.modules.values():
            for n in ast.walk(m.tree):
                if isinstance(n, ast.Name) and n.id == helper_cls.name and isinstance(n.ctx, ast.Load) and repo.resolve_name(m, n.id) is helper_cls:
                    g = repo.function_of(n)
                    if g is None or g.cls is not helper_cls:
                        users.append(g)
    dunder = fi.name.startswith("__") and fi.name.endswith("__")
    for m, g, c in repo.callers_of_name(fi.name) if not dunder else ():
        users.append(g)
    for m, g, a in repo.attribute_uses(fi.name) if not dunder else ():
        users.append(g)
    if nested:
        for g in fi.module.all_functions:
            if g is not fi and any(isinstance(n, ast.Name) and n.id == fi.name for n in ast.walk(g.node)) and fi.qualname.startswith(g.qualname + "."):
                users.append(g)
    users = [g for g in users if g is None or g.node is not fi.node]
    if not users:
        return False
    return all(g is not None and (_within(g, allowed) or _only_reached_from(repo, g, allowed, seen)) for g in users)


def _new_helper_targets(repo, fi: FuncInfo, call: ast.Call) -> list[FuncInfo]:
    """The NEW private helper(s) a call `self._x(...)` / `_x(...)` made in fi denotes (all targets must be new helpers)."""
    f = call.func
    if not (isinstance(f, ast.Name) or isinstance(f, ast.Attribute) and isinstance(f.value, ast.Name) and f.value.id in ("self", "cls")):
        return []
    try:
        ts = repo.resolve_call(fi, call)
    except Exception:  # noqa: BLE001
        return []
    ts = [t for t in ts if t.node is not fi.node]
    if ts and all(_is_new(t) for t in ts):
        return ts
    return []


def _bind_args(g: FuncInfo, call: ast.Call) -> dict[str, ast.AST]:
    """parameter name of g -> argument expression of the call (positional and keyword; self is skipped for methods)."""
    ps = g.params()
    if g.cls is not None and ps and ps[0] in ("self", "cls") and "staticmethod" not in g.decorator_names():
        ps = ps[1:]
    out = {}
    for i, a in enumerate(call.args):
        if isinstance(a, ast.Starred) or i >= len(ps):
            break
        out[ps[i]] = a
    for k in call.keywords:
        if k.arg is not None:
            out[k.arg] = k.value
    return out


def _passes_always(ctx: Ctx, fi: FuncInfo, is_target, depth: int = 2, cut_edge=None, _stack=()) -> list:
    """
    CFG nodes of fi that count as "the step happens here": calls satisfying is_target(fi, call), and calls of own
    methods / local functions every normal path of which passes such a node (followed `depth` levels).
    """
    cfg = ctx.cfg(fi)
    out = []
    for c in calls(fi):
        if is_target(fi, c):
            out.extend(cfg.nodes_for(c))
            continue
        if depth <= 0:
            continue
        f = c.func
        if not (isinstance(f, ast.Attribute) and isinstance(f.value, ast.Name) and f.value.id == "self" or isinstance(f, ast.Name)):
            continue
        if isinstance(f, ast.Name) and f.id in ("len", "list", "tuple", "sorted", "dict", "set", "cast", "str", "int", "float", "bool", "isinstance", "hexlify", "sleep", "print", "min", "max", "sum", "any", "all", "range", "enumerate", "zip", "getattr", "setattr", "hasattr", "next", "iter", "repr", "type", "id"):
            continue
        try:
            ts = ctx.repo.resolve_call(fi, c)
        except Exception:  # noqa: BLE001
            ts = []
        ts = [_view(ctx, t) for t in ts]
        if not ts or any(t.qualname in _stack or t.node is fi.node for t in ts):
            continue
        if any(any(isinstance(n, (ast.Yield, ast.YieldFrom)) for n in walk_no_nested(t.node)) for t in ts):
            continue                                               # calling a generator function runs nothing
        if all(_always_passes(ctx, t, is_target, depth - 1, _stack + (fi.qualname,)) for t in ts):
            out.extend(cfg.nodes_for(c))
    return out


def _always_passes(ctx: Ctx, fi: FuncInfo, is_target, depth: int = 2, _stack=()) -> bool:
    cfg = ctx.cfg(fi)
    tg = _passes_always(ctx, fi, is_target, depth, _stack=_stack)
    return bool(tg) and cfg.exit not in cfg.reach(cut_nodes=tg, follow_exc=False)


# ------------------------------------------------------------------------------------ unrolled view of a function
_SIMPLE_CALLS = ("getattr", "setattr")


def _simple_elt(e: ast.AST, consts_only: bool = False) -> bool:
    if isinstance(e, ast.Constant):
        return True
    if isinstance(e, (ast.Tuple, ast.List)):
        return all(_simple_elt(x, consts_only) for x in e.elts)
    if isinstance(e, ast.Dict):
        return all(k is not None and isinstance(k, ast.Constant) and _simple_elt(v, consts_only) for k, v in zip(e.keys, e.values))
    if consts_only:
        return False
    while isinstance(e, ast.Attribute):
        e = e.value
    return isinstance(e, ast.Name)


def _literal_elts(repo, fi: FuncInfo, it: ast.AST):
    """Elements of a loop iterable that is a literal tuple / list / dict view (directly, through a single-assignment local or a constant)."""
    it = strip_cast(it)
    if isinstance(it, ast.Name):
        d = single_def(fi, it.id)
        if d is not None and d[1] is None and isinstance(strip_cast(d[0]), ast.Tuple):
            it = strip_cast(d[0])
        elif d is None and not is_param(fi, it.id) and not local_defs(fi, it.id):
            r = repo.resolve_name(fi.module, it.id)
            if isinstance(r, tuple) and r[0] == "const" and isinstance(r[2], (ast.Tuple, ast.List)) and _simple_elt(r[2], True):
                return list(r[2].elts)
            return None
    if isinstance(it, ast.Attribute) and isinstance(it.value, ast.Name) and it.value.id in ("self", "cls") and fi.cls is not None:
        v = fi.cls.lookup_attr(it.attr)
        if isinstance(v, (ast.Tuple, ast.List)) and _simple_elt(v, True) and not any(True for _ in stores_anywhere(repo, it.attr)):
            return list(v.elts)
        return None
    if isinstance(it, (ast.Tuple, ast.List)):
        return list(it.elts) if all(_simple_elt(x) for x in it.elts) and not any(isinstance(x, ast.Starred) for x in it.elts) else None
    if isinstance(it, ast.Call) and isinstance(it.func, ast.Attribute) and not it.args and isinstance(it.func.value, ast.Dict) and _simple_elt(it.func.value):
        d = it.func.value
        if it.func.attr == "items":
            return [ast.Tuple(elts=[k, v], ctx=ast.Load()) for k, v in zip(d.keys, d.values)]
        if it.func.attr == "values":
            return list(d.values)
        if it.func.attr == "keys":
            return list(d.keys)
    if isinstance(it, ast.Dict) and _simple_elt(it):
        return list(it.keys)
    return None


def stores_anywhere(repo, attr: str):
    for m, g, a in repo.attribute_uses(attr):
        if isinstance(a.ctx, (ast.Store, ast.Del)) and not (g is not None and g.name == "__init__"):
            yield a


def _bind_target(t: ast.AST, e: ast.AST, out: dict) -> bool:
    if isinstance(t, ast.Name):
        out[t.id] = e
        return True
    if isinstance(t, (ast.Tuple, ast.List)) and isinstance(e, (ast.Tuple, ast.List)) and len(t.elts) == len(e.elts):
        return all(_bind_target(a, b, out) for a, b in zip(t.elts, e.elts))
    return False


class _Subst(ast.NodeTransformer):
    def __init__(self, mapping: dict) -> None:
        self.mapping = mapping

    def visit_Name(self, n: ast.Name):
        if isinstance(n.ctx, ast.Load) and n.id in self.mapping:
            return ast.copy_location(clone(self.mapping[n.id]), n)
        return n


class _FoldDyn(ast.NodeTransformer):
    """getattr(x, 'a') -> x.a ; setattr(x, 'a', v) -> x.a = v ; f(**{'k': v}) -> f(k=v) ; {'a': f}['a'] -> f"""

    def __init__(self, has_attr) -> None:
        self.has_attr = has_attr
        self.changed = False

    def visit_Call(self, n: ast.Call):
        self.generic_visit(n)
        if isinstance(n.func, ast.Name) and n.func.id == "getattr" and not n.keywords and len(n.args) in (2, 3) \
                and isinstance(n.args[1], ast.Constant) and isinstance(n.args[1].value, str) and n.args[1].value.isidentifier() \
                and (len(n.args) == 2 or self.has_attr(n.args[0], n.args[1].value)):
            self.changed = True
            return ast.copy_location(ast.Attribute(value=n.args[0], attr=n.args[1].value, ctx=ast.Load()), n)
        if any(k.arg is None and isinstance(k.value, ast.Dict) for k in n.keywords):
            kws = []
            for k in n.keywords:
                if k.arg is None and isinstance(k.value, ast.Dict) and all(isinstance(x, ast.Constant) and isinstance(x.value, str) for x in k.value.keys):
                    kws.extend(ast.keyword(arg=x.value, value=v) for x, v in zip(k.value.keys, k.value.values))
                    self.changed = True
                else:
                    kws.append(k)
            n.keywords = kws
        return n

    def visit_Subscript(self, n: ast.Subscript):
        self.generic_visit(n)
        if isinstance(n.ctx, ast.Load) and isinstance(n.value, ast.Dict) and isinstance(n.slice, ast.Constant):
            for k, v in zip(n.value.keys, n.value.values):
                if isinstance(k, ast.Constant) and k.value == n.slice.value and type(k.value) is type(n.slice.value):
                    self.changed = True
                    return v
        return n

    def visit_Expr(self, n: ast.Expr):
        self.generic_visit(n)
        c = n.value
        if isinstance(c, ast.Call) and isinstance(c.func, ast.Name) and c.func.id == "setattr" and len(c.args) == 3 and not c.keywords \
                and isinstance(c.args[1], ast.Constant) and isinstance(c.args[1].value, str) and c.args[1].value.isidentifier():
            self.changed = True
            return ast.copy_location(ast.Assign(targets=[ast.Attribute(value=c.args[0], attr=c.args[1].value, ctx=ast.Store())],
                                                value=c.args[2], type_comment=None), n)
        return n


def _std_callee(fi: FuncInfo, f: ast.AST):
    """(module, name) of a callee imported from the standard library (`from operator import lt`, `operator.lt`, `import operator as op`)."""
    imps = fi.module.imports
    if isinstance(f, ast.Name) and f.id in imps and imps[f.id][1] is not None and not local_defs(fi, f.id) and not is_param(fi, f.id):
        return imps[f.id]
    if isinstance(f, ast.Attribute) and isinstance(f.value, ast.Name) and f.value.id in imps and imps[f.value.id][1] is None \
            and not local_defs(fi, f.value.id) and not is_param(fi, f.value.id):
        return imps[f.value.id][0], f.attr
    return None


_OPERATOR_CMP = {"lt": ast.Lt, "le": ast.LtE, "gt": ast.Gt, "ge": ast.GtE, "eq": ast.Eq, "ne": ast.NotEq, "is_": ast.Is, "is_not": ast.IsNot}
_OPERATOR_BIN = {"add": ast.Add, "sub": ast.Sub}


def _inert_arg(fi: FuncInfo, e: ast.AST) -> bool:
    """An argument that means the same wherever it is evaluated in the function: a constant, self.<attr chain>, a once-bound local / parameter."""
    e = strip_cast(e)
    if isinstance(e, ast.Constant):
        return True
    while isinstance(e, ast.Attribute):
        e = e.value
    return isinstance(e, ast.Name) and (e.id == "self" or is_param(fi, e.id) and not local_defs(fi, e.id) or len(local_defs(fi, e.id)) == 1)


class _FoldStd(ast.NodeTransformer):
    """
    operator.lt(a, b) -> a < b (le, gt, ge, eq, ne, is_, is_not, not_, truth, contains, add, sub, getitem);
    attrgetter('x')(o) -> o.x ; itemgetter(k)(o) -> o[k] ; methodcaller('m', *a)(o) -> o.m(*a)   (also through a local / module
    constant that holds the getter);  p = partial(f, *a, **k) ... p(*b) -> f(*a, *b, **k) for a once-bound local p with inert a.
    """

    def __init__(self, repo, fi: FuncInfo) -> None:
        self.repo, self.fi, self.changed = repo, fi, False

    def _getter(self, f: ast.AST):
        f = strip_cast(f)
        if isinstance(f, ast.Name):
            d = single_def(self.fi, f.id)
            if d is not None and d[1] is None:
                f = strip_cast(d[0])
            elif not local_defs(self.fi, f.id) and not is_param(self.fi, f.id):
                r = self.repo.resolve_name(self.fi.module, f.id)
                if isinstance(r, tuple) and r[0] == "const":
                    f = strip_cast(r[2])
        if isinstance(f, ast.Call) and not f.keywords or isinstance(f, ast.Call) and (_std_callee(self.fi, f.func) or ("", ""))[1] == "partial":
            sc = _std_callee(self.fi, f.func)
            if sc is not None and sc[0] in ("operator", "functools"):
                return sc[1], f
        return None

    def _same_at_call(self, call: ast.Call, a: ast.AST) -> bool:
        """
        The argument `a` bound by `p = partial(...)` has the same value when `p(...)` is called: it is inert in the function, or the
        binding and the call lie in the same innermost loop body and nothing in that body re-binds the names a reads.
        """
        if _inert_arg(self.fi, a):
            return True
        st = local_defs(self.fi, call.func.id)[0][0]
        region = getattr(st, "_parent", None)
        while region is not None and not isinstance(region, (ast.For, ast.AsyncFor, ast.While, ast.FunctionDef, ast.AsyncFunctionDef)):
            region = getattr(region, "_parent", None)
        if region is None or not (region.lineno <= getattr(call, "lineno", -1) <= getattr(region, "end_lineno", -1)):
            return False
        inner = {id(x) for b in region.body for x in ast.walk(b)}
        for x in ast.walk(a):
            if isinstance(x, (ast.Call, ast.Await, ast.NamedExpr, ast.Lambda, ast.Subscript)):
                return False
            if isinstance(x, ast.Name) and x.id != "self":
                for dst, _v, _i in local_defs(self.fi, x.id):
                    if id(dst) in inner:
                        return False
        for x in ast.walk(region):
            if isinstance(x, (ast.For, ast.AsyncFor, ast.While)) and x is not region and id(x) in inner and \
                    x.lineno <= st.lineno <= x.end_lineno:
                return False
        return True

    def visit_Call(self, n: ast.Call):
        self.generic_visit(n)
        sc = _std_callee(self.fi, n.func)
        if sc is not None and sc[0] == "operator" and not n.keywords and not any(isinstance(a, ast.Starred) for a in n.args):
            nm, a = sc[1], n.args
            out = None
            if nm in _OPERATOR_CMP and len(a) == 2:
                out = ast.Compare(left=a[0], ops=[_OPERATOR_CMP[nm]()], comparators=[a[1]])
            elif nm == "contains" and len(a) == 2:
                out = ast.Compare(left=a[1], ops=[ast.In()], comparators=[a[0]])
            elif nm in _OPERATOR_BIN and len(a) == 2:
                out = ast.BinOp(left=a[0], op=_OPERATOR_BIN[nm](), right=a[1])
            elif nm == "not_" and len(a) == 1:
                out = ast.UnaryOp(op=ast.Not(), operand=a[0])
            elif nm == "getitem" and len(a) == 2:
                out = ast.Subscript(value=a[0], slice=a[1], ctx=ast.Load())
            if out is not None:
                self.changed = True
                return ast.copy_location(out, n)
        g = self._getter(n.func) if isinstance(n.func, (ast.Name, ast.Call)) else None
        if g is not None and not any(isinstance(a, ast.Starred) for a in n.args):
            nm, mk = g
            out = None
            if nm == "attrgetter" and len(n.args) == 1 and not n.keywords and len(mk.args) == 1 and isinstance(mk.args[0], ast.Constant) \
                    and isinstance(mk.args[0].value, str) and all(p_.isidentifier() for p_ in mk.args[0].value.split(".")):
                out = n.args[0]
                for part in mk.args[0].value.split("."):
                    out = ast.Attribute(value=out, attr=part, ctx=ast.Load())
            elif nm == "itemgetter" and len(n.args) == 1 and not n.keywords and len(mk.args) == 1 and isinstance(mk.args[0], ast.Constant):
                out = ast.Subscript(value=n.args[0], slice=clone(mk.args[0]), ctx=ast.Load())
            elif nm == "methodcaller" and len(n.args) == 1 and not n.keywords and mk.args and isinstance(mk.args[0], ast.Constant) and isinstance(mk.args[0].value, str) \
                    and mk.args[0].value.isidentifier() and all(_inert_arg(self.fi, a) for a in mk.args[1:]) and all(k.arg and _inert_arg(self.fi, k.value) for k in mk.keywords):
                out = ast.Call(func=ast.Attribute(value=n.args[0], attr=mk.args[0].value, ctx=ast.Load()), args=[clone(a) for a in mk.args[1:]],
                               keywords=[ast.keyword(arg=k.arg, value=clone(k.value)) for k in mk.keywords])
            elif nm == "partial" and isinstance(n.func, ast.Name) and mk.args and not any(isinstance(a, ast.Starred) for a in mk.args) \
                    and all(k.arg for k in [*mk.keywords, *n.keywords]) and all(self._same_at_call(n, a) for a in [*mk.args, *[k.value for k in mk.keywords]]) \
                    and not {k.arg for k in mk.keywords} & {k.arg for k in n.keywords}:
                out = ast.Call(func=clone(mk.args[0]), args=[*[clone(a) for a in mk.args[1:]], *n.args],
                               keywords=[*[ast.keyword(arg=k.arg, value=clone(k.value)) for k in mk.keywords], *n.keywords])
            if out is not None:
                self.changed = True
                return ast.copy_location(out, n)
        return n


def _union_members(fi: FuncInfo, e: ast.AST):
    """[A, B, ...] when e is the union of the containers A, B, ... as far as `in` is concerned: chain(A, B), (*A, *B), {**A, **B}, A.keys() | B.keys(), ChainMap(A, B)."""
    e = strip_cast(e)

    def keys_of(x):
        x = strip_cast(x)
        if isinstance(x, ast.Call) and isinstance(x.func, ast.Attribute) and x.func.attr == "keys" and not x.args and not x.keywords:
            return x.func.value
        if isinstance(x, ast.Call) and isinstance(x.func, ast.Name) and x.func.id in ("set", "frozenset", "list", "tuple") and len(x.args) == 1 and not x.keywords:
            return x.args[0]
        return x if isinstance(x, (ast.Name, ast.Attribute)) else None
    if isinstance(e, ast.Call) and not e.keywords and len(e.args) >= 2 and not any(isinstance(a, ast.Starred) for a in e.args):
        sc = _std_callee(fi, e.func)
        if sc in (("itertools", "chain"), ("collections", "ChainMap")):
            return [keys_of(a) for a in e.args] if all(keys_of(a) is not None for a in e.args) else None
    if isinstance(e, (ast.Tuple, ast.List, ast.Set)) and len(e.elts) >= 2 and all(isinstance(x, ast.Starred) for x in e.elts):
        return [keys_of(x.value) for x in e.elts] if all(keys_of(x.value) is not None for x in e.elts) else None
    if isinstance(e, ast.Dict) and len(e.keys) >= 2 and all(k is None for k in e.keys):
        return [keys_of(v) for v in e.values] if all(keys_of(v) is not None for v in e.values) else None
    if isinstance(e, ast.BinOp) and isinstance(e.op, ast.BitOr):
        parts, todo = [], [e]
        while todo:
            x = strip_cast(todo.pop(0))
            if isinstance(x, ast.BinOp) and isinstance(x.op, ast.BitOr):
                todo[:0] = [x.left, x.right]
            else:
                parts.append(x)
        if all(isinstance(strip_cast(x), ast.Call) and keys_of(x) is not None and keys_of(x) is not x for x in parts):
            return [keys_of(x) for x in parts]
    return None


def _fold_membership(fi: FuncInfo, e: ast.AST):
    """`k in chain(A, B, C)` (and the other union spellings) -> `k in A or k in B or k in C`; `not in` -> the negated conjunction."""
    if not (isinstance(e, ast.Compare) and len(e.ops) == 1 and isinstance(e.ops[0], (ast.In, ast.NotIn))):
        return None
    k = strip_cast(e.left)
    if not _simple_elt(k) or isinstance(k, (ast.Tuple, ast.List, ast.Dict)):
        return None
    ms = _union_members(fi, e.comparators[0])
    if not ms:
        return None
    out = ast.BoolOp(op=ast.Or(), values=[ast.Compare(left=clone(k), ops=[ast.In()], comparators=[clone(m)]) for m in ms])
    if isinstance(e.ops[0], ast.NotIn):
        out = ast.UnaryOp(op=ast.Not(), operand=out)
    return ast.copy_location(out, e)


def _fold_quantifier(e: ast.AST):
    """`any(P(x) for x in (a, b, c))` in a boolean position -> `P(a) or P(b) or P(c)` (`all` -> and); None when not of that shape."""
    if not (isinstance(e, ast.Call) and isinstance(e.func, ast.Name) and e.func.id in ("any", "all") and len(e.args) == 1 and not e.keywords):
        return None
    g = e.args[0]
    if not isinstance(g, (ast.GeneratorExp, ast.ListComp)) or len(g.generators) != 1 or g.generators[0].is_async:
        return None
    gen = g.generators[0]
    it = strip_cast(gen.iter)
    if not isinstance(it, (ast.Tuple, ast.List)) or not it.elts or len(it.elts) > 8 or not all(_simple_elt(x) for x in it.elts) \
            or any(isinstance(x, ast.Starred) for x in it.elts):
        return None
    if any(isinstance(n, (ast.NamedExpr, ast.Await, ast.Yield, ast.YieldFrom, ast.Lambda, ast.GeneratorExp, ast.ListComp, ast.SetComp, ast.DictComp))
           for x in [g.elt, *gen.ifs] for n in ast.walk(x)):
        return None
    is_any = e.func.id == "any"
    terms = []
    for x in it.elts:
        m: dict = {}
        if not _bind_target(gen.target, x, m):
            return None
        parts = [_Subst(m).visit(clone(c)) for c in gen.ifs]
        body = _Subst(m).visit(clone(g.elt))
        if is_any:
            terms.append(ast.BoolOp(op=ast.And(), values=[*parts, body]) if parts else body)
        else:
            cond = ast.BoolOp(op=ast.And(), values=parts) if len(parts) > 1 else parts[0] if parts else None
            terms.append(body if cond is None else ast.BoolOp(op=ast.Or(), values=[ast.UnaryOp(op=ast.Not(), operand=cond), body]))
    out = terms[0] if len(terms) == 1 else ast.BoolOp(op=ast.Or() if is_any else ast.And(), values=terms)
    return ast.copy_location(out, e)


def _fold_bool_positions(root: ast.AST, fi: FuncInfo | None = None) -> bool:
    """Rewrite quantifiers over literal tuples in the tests of if / while / assert / conditional expressions (truth value is all that is used there)."""
    changed = [False]

    def pos(e: ast.AST) -> ast.AST:
        if isinstance(e, ast.BoolOp):
            e.values = [pos(v) for v in e.values]
            return e
        if isinstance(e, ast.UnaryOp) and isinstance(e.op, ast.Not):
            e.operand = pos(e.operand)
            return e
        r = _fold_quantifier(e)
        if r is None and fi is not None:
            r = _fold_membership(fi, e)
        if r is not None:
            changed[0] = True
            return pos(r)
        return e
    for n in ast.walk(root):
        if isinstance(n, (ast.If, ast.While, ast.IfExp, ast.Assert)):
            n.test = pos(n.test)
    return changed[0]


def _own_loop_jumps(body) -> bool:
    """break / continue that belong to the loop whose body this is"""
    stack = list(body)
    while stack:
        n = stack.pop()
        if isinstance(n, (ast.Break, ast.Continue)):
            return True
        if isinstance(n, (ast.For, ast.AsyncFor, ast.While, ast.FunctionDef, ast.AsyncFunctionDef, ast.ClassDef, ast.Lambda)):
            if isinstance(n, (ast.For, ast.AsyncFor, ast.While)):
                stack.extend(n.orelse)
            continue
        stack.extend(ast.iter_child_nodes(n))
    return False


def _without_continue(stmts: list):
    """
    The same statement list without `continue`s of the enclosing loop, when they are guard clauses: `continue` ends the
    list, or is the last statement of one branch of a top-level `if` whose other statements do not jump - the rest of the
    list then moves into the other branch.  None for any other placement (inside try / with / nested if chains that mix jumps).
    """
    out = []
    for i, st in enumerate(stmts):
        if isinstance(st, ast.Continue):
            return out or [ast.copy_location(ast.Pass(), st)]
        if isinstance(st, ast.Break):
            return None
        if not _own_loop_jumps([st]):
            out.append(st)
            continue
        if not isinstance(st, ast.If):
            return None
        rest = _without_continue(stmts[i + 1:])
        if rest is None:
            return None
        body_j, else_j = _own_loop_jumps(st.body), _own_loop_jumps(st.orelse)
        if body_j and else_j:
            return None
        jb, other = (st.body, st.orelse) if body_j else (st.orelse, st.body)
        if not isinstance(jb[-1], ast.Continue) or _own_loop_jumps(jb[:-1]):
            return None
        keep = jb[:-1] or [ast.copy_location(ast.Pass(), jb[-1])]
        cont = [*other, *rest] or [ast.copy_location(ast.Pass(), st)]
        new_if = ast.If(test=st.test, body=keep if body_j else cont, orelse=cont if body_j else keep)
        if not new_if.orelse or (len(new_if.orelse) == 1 and isinstance(new_if.orelse[0], ast.Pass)):
            new_if.orelse = []
        out.append(ast.copy_location(new_if, st))
        return out
    return out


def _stored_chains(body) -> set[str]:
    out = set()
    for st in body:
        for n in ast.walk(st):
            if isinstance(n, (ast.Name, ast.Attribute, ast.Subscript)) and isinstance(n.ctx, (ast.Store, ast.Del)):
                c = chain(n)
                if c:
                    out.add(c)
            elif isinstance(n, ast.Call) and isinstance(n.func, ast.Name) and n.func.id in ("setattr", "delattr") and n.args:
                out.add((chain(n.args[0]) or "?") + ".*")
    return out


class _Unroller:
    def __init__(self, repo, fi: FuncInfo, root) -> None:
        self.repo, self.fi, self.root, self.changed = repo, fi, root, False

    def block(self, stmts: list) -> list:
        out = []
        for st in stmts:
            for f in ("body", "orelse", "finalbody"):
                v = getattr(st, f, None)
                if isinstance(v, list) and v and isinstance(v[0], ast.stmt):
                    setattr(st, f, self.block(v))
            for h in getattr(st, "handlers", []) or []:
                h.body = self.block(h.body)
            if isinstance(st, ast.For):
                un = self.unroll(st)
                if un is not None:
                    out.extend(un)
                    self.changed = True
                    continue
            out.append(st)
        return out

    def unroll(self, st: ast.For):
        elts = _literal_elts(self.repo, self.fi, st.iter)
        if elts is None or len(elts) > 8:
            return None
        orig = st
        if _own_loop_jumps(st.body):
            # guard-clause `continue`s are structured away first (`if c: continue; REST` is `if c: pass / else: REST`)
            body = _without_continue([clone(b) for b in st.body])
            if body is None or _own_loop_jumps(body):
                return None
            st = ast.copy_location(ast.For(target=st.target, iter=st.iter, body=body, orelse=st.orelse, type_comment=None), st)
            ast.fix_missing_locations(st)
        tnames = {n.id for n in ast.walk(st.target) if isinstance(n, ast.Name)}
        if not tnames or any(not isinstance(n, (ast.Name, ast.Tuple, ast.List, ast.Load, ast.Store)) for n in ast.walk(st.target)):
            return None
        stored = _stored_chains(st.body)
        if tnames & stored:
            return None
        # the loop variables must not be used outside the loop (they would keep the last element)
        inside = {id(n) for n in ast.walk(st)} | {id(n) for n in ast.walk(orig)}
        for n in ast.walk(self.root):
            if isinstance(n, ast.Name) and n.id in tnames and id(n) not in inside:
                return None
        out = []
        fresh = self._iteration_locals(st, tnames, inside)
        for k, e in enumerate(elts):
            m: dict = {}
            if not _bind_target(st.target, e, m):
                return None
            for v in m.values():
                for x in ast.walk(v):
                    if isinstance(x, (ast.Name, ast.Attribute)):
                        c = chain(x)
                        if c and (c in stored or any(s.endswith(".*") and c.startswith(s[:-2] + ".") for s in stored)) and not isinstance(v, ast.Constant):
                            # the element is re-assigned inside the body: keep the value the tuple held
                            if any(isinstance(n, ast.Name) and isinstance(n.ctx, ast.Load) and n.id in m and m[n.id] is v and self._used_after_store(st.body, n, c)
                                   for b in st.body for n in ast.walk(b)):
                                return None
            sub = _Subst(m)
            copy = [sub.visit(clone(b)) for b in st.body]
            if k and fresh:
                # a local that every iteration binds before reading it and that is not used outside the loop is a different
                # variable per iteration: give the later copies their own name, so that each has one definition
                ren = {x: f"{x}__{k}" for x in fresh}
                for b in copy:
                    for n in ast.walk(b):
                        if isinstance(n, ast.Name) and n.id in ren:
                            n.id = ren[n.id]
            out.extend(copy)
        out.extend(st.orelse)
        return out

    def _iteration_locals(self, st: ast.For, tnames: set, inside: set) -> set:
        cands = {n.id for b in st.body for n in ast.walk(b) if isinstance(n, ast.Name) and isinstance(n.ctx, (ast.Store, ast.Del))} - tnames
        if not cands or any(isinstance(n, (ast.FunctionDef, ast.AsyncFunctionDef, ast.Lambda, ast.ClassDef, ast.Global, ast.Nonlocal, ast.GeneratorExp,
                                           ast.ListComp, ast.SetComp, ast.DictComp)) for b in st.body for n in ast.walk(b)):
            return set()
        for n in ast.walk(self.root):
            if isinstance(n, ast.Name) and n.id in cands and id(n) not in inside:
                cands.discard(n.id)
        out = set()
        for x in cands:
            for b in st.body:
                if not any(isinstance(n, ast.Name) and n.id == x for n in ast.walk(b)):
                    continue
                # the first top-level statement of the body that mentions x is the plain binding `x = <something without x>`
                if isinstance(b, (ast.Assign, ast.AnnAssign)) and b.value is not None and \
                        [norm(t) for t in (b.targets if isinstance(b, ast.Assign) else [b.target])] == [x] and \
                        not any(isinstance(n, ast.Name) and n.id == x for n in ast.walk(b.value)):
                    out.add(x)
                break
        return out

    @staticmethod
    def _used_after_store(body, use: ast.Name, c: str) -> bool:
        """a store to chain c textually precedes the use inside the loop body (conservative)"""
        for b in body:
            for n in ast.walk(b):
                if isinstance(n, (ast.Name, ast.Attribute)) and isinstance(n.ctx, (ast.Store, ast.Del)) and chain(n) == c:
                    if (n.lineno, n.col_offset) < (use.lineno, use.col_offset):
                        return True
                if isinstance(n, ast.Call) and isinstance(n.func, ast.Name) and n.func.id in ("setattr", "delattr") and (n.lineno, n.col_offset) < (use.lineno, use.col_offset):
                    return True
        return False


class _MatchDesugar:
    """
    `match` statements the load-time normaliser leaves alone (sequence patterns, guards, class patterns with positional
    sub-patterns) as if / elif chains: the subject is evaluated once into a fresh local, every pattern becomes the test Python
    performs (`len(s) == n` stands for "a sequence of n elements" - strings, which a sequence pattern never matches, are kept
    undecided by the evaluator), captures become assignments at the top of the arm, a guard is tested with the captures
    substituted.  Same tests in the same order, same bodies.
    """

    def __init__(self, repo, fi: FuncInfo) -> None:
        self.repo, self.fi, self.n, self.changed = repo, fi, 0, False

    def block(self, stmts: list) -> list:
        out = []
        for st in stmts:
            for f in ("body", "orelse", "finalbody"):
                v = getattr(st, f, None)
                if isinstance(v, list) and v and isinstance(v[0], ast.stmt):
                    setattr(st, f, self.block(v))
            for h in getattr(st, "handlers", []) or []:
                h.body = self.block(h.body)
            if isinstance(st, ast.Match):
                for c in st.cases:
                    c.body = self.block(c.body)
                r = self.match(st)
                if r is not None:
                    out.extend(r)
                    self.changed = True
                    continue
            out.append(st)
        return out

    def match(self, st: ast.Match):
        pre = []
        if isinstance(st.subject, ast.Name):
            sname = st.subject.id
        else:
            self.n += 1
            sname = f"_c09_subject{self.n}"
            pre = [ast.copy_location(ast.Assign(targets=[ast.Name(id=sname, ctx=ast.Store())], value=st.subject, type_comment=None), st)]

        def subj() -> ast.AST:
            return ast.Name(id=sname, ctx=ast.Load())
        arms = []
        for case in st.cases:
            r = self.pat(case.pattern, subj)
            if r is None:
                return None
            conds, binds = r
            if case.guard is not None:
                conds = [*conds, _Subst({n: e() for n, e in binds}).visit(clone(case.guard))]
            body = [ast.copy_location(ast.Assign(targets=[ast.Name(id=n, ctx=ast.Store())], value=e(), type_comment=None), case.pattern) for n, e in binds] + case.body
            arms.append((conds, body))
        cur: list = []
        for conds, body in reversed(arms):
            if not conds:
                cur = body
            else:
                test = conds[0] if len(conds) == 1 else ast.BoolOp(op=ast.And(), values=conds)
                cur = [ast.copy_location(ast.If(test=test, body=body, orelse=cur), body[0] if body else st)]
        return pre + (cur or [ast.copy_location(ast.Pass(), st)])

    def pat(self, p, s):
        """([test expressions, all must hold], [(captured name, thunk of the captured expression)]) or None = not translated."""
        if isinstance(p, ast.MatchValue):
            return [ast.Compare(left=s(), ops=[ast.Eq()], comparators=[clone(p.value)])], []
        if isinstance(p, ast.MatchSingleton):
            return [ast.Compare(left=s(), ops=[ast.Is()], comparators=[ast.Constant(value=p.value)])], []
        if isinstance(p, ast.MatchAs):
            if p.pattern is None:
                return [], ([(p.name, s)] if p.name else [])
            r = self.pat(p.pattern, s)
            return None if r is None else (r[0], r[1] + ([(p.name, s)] if p.name else []))
        if isinstance(p, ast.MatchOr):
            rs = [self.pat(x, s) for x in p.patterns]
            if any(r is None or r[1] for r in rs):
                return None
            if any(not r[0] for r in rs):
                return [], []
            return [ast.BoolOp(op=ast.Or(), values=[r[0][0] if len(r[0]) == 1 else ast.BoolOp(op=ast.And(), values=r[0]) for r in rs])], []
        if isinstance(p, ast.MatchSequence):
            if any(isinstance(x, ast.MatchStar) for x in p.patterns):
                return None
            conds = [ast.Compare(left=ast.Call(func=ast.Name(id="len", ctx=ast.Load()), args=[s()], keywords=[]), ops=[ast.Eq()],
                                 comparators=[ast.Constant(value=len(p.patterns))])]
            binds = []
            for i, x in enumerate(p.patterns):
                r = self.pat(x, lambda i=i: ast.Subscript(value=s(), slice=ast.Constant(value=i), ctx=ast.Load()))
                if r is None:
                    return None
                conds += r[0]
                binds += r[1]
            return conds, binds
        if isinstance(p, ast.MatchClass):
            names = list(p.kwd_attrs)
            if p.patterns:
                cls = None
                try:
                    cls = self.repo.resolve_class_expr(self.fi.module, p.cls)
                except Exception:  # noqa: BLE001
                    cls = None
                fields = _record_fields(self.repo, cls) if cls is not None else None
                if fields is None or len(p.patterns) > len(fields) or "__match_args__" in cls.attrs:
                    return None
                names = fields[:len(p.patterns)] + names
            conds = [ast.Call(func=ast.Name(id="isinstance", ctx=ast.Load()), args=[s(), clone(p.cls)], keywords=[])]
            binds = []
            for nme, x in zip(names, [*p.patterns, *p.kwd_patterns]):
                r = self.pat(x, lambda nme=nme: ast.Attribute(value=s(), attr=nme, ctx=ast.Load()))
                if r is None:
                    return None
                conds += r[0]
                binds += r[1]
            return conds, binds
        return None


class _LoopPipelines:
    """
    Loops fed by a one-generator comprehension / generator expression / filter():
        for T in (E for G in IT if C): BODY      ->  for G in IT:  if C:  T = E; BODY
        name = [E for G in IT if C]              ->  name = [];  for G in IT:  if C:  name.append(E)
    (filter(f, IT) is the generator `x for x in IT if f(x)`, filter(None, IT) tests x itself, filterfalse negates).  The
    elements are produced and tested in the same order; a comprehension variable becomes a local of the function, so the
    rewrite is only made when that name occurs nowhere else in the function.
    """

    def __init__(self, fi: FuncInfo, root) -> None:
        self.fi, self.root, self.n, self.changed = fi, root, 0, False
        self.count: dict = {}
        for x in ast.walk(root):
            if isinstance(x, ast.Name):
                self.count[x.id] = self.count.get(x.id, 0) + 1
            elif isinstance(x, ast.arg):
                self.count[x.arg] = self.count.get(x.arg, 0) + 1

    def block(self, stmts: list) -> list:
        out = []
        for st in stmts:
            for f in ("body", "orelse", "finalbody"):
                v = getattr(st, f, None)
                if isinstance(v, list) and v and isinstance(v[0], ast.stmt):
                    setattr(st, f, self.block(v))
            for h in getattr(st, "handlers", []) or []:
                h.body = self.block(h.body)
            r = None
            if isinstance(st, ast.For):
                r = self.loop(st)
            elif isinstance(st, ast.Assign) and len(st.targets) == 1 and isinstance(st.targets[0], ast.Name):
                r = self.collect(st)
            if r is not None:
                out.extend(r)
                self.changed = True
            else:
                out.append(st)
        return out

    def gen(self, e: ast.AST):
        """(element, target, iterable, [conditions]) of a one-generator comprehension / filter call, else None."""
        e = strip_cast(e)
        if isinstance(e, (ast.GeneratorExp, ast.ListComp)):
            if len(e.generators) != 1 or e.generators[0].is_async:
                return None
            g = e.generators[0]
            inner = [x for part in [e.elt, *g.ifs] for x in ast.walk(part)]
            if any(isinstance(x, (ast.NamedExpr, ast.Await, ast.Yield, ast.YieldFrom, ast.Lambda, ast.GeneratorExp, ast.ListComp, ast.SetComp, ast.DictComp)) for x in inner):
                return None
            names = {x.id for x in ast.walk(g.target) if isinstance(x, ast.Name)}
            here = {}
            for x in ast.walk(e):
                if isinstance(x, ast.Name) and x.id in names:
                    here[x.id] = here.get(x.id, 0) + 1
            if not names:
                return None
            if any(self.count.get(nm, 0) != here.get(nm, 0) for nm in names):
                # the variable name is used elsewhere in the function: the comprehension's own variable gets a fresh name
                self.n += 1
                ren = {nm: f"_c09_{nm}{self.n}" for nm in names}

                class Ren(ast.NodeTransformer):
                    def visit_Name(self_, x):  # noqa: N805
                        return ast.copy_location(ast.Name(id=ren[x.id], ctx=x.ctx), x) if x.id in ren else x
                return Ren().visit(clone(e.elt)), Ren().visit(clone(g.target)), g.iter, [Ren().visit(clone(c)) for c in g.ifs]
            return e.elt, g.target, g.iter, list(g.ifs)
        if isinstance(e, ast.Call) and not e.keywords and len(e.args) == 2 and (chain(e.func) in ("filter", "filterfalse", "itertools.filterfalse")):
            neg = chain(e.func) != "filter"
            f, it = strip_cast(e.args[0]), e.args[1]
            self.n += 1
            var = f"_c09_item{self.n}"
            if isinstance(f, ast.Constant) and f.value is None:
                test = ast.Name(id=var, ctx=ast.Load())
            elif isinstance(f, ast.Lambda):
                a = f.args
                if len(a.args) != 1 or a.posonlyargs or a.kwonlyargs or a.vararg or a.kwarg or a.defaults or \
                        any(isinstance(x, (ast.NamedExpr, ast.Await, ast.Yield, ast.YieldFrom, ast.Lambda, ast.GeneratorExp, ast.ListComp, ast.SetComp, ast.DictComp)) for x in ast.walk(f.body)):
                    return None
                test = _Subst({a.args[0].arg: ast.Name(id=var, ctx=ast.Load())}).visit(clone(f.body))
            elif isinstance(f, (ast.Name, ast.Attribute)):
                test = ast.Call(func=clone(f), args=[ast.Name(id=var, ctx=ast.Load())], keywords=[])
            else:
                return None
            if neg:
                test = ast.UnaryOp(op=ast.Not(), operand=test)
            return ast.Name(id=var, ctx=ast.Load()), ast.Name(id=var, ctx=ast.Store()), it, [test]
        return None

    @staticmethod
    def guarded(ifs: list, body: list, at) -> list:
        if not ifs:
            return body
        test = ifs[0] if len(ifs) == 1 else ast.BoolOp(op=ast.And(), values=ifs)
        return [ast.copy_location(ast.If(test=test, body=body, orelse=[]), at)]

    def loop(self, st: ast.For):
        g = self.gen(st.iter)
        if g is None:
            return None
        elt, target, it, ifs = g
        same = isinstance(st.target, ast.Name) and isinstance(elt, ast.Name) and isinstance(target, ast.Name) and elt.id == target.id == st.target.id
        bind = [] if same else [ast.copy_location(ast.Assign(targets=[st.target], value=elt, type_comment=None), st)]
        inner = self.guarded(ifs, bind + st.body, st)
        new = ast.copy_location(ast.For(target=target, iter=it, body=inner, orelse=st.orelse, type_comment=None), st)
        r = self.loop(new)                                          # filter(f, (x for ...)) and the like
        return r if r is not None else [new]

    def collect(self, st: ast.Assign):
        v = strip_cast(st.value)
        if isinstance(v, ast.Call) and isinstance(v.func, ast.Name) and v.func.id == "list" and len(v.args) == 1 and not v.keywords and \
                (isinstance(strip_cast(v.args[0]), ast.GeneratorExp) or isinstance(strip_cast(v.args[0]), ast.Call) and chain(strip_cast(v.args[0]).func) in ("filter", "filterfalse", "itertools.filterfalse")):
            v = strip_cast(v.args[0])
        elif not isinstance(v, ast.ListComp):
            return None
        name = st.targets[0].id
        if any(isinstance(x, ast.Name) and x.id == name for x in ast.walk(v)):
            return None
        g = self.gen(v)
        if g is None:
            return None
        elt, target, it, ifs = g
        init = ast.copy_location(ast.Assign(targets=[ast.Name(id=name, ctx=ast.Store())], value=ast.List(elts=[], ctx=ast.Load()), type_comment=None), st)
        app = ast.copy_location(ast.Expr(value=ast.Call(func=ast.Attribute(value=ast.Name(id=name, ctx=ast.Load()), attr="append", ctx=ast.Load()), args=[elt], keywords=[])), st)
        loop = ast.copy_location(ast.For(target=target, iter=it, body=self.guarded(ifs, [app], st), orelse=[], type_comment=None), st)
        r = self.loop(loop)
        return [init, *(r if r is not None else [loop])]


# ------------------------------------------------------------------------------------ helpers the load-time inliner cannot reach
_PLAIN_BUILTINS = frozenset({"len", "int", "bool", "float", "str", "bytes", "min", "max", "abs", "isinstance", "tuple", "list", "dict", "set", "frozenset",
                             "sum", "any", "all", "sorted", "range", "enumerate", "zip", "getattr", "hasattr", "setattr", "repr", "divmod", "round"})


def _foreign_attr_names() -> frozenset:
    """Attribute names of objects that do not come from the repository (builtin containers, strings, futures, transports, loggers, sockets)."""
    global _FOREIGN_ATTRS
    if _FOREIGN_ATTRS is None:
        import asyncio
        import logging
        import socket
        names: set = set()
        for t in (dict, list, set, frozenset, tuple, str, bytes, bytearray, int, float, object, type, asyncio.Future, asyncio.Task, asyncio.DatagramTransport,
                  asyncio.Transport, asyncio.AbstractEventLoop, asyncio.Event, asyncio.Lock, logging.Logger, socket.socket, BaseException):
            names |= set(dir(t))
        _FOREIGN_ATTRS = frozenset(names)
    return _FOREIGN_ATTRS


_FOREIGN_ATTRS = None


def _functions_named(repo, name: str) -> list:
    idx = repo.__dict__.get("_c09_by_name")
    if idx is None:
        idx = {}
        for g in repo.all_functions():
            idx.setdefault(g.name, []).append(g)
        repo.__dict__["_c09_by_name"] = idx
    return idx.get(name, [])


def _attr_stored(repo, name: str) -> bool:
    """Some `<x>.name = ...` / class-level `name = ...` exists: the attribute may be something other than the one method of that name."""
    memo = repo.__dict__.setdefault("_c09_attr_stored", {})
    if name not in memo:
        memo[name] = name in _foreign_attr_names() or any(isinstance(a.ctx, (ast.Store, ast.Del)) for _m, _g, a in repo.attribute_uses(name)) or \
            any(name in c.attrs or name in c.annotations for c in repo.all_classes())
    return memo[name]


def _foreign_target(repo, fi: FuncInfo, call: ast.Call):
    """
    (helper, receiver expression | None) when the call can only run one NEW, undecorated, plain function or method that the
    load-time inliner did not reach (defined in another module, on a mixin / base class, or taking the object as an argument).
    A method is identified by its name being unique in the repository (one definition, never stored as an attribute), so the
    receiver's type need not be known.
    """
    f = call.func
    g, recv = None, None
    if isinstance(f, ast.Name):
        if is_param(fi, f.id) or local_defs(fi, f.id):
            return None
        r = repo.resolve_name(fi.module, f.id)
        if isinstance(r, FuncInfo) and r.cls is None and "." not in r.qualname:
            g = r
    elif isinstance(f, ast.Attribute):
        if isinstance(f.value, ast.Name) and not is_param(fi, f.value.id) and not local_defs(fi, f.value.id) and f.value.id not in ("self", "cls"):
            r = repo.resolve_name(fi.module, f.value.id)
            if isinstance(r, tuple) and r[0] == "module" and r[1] is not None:
                g = r[1].functions.get(f.attr)
                if g is None:
                    return None
        if g is None:
            cands = _functions_named(repo, f.attr)
            if len(cands) != 1 or cands[0].cls is None or cands[0].qualname != f"{cands[0].cls.name}.{cands[0].name}":
                return None
            g, recv = cands[0], f.value
            if not _is_new(g) or _attr_stored(repo, f.attr):
                return None
    if g is None or g.node is fi.node or not _is_new(g) or g.node.decorator_list or (g.name.startswith("__") and g.name.endswith("__")):
        return None
    if len(_functions_named(repo, g.name)) != 1 and recv is not None:
        return None
    if any(isinstance(n, (ast.Yield, ast.YieldFrom, ast.Global, ast.Nonlocal, ast.FunctionDef, ast.AsyncFunctionDef, ast.Lambda, ast.ClassDef,
                          ast.GeneratorExp, ast.ListComp, ast.SetComp, ast.DictComp, ast.NamedExpr)) for b in g.node.body for n in ast.walk(b)):
        return None
    a = g.node.args
    if a.vararg or a.kwarg:
        return None
    return g, recv


def _foreign_getter(repo, n: ast.Attribute):
    """The one NEW read-only @property that `<x>.name` can only be (unique name, never stored, no class attribute of that name)."""
    cands = _functions_named(repo, n.attr)
    if len(cands) != 1 or cands[0].cls is None or not _is_new(cands[0]) or cands[0].decorator_names() != ["property"]:
        return None
    if _attr_stored(repo, n.attr):
        return None
    return cands[0]


def _helper_body(g: FuncInfo) -> list:
    body = list(g.node.body)
    if body and isinstance(body[0], ast.Expr) and isinstance(body[0].value, ast.Constant) and isinstance(body[0].value.value, str):
        body = body[1:]
    return body


def _relocate(node: ast.AST, at: ast.AST) -> ast.AST:
    for n in ast.walk(node):
        if hasattr(n, "lineno") or isinstance(n, (ast.expr, ast.stmt)):
            ast.copy_location(n, at)
    return node


class _ForeignInliner:
    """
    Replaces calls of such helpers by their body with the parameters bound (the receiver for `self`): an expression-bodied helper
    anywhere; a helper called as a statement, as `return helper(...)` or as `x = helper(...)` by its statements.  Evaluation
    order is kept: arguments that are not plain names / attribute chains / constants are bound to fresh locals first
    (statement forms) or must be used exactly once (expression form).
    """

    def __init__(self, repo, fi: FuncInfo, root) -> None:
        self.repo, self.fi, self.root, self.changed = repo, fi, root, False
        self.taken = {n.id for n in ast.walk(root) if isinstance(n, ast.Name)} | set(fi.params())
        self.count = 0

    # -- binding
    def _plain(self, e: ast.AST) -> bool:
        e = strip_cast(e)
        if isinstance(e, ast.Constant):
            return True
        while isinstance(e, ast.Attribute):
            e = e.value
        return isinstance(e, ast.Name)

    def _bind(self, g: FuncInfo, recv, call: ast.Call):
        """parameter -> argument expression (defaults filled in), or None"""
        a = g.node.args
        pos = [x.arg for x in a.posonlyargs + a.args]
        out: dict = {}
        if recv is not None:
            if not pos or "staticmethod" in g.decorator_names():
                return None
            out[pos[0]] = recv
            pos = pos[1:]
        if any(isinstance(x, ast.Starred) for x in call.args) or any(k.arg is None for k in call.keywords) or len(call.args) > len(pos):
            return None
        for p_, x in zip(pos, call.args):
            out[p_] = x
        names = set(pos) | {x.arg for x in a.kwonlyargs}
        for k in call.keywords:
            if k.arg not in names or k.arg in out:
                return None
            out[k.arg] = k.value
        dpos = dict(zip(reversed([x.arg for x in a.posonlyargs + a.args]), reversed(a.defaults)))
        dkw = {x.arg: d for x, d in zip(a.kwonlyargs, a.kw_defaults) if d is not None}
        for p_ in names:
            if p_ not in out:
                d = dpos.get(p_, dkw.get(p_))
                if d is None or not isinstance(d, ast.Constant):
                    return None
                out[p_] = d
        return out

    def _names_ok(self, g: FuncInfo, body: list, params: set) -> bool:
        """Every free name of the helper's body means the same thing where the body is pasted."""
        stored = {n.id for b in body for n in ast.walk(b) if isinstance(n, ast.Name) and isinstance(n.ctx, (ast.Store, ast.Del))}
        if stored & params:
            return False
        for b in body:
            for n in ast.walk(b):
                if not isinstance(n, ast.Name) or n.id in params or n.id in stored:
                    continue
                if n.id in self.fi.params() or local_defs(self.fi, n.id):
                    return False                                     # shadowed by a local of the caller
                if g.module is self.fi.module:
                    continue
                here, there = self.fi.module, g.module
                if n.id in there.imports or n.id in there.classes or n.id in there.functions or n.id in there.constants:
                    if n.id in there.imports and here.imports.get(n.id) == there.imports[n.id]:
                        continue
                    r1, r2 = self.repo.resolve_name(there, n.id), self.repo.resolve_name(here, n.id)
                    if r1 is None or r2 is None or not (r1 is r2 or r1 == r2):
                        return False
                elif n.id in here.imports or n.id in here.classes or n.id in here.functions or n.id in here.constants or n.id not in _PLAIN_BUILTINS | {"True", "False", "None"}:
                    return False
        return True

    def _uses(self, body: list, name: str) -> int:
        return sum(1 for b in body for n in ast.walk(b) if isinstance(n, ast.Name) and n.id == name)

    def _fresh(self, base: str) -> str:
        k = 0
        while True:
            name = f"{base}__h{k or ''}"
            if name not in self.taken:
                self.taken.add(name)
                return name
            k += 1

    # -- expression form
    def expr(self, call: ast.Call):
        t = _foreign_target(self.repo, self.fi, call)
        if t is None:
            return None
        g, recv = t
        body = _helper_body(g)
        if len(body) != 1 or not isinstance(body[0], ast.Return) or body[0].value is None or g.is_async:
            return None
        if any(isinstance(n, ast.Await) for n in ast.walk(body[0])):
            return None
        m = self._bind(g, recv, call)
        if m is None or not self._names_ok(g, body, set(m)):
            return None
        hard = [p_ for p_, x in m.items() if not self._plain(x)]
        if hard and (len(hard) > 1 or self._uses(body, hard[0]) != 1):
            return None
        return _relocate(_Subst(m).visit(clone(body[0].value)), call)

    # -- read-only property
    def getter(self, n: ast.Attribute):
        g = _foreign_getter(self.repo, n)
        if g is None or g.node is self.fi.node:
            return None
        body = _helper_body(g)
        ps = g.params()
        if len(body) != 1 or not isinstance(body[0], ast.Return) or body[0].value is None or len(ps) != 1 or g.is_async:
            return None
        if any(isinstance(x, (ast.Await, ast.Yield, ast.YieldFrom, ast.NamedExpr, ast.Lambda)) for x in ast.walk(body[0])):
            return None
        if not self._names_ok(g, body, {ps[0]}):
            return None
        if not self._plain(n.value) and self._uses(body, ps[0]) != 1:
            return None
        return _relocate(_Subst({ps[0]: n.value}).visit(clone(body[0].value)), n)

    # -- statement forms
    def stmts(self, st: ast.stmt):
        v = st.value if isinstance(st, (ast.Expr, ast.Return, ast.Assign, ast.AnnAssign)) else None
        awaited = isinstance(v, ast.Await)
        call = v.value if awaited else v
        if not isinstance(call, ast.Call):
            return None
        t = _foreign_target(self.repo, self.fi, call)
        if t is None:
            return None
        g, recv = t
        if g.is_async != awaited or awaited and not self.fi.is_async:
            return None
        body = _helper_body(g)
        if not body:
            return None
        m = self._bind(g, recv, call)
        if m is None or not self._names_ok(g, body, set(m)):
            return None
        rets = [n for b in body for n in ast.walk(b) if isinstance(n, ast.Return)]
        tail = body[-1] if isinstance(body[-1], ast.Return) else None
        inner = [r for r in rets if r is not tail]
        if isinstance(st, ast.Expr):
            if inner or tail is not None and tail.value is not None and not isinstance(tail.value, ast.Constant):
                return None
            core, last = (body[:-1] if tail is not None else body), []
        elif isinstance(st, ast.Return):
            core = body
            last = [] if tail is not None else [ast.Return(value=None)]
        else:
            tg = st.targets if isinstance(st, ast.Assign) else [st.target]
            if inner or tail is None or tail.value is None or len(tg) != 1 or not isinstance(tg[0], ast.Name):
                return None
            core = body[:-1]
            last = [ast.Assign(targets=[clone(tg[0])], value=tail.value, type_comment=None)]
        pre = []
        mapping = {}
        for p_, x in m.items():
            if self._plain(x):
                mapping[p_] = x
            else:
                nm = self._fresh(p_)
                pre.append(ast.Assign(targets=[ast.Name(id=nm, ctx=ast.Store())], value=clone(x), type_comment=None))
                mapping[p_] = ast.Name(id=nm, ctx=ast.Load())
        # locals of the helper get names the caller does not use
        ren = {}
        for b in body:
            for n in ast.walk(b):
                if isinstance(n, ast.Name) and isinstance(n.ctx, (ast.Store, ast.Del)) and n.id not in ren:
                    ren[n.id] = self._fresh(n.id) if n.id in self.taken else n.id
                    self.taken.add(ren[n.id])
        out = list(pre)
        for b in [*core, *last]:
            b2 = clone(b)
            for n in ast.walk(b2):
                if isinstance(n, ast.Name) and n.id in ren:
                    n.id = ren[n.id]
            out.append(_Subst(mapping).visit(b2))
        if not out:
            out = [ast.Pass()]
        return [_relocate(x, st) for x in out]

    def block(self, stmts: list) -> list:
        out = []
        for st in stmts:
            if isinstance(st, (ast.FunctionDef, ast.AsyncFunctionDef, ast.ClassDef)):
                out.append(st)
                continue
            for f in ("body", "orelse", "finalbody"):
                v = getattr(st, f, None)
                if isinstance(v, list) and v and isinstance(v[0], ast.stmt):
                    setattr(st, f, self.block(v))
            for h in getattr(st, "handlers", []) or []:
                h.body = self.block(h.body)
            r = self.stmts(st) if self.count < 40 else None
            if r is not None:
                self.changed = True
                self.count += 1
                out.extend(r)
            else:
                out.append(st)
        return out

    def run(self) -> None:
        me = self

        class Ex(ast.NodeTransformer):
            def visit_FunctionDef(self_, n):  # noqa: N805
                return n if n is not me.root else self_.generic_visit(n)
            visit_AsyncFunctionDef = visit_FunctionDef

            def visit_Lambda(self_, n):  # noqa: N805
                return n

            def visit_ClassDef(self_, n):  # noqa: N805
                return n

            def visit_Attribute(self_, n):  # noqa: N805
                self_.generic_visit(n)
                r = me.getter(n) if me.count < 40 and isinstance(n.ctx, ast.Load) else None
                if r is not None:
                    me.changed = True
                    me.count += 1
                    return r
                return n

            def visit_Call(self_, n):  # noqa: N805
                self_.generic_visit(n)
                r = me.expr(n) if me.count < 40 else None
                if r is not None:
                    me.changed = True
                    me.count += 1
                    return r
                return n
        Ex().visit(self.root)
        self.root.body = self.block(self.root.body)


_CM_DECORATORS = {"contextmanager": ast.With, "contextlib.contextmanager": ast.With,
                  "asynccontextmanager": ast.AsyncWith, "contextlib.asynccontextmanager": ast.AsyncWith}


def _cm_generator(repo, fi: FuncInfo, st: ast.stmt):
    """
    (generator function, its one `yield` statement) when `with <call>:` enters a NEW private generator-based context manager
    (@contextmanager / @asynccontextmanager, one item): one plain `yield [value]` statement outside every loop, no return.
    Such a `with` runs the generator up to the yield, the block where the yield stands (an exception of the block is raised AT
    the yield, so the generator's own try / except / finally around it decides whether it is swallowed), then the rest.
    """
    if not isinstance(st, (ast.With, ast.AsyncWith)) or len(st.items) != 1 or not isinstance(st.items[0].context_expr, ast.Call):
        return None
    it = st.items[0]
    if it.optional_vars is not None and not isinstance(it.optional_vars, ast.Name):
        return None
    ts = _new_helper_targets(repo, fi, it.context_expr)
    if len(ts) != 1:
        return None
    g = ts[0]
    dn = g.decorator_names()
    if len(dn) != 1 or _CM_DECORATORS.get(dn[0]) is not type(st) or isinstance(g.node.decorator_list[0], ast.Call):
        return None
    if g.cls is not None and (len(_functions_named(repo, g.name)) != 1 or _attr_stored(repo, g.name)):
        return None                                                 # an overridable hook / rebindable attribute: not one known body
    ys = [n for n in walk_no_nested(g.node, include_root_defs=False) if isinstance(n, (ast.Yield, ast.YieldFrom, ast.Return, ast.Global, ast.Nonlocal))]
    if len(ys) != 1 or not isinstance(ys[0], ast.Yield):
        return None
    y = ys[0]
    ys_stmt = getattr(y, "_parent", None)
    if not isinstance(ys_stmt, ast.Expr):
        return None
    p = getattr(ys_stmt, "_parent", None)
    while p is not None and p is not g.node:
        if isinstance(p, (ast.For, ast.AsyncFor, ast.While, ast.FunctionDef, ast.AsyncFunctionDef, ast.Lambda, ast.ClassDef)):
            return None
        if isinstance(p, ast.ExceptHandler) or isinstance(p, ast.Try) and any(ys_stmt is x or any(ys_stmt is z for z in ast.walk(x)) for x in p.finalbody + p.orelse):
            return None                                             # yield inside a handler / finally / else: not the plain bracket shape
        p = getattr(p, "_parent", None)
    if p is not g.node:
        return None
    # the managed block must leave only by finishing or raising (a return / break / continue in it would still run the generator's tail)
    if any(isinstance(n, (ast.Return, ast.Break, ast.Continue, ast.Yield, ast.YieldFrom)) for b in st.body for n in walk_no_nested(b)):
        return None
    return g, ys_stmt


class _CmDesugar:
    """
    `with self._new_cm(args): BLOCK` for such a context manager -> the generator's statements with the parameters bound and
    BLOCK in the place of the yield (what the interpreter runs, in the same order); `as x` becomes `x = <yielded value>`.
    """

    def __init__(self, repo, fi: FuncInfo, root) -> None:
        self.repo, self.fi, self.root, self.changed = repo, fi, root, False
        self.inl = _ForeignInliner(repo, fi, root)

    def one(self, st: ast.stmt):
        t = _cm_generator(self.repo, self.fi, st)
        if t is None:
            return None
        g, ys_stmt = t
        call = st.items[0].context_expr
        inl = self.inl
        recv = call.func.value if g.cls is not None and isinstance(call.func, ast.Attribute) and "staticmethod" not in g.decorator_names() else None
        m = inl._bind(g, recv, call)
        body = _helper_body(g)
        if m is None or not body or not inl._names_ok(g, body, set(m)):
            return None
        if any(isinstance(h, ast.ExceptHandler) and h.name is not None and (h.name in inl.taken or h.name in m) for b in body for h in ast.walk(b)):
            return None
        stored_in_block = {n.id for b in st.body for n in ast.walk(b) if isinstance(n, ast.Name) and isinstance(n.ctx, (ast.Store, ast.Del))}
        pre, mapping = [], {}
        for p_, x in m.items():
            xs = strip_cast(x)
            if isinstance(xs, ast.Constant) or isinstance(xs, ast.Name) and xs.id not in stored_in_block:
                mapping[p_] = x                                     # the name means the same object whenever the generator reads it
            else:
                nm = inl._fresh(p_)
                pre.append(ast.Assign(targets=[ast.Name(id=nm, ctx=ast.Store())], value=clone(x), type_comment=None))
                mapping[p_] = ast.Name(id=nm, ctx=ast.Load())
        ren = {}
        for b in body:
            for n in ast.walk(b):
                if isinstance(n, ast.Name) and isinstance(n.ctx, (ast.Store, ast.Del)) and n.id not in ren:
                    ren[n.id] = inl._fresh(n.id) if n.id in inl.taken else n.id
                    inl.taken.add(ren[n.id])
        gen = []
        for b in body:
            b2 = clone(b)
            for n in ast.walk(b2):
                if isinstance(n, ast.Name) and n.id in ren:
                    n.id = ren[n.id]
            gen.append(_relocate(_Subst(mapping).visit(b2), st))
        block = list(st.body)
        done = [False]

        def paste(stmts: list) -> list:
            out = []
            for b in stmts:
                if isinstance(b, ast.Expr) and isinstance(b.value, ast.Yield):
                    if st.items[0].optional_vars is not None:
                        out.append(_relocate(ast.Assign(targets=[clone(st.items[0].optional_vars)], type_comment=None,
                                                        value=b.value.value if b.value.value is not None else ast.Constant(value=None)), st))
                    out.extend(block)
                    done[0] = True
                    continue
                for f in ("body", "orelse", "finalbody"):
                    v = getattr(b, f, None)
                    if isinstance(v, list) and v and isinstance(v[0], ast.stmt):
                        setattr(b, f, paste(v))
                for h in getattr(b, "handlers", None) or []:
                    h.body = paste(h.body)
                out.append(b)
            return out
        out = [_relocate(x, st) for x in pre] + paste(gen)
        return out if done[0] else None

    def block(self, stmts: list) -> list:
        out = []
        for st in stmts:
            if isinstance(st, (ast.FunctionDef, ast.AsyncFunctionDef, ast.ClassDef)):
                out.append(st)
                continue
            for f in ("body", "orelse", "finalbody"):
                v = getattr(st, f, None)
                if isinstance(v, list) and v and isinstance(v[0], ast.stmt):
                    setattr(st, f, self.block(v))
            for h in getattr(st, "handlers", []) or []:
                h.body = self.block(h.body)
            r = self.one(st)
            if r is not None:
                self.changed = True
                out.extend(r)
            else:
                out.append(st)
        return out


def _has_cm_with(repo, fi: FuncInfo) -> bool:
    return any(isinstance(n, (ast.With, ast.AsyncWith)) and _cm_generator(repo, fi, n) is not None for n in walk_no_nested(fi.node))


def _may_call_foreign(repo, fi: FuncInfo) -> bool:
    for c in ast.walk(fi.node):
        if isinstance(c, ast.Call) and _foreign_target(repo, fi, c) is not None:
            return True
        if isinstance(c, ast.Attribute) and isinstance(c.ctx, ast.Load) and _foreign_getter(repo, c) is not None:
            return True
    return False


def _derived(fi: FuncInfo, node) -> FuncInfo:
    ast.fix_missing_locations(node)
    set_parents(node)
    v = FuncInfo(fi.name, fi.qualname, node, fi.module, fi.cls)
    node._info = v  # type: ignore[attr-defined]
    return v


# ------------------------------------------------------------------------------------ selections: first-match scans and dispatch tables
def _never_none(fi: FuncInfo, e: ast.AST) -> bool:
    """The expression certainly does not evaluate to None: a container / string / number literal, a lambda, partial(...), a method of the own class."""
    e = strip_cast(e)
    if isinstance(e, (ast.Tuple, ast.List, ast.Dict, ast.Set, ast.Lambda, ast.JoinedStr)):
        return True
    if isinstance(e, ast.Constant):
        return e.value is not None
    if isinstance(e, ast.Call):
        return (_std_callee(fi, e.func) or ("", ""))[1] == "partial"
    if isinstance(e, ast.Attribute) and isinstance(e.value, ast.Name) and e.value.id == "self" and fi.cls is not None:
        return any(e.attr in c.methods for c in fi.cls.mro())
    if isinstance(e, ast.Name) and not is_param(fi, e.id):
        ds = local_defs(fi, e.id)
        return not ds and any(isinstance(n, (ast.FunctionDef, ast.AsyncFunctionDef)) and n.name == e.id for n in fi.node.body)
    return False


class _Selections:
    """
    A value picked from an ordered literal table and acted upon is written out as the cascade it computes:

      X = next((OUT for PAT in ROWS if COND), DEFAULT)   ->  if COND[row 1]: X = OUT[row 1] elif COND[row 2]: ... else: X = DEFAULT
      (ROWS a literal tuple / list of rows, directly or through a once-bound local; every row element is a pure expression over
      once-bound names, so evaluating it where the row is tried instead of where the table is built gives the same value)
      ... followed directly by `if X is None: A else: B` / `if X is not None: B [else: A]`: the test is decided per branch (OUT is never
      None) and B / A move into the branches, X replaced by the row's OUT in B;
      {k1: v1, k2: v2}.get(E) is [not] None  ->  E [not] in (k1, k2)   (values never None);
      {k1: v1, ...}.get(E)(args) as a statement under that test -> if E == k1: v1(args) elif E == k2: v2(args) else: <as written>;
      partial(f, *a, **k)(*b) -> f(*a, *b, **k);  (a, b, ...)[i] -> the element;  a call of a local single-`return` closure with
      plain arguments -> the returned expression.
    The statements run in the same order on every path, so a verdict about the view is a verdict about the function.
    """

    def __init__(self, repo, fi: FuncInfo, node) -> None:
        self.repo, self.fi, self.node, self.changed = repo, fi, node, False
        self.closures = {}
        for st in node.body:
            if isinstance(st, ast.FunctionDef) and not st.decorator_list and not local_defs(fi, st.name) and not is_param(fi, st.name) \
                    and sum(1 for s2 in ast.walk(node) if isinstance(s2, (ast.FunctionDef, ast.AsyncFunctionDef)) and s2.name == st.name) == 1:
                body = [s for s in st.body if not (isinstance(s, ast.Expr) and isinstance(s.value, ast.Constant))]
                a = st.args
                if len(body) == 1 and isinstance(body[0], ast.Return) and body[0].value is not None and not a.vararg and not a.kwarg and not a.kwonlyargs \
                        and not a.defaults and not any(isinstance(x, (ast.Yield, ast.YieldFrom, ast.Await, ast.NamedExpr, ast.Lambda)) for x in ast.walk(body[0].value)):
                    self.closures[st.name] = ([p.arg for p in a.posonlyargs + a.args], body[0].value)

    # -- pure, re-evaluable expressions
    def _stable_name(self, name: str) -> bool:
        if name in ("self", "cls", "None", "True", "False"):
            return True
        ds = local_defs(self.fi, name)
        if is_param(self.fi, name):
            return not ds
        return len(ds) <= 1

    def _pure(self, e: ast.AST) -> bool:
        for x in ast.walk(e):
            if isinstance(x, (ast.Await, ast.Yield, ast.YieldFrom, ast.NamedExpr, ast.Starred, ast.GeneratorExp, ast.ListComp, ast.SetComp, ast.DictComp)):
                return False
            if isinstance(x, ast.Name) and not self._stable_name(x.id):
                return False
            if isinstance(x, ast.Call):
                sc = _std_callee(self.fi, x.func)
                if sc is not None and sc == ("functools", "partial"):
                    continue
                if isinstance(x.func, ast.Name) and x.func.id == "cast" and len(x.args) == 2:
                    continue
                if isinstance(x.func, ast.Attribute) and x.func.attr == "get" and len(x.args) in (1, 2) and not x.keywords \
                        and self._is_table(x.func.value):
                    continue
                return False
        return True

    def _is_table(self, e: ast.AST) -> bool:
        """A dict of the own object (self.<attr> set to a dict in __init__), directly or through a once-bound local: .get() is pure and total."""
        e = resolve(self.fi, e)
        if isinstance(e, ast.Dict):
            return True
        ch = chain(e) or ""
        return ch.startswith("self.") and ch.count(".") == 1

    def _rows(self, it: ast.AST):
        it = strip_cast(it)
        if isinstance(it, ast.Name):
            d = single_def(self.fi, it.id)
            if d is None or d[1] is not None:
                return None
            it = strip_cast(d[0])
        if not isinstance(it, (ast.Tuple, ast.List)) or not it.elts or len(it.elts) > 12:
            return None
        if not all(self._pure(r) for r in it.elts):
            return None
        return list(it.elts)

    # -- expression folds
    def _fold(self, e: ast.AST) -> ast.AST:
        outer = self

        class F(ast.NodeTransformer):
            def visit_FunctionDef(self, n):
                return n

            def visit_Call(self, n: ast.Call):
                self.generic_visit(n)
                f = n.func
                if isinstance(f, ast.Call) and _std_callee(outer.fi, f.func) == ("functools", "partial") and f.args \
                        and not any(isinstance(a, ast.Starred) for a in [*f.args, *n.args]) and all(k.arg for k in [*f.keywords, *n.keywords]) \
                        and not {k.arg for k in f.keywords} & {k.arg for k in n.keywords}:
                    outer.changed = True
                    return ast.copy_location(ast.Call(func=f.args[0], args=[*f.args[1:], *n.args], keywords=[*f.keywords, *n.keywords]), n)
                if isinstance(f, ast.Name) and f.id in outer.closures and not n.keywords and len(n.args) == len(outer.closures[f.id][0]) \
                        and all(isinstance(strip_cast(a), (ast.Name, ast.Constant)) or chain(strip_cast(a)) for a in n.args):
                    ps, body = outer.closures[f.id]
                    outer.changed = True
                    out = _Subst(dict(zip(ps, n.args))).visit(clone(body))
                    return self.visit(ast.copy_location(out, n))
                return n

            def visit_Subscript(self, n: ast.Subscript):
                self.generic_visit(n)
                if isinstance(n.ctx, ast.Load) and isinstance(n.value, ast.Tuple) and isinstance(n.slice, ast.Constant) and type(n.slice.value) is int \
                        and 0 <= n.slice.value < len(n.value.elts) and not any(isinstance(x, ast.Starred) for x in n.value.elts) and outer._pure(n.value):
                    outer.changed = True
                    return n.value.elts[n.slice.value]
                return n

            def visit_Compare(self, n: ast.Compare):
                self.generic_visit(n)
                if len(n.ops) == 1 and isinstance(n.ops[0], (ast.Is, ast.IsNot)) and isinstance(n.comparators[0], ast.Constant) and n.comparators[0].value is None:
                    d = outer._dispatch(n.left)
                    if d is not None and d[2] is None:
                        keys, vals, _dflt, subj = d
                        outer.changed = True
                        return ast.copy_location(ast.Compare(left=subj, ops=[ast.In() if isinstance(n.ops[0], ast.IsNot) else ast.NotIn()],
                                                             comparators=[ast.Tuple(elts=keys, ctx=ast.Load())]), n)
                return n
        return F().visit(e)

    def _dispatch(self, e: ast.AST):
        """(keys, values, default | None, subject) for `{k: v, ...}.get(E[, D])` with distinct constant keys, never-None values and a pure subject."""
        e = strip_cast(e)
        if not (isinstance(e, ast.Call) and isinstance(e.func, ast.Attribute) and e.func.attr == "get" and isinstance(e.func.value, ast.Dict)
                and len(e.args) in (1, 2) and not e.keywords):
            return None
        d = e.func.value
        if not d.keys or any(k is None for k in d.keys):
            return None
        consts = []
        for k in d.keys:
            v = self.repo.resolve_const(self.fi.module, k, self.fi.cls)
            if not isinstance(v, (int, str, bytes)) or isinstance(v, bool):
                return None
            consts.append(v)
        if len(set(consts)) != len(consts) or len({type(c) for c in consts}) != 1:
            return None
        if not all(_never_none(self.fi, v) and self._pure(v) for v in d.values) or not self._pure(e.args[0]) or not chain(strip_cast(e.args[0])):
            return None
        dflt = e.args[1] if len(e.args) == 2 else None
        if dflt is not None and isinstance(dflt, ast.Constant) and dflt.value is None:
            dflt = None
        elif dflt is not None:
            return None
        return list(d.keys), list(d.values), dflt, e.args[0]

    # -- statements
    def run(self):
        self.node.body = self.block(self.node.body)
        return self.node

    def block(self, stmts: list) -> list:
        out, i = [], 0
        while i < len(stmts):
            st = stmts[i]
            nxt = stmts[i + 1] if i + 1 < len(stmts) else None
            rep = self._scan(st, nxt)
            if rep is not None:
                new, used = rep
                self.changed = True
                out.extend(self.block(new))
                i += used
                continue
            if isinstance(st, (ast.FunctionDef, ast.AsyncFunctionDef, ast.ClassDef)):
                out.append(st)
                i += 1
                continue
            for fld in ("body", "orelse", "finalbody"):
                if isinstance(getattr(st, fld, None), list) and getattr(st, fld) and isinstance(getattr(st, fld)[0], ast.stmt):
                    setattr(st, fld, self.block(getattr(st, fld)))
            for h in getattr(st, "handlers", []):
                h.body = self.block(h.body)
            for fld, v in list(ast.iter_fields(st)):
                if isinstance(v, ast.expr):
                    setattr(st, fld, self._fold(v))
                elif isinstance(v, list) and v and isinstance(v[0], ast.expr):
                    setattr(st, fld, [self._fold(x) for x in v])
            d = self._dispatch_stmt(st)
            if d is not None:
                self.changed = True
                out.extend(d)
            else:
                out.append(st)
            i += 1
        return out

    def _dispatch_stmt(self, st: ast.stmt):
        if not (isinstance(st, ast.Expr) and isinstance(st.value, ast.Call)):
            return None
        d = self._dispatch(st.value.func)
        if d is None or any(isinstance(a, ast.Starred) for a in st.value.args):
            return None
        keys, vals, _dflt, subj = d
        node = ast.Expr(value=st.value)
        for k, v in reversed(list(zip(keys, vals))):
            c = ast.Call(func=clone(v), args=[clone(a) for a in st.value.args], keywords=[ast.keyword(arg=kw.arg, value=clone(kw.value)) for kw in st.value.keywords])
            node = ast.If(test=ast.Compare(left=clone(subj), ops=[ast.Eq()], comparators=[clone(k)]), body=[ast.Expr(value=c)], orelse=[node])
        return [ast.copy_location(node, st)]

    def _scan(self, st: ast.stmt, nxt):
        if isinstance(st, ast.Assign) and len(st.targets) == 1 and isinstance(st.targets[0], ast.Name):
            x, val = st.targets[0].id, strip_cast(st.value)
        elif isinstance(st, ast.AnnAssign) and isinstance(st.target, ast.Name) and st.value is not None:
            x, val = st.target.id, strip_cast(st.value)
        else:
            return None
        if not (isinstance(val, ast.Call) and isinstance(val.func, ast.Name) and val.func.id == "next" and len(val.args) == 2 and not val.keywords
                and isinstance(val.args[0], ast.GeneratorExp) and len(val.args[0].generators) == 1):
            return None
        gen = val.args[0].generators[0]
        dflt = val.args[1]
        if gen.is_async or not (isinstance(dflt, ast.Constant) or self._pure(dflt)):
            return None
        rows = self._rows(gen.iter)
        if rows is None:
            return None
        out_e = val.args[0].elt
        pat_names = {n.id for n in ast.walk(gen.target) if isinstance(n, ast.Name)}
        for e in [out_e, *gen.ifs]:
            for n in ast.walk(e):
                if isinstance(n, (ast.Await, ast.Yield, ast.YieldFrom, ast.NamedExpr, ast.Lambda, ast.GeneratorExp, ast.ListComp, ast.SetComp, ast.DictComp)):
                    return None
        branches = []
        for r in rows:
            m = {}
            if not _bind_target(gen.target, strip_cast(r), m) or set(m) != pat_names:
                return None
            cond = [self._fold(_Subst(m).visit(clone(c))) for c in gen.ifs]
            test = cond[0] if len(cond) == 1 else ast.BoolOp(op=ast.And(), values=cond) if cond else ast.Constant(value=True)
            branches.append((test, self._fold(_Subst(m).visit(clone(out_e)))))
        # the following `if X is [not] None` decided per branch
        sink = None
        if isinstance(nxt, ast.If) and isinstance(nxt.test, ast.Compare) and len(nxt.test.ops) == 1 and isinstance(nxt.test.ops[0], (ast.Is, ast.IsNot)) \
                and isinstance(nxt.test.left, ast.Name) and nxt.test.left.id == x and isinstance(nxt.test.comparators[0], ast.Constant) \
                and nxt.test.comparators[0].value is None and isinstance(dflt, ast.Constant) and dflt.value is None \
                and all(_never_none(self.fi, o) and self._pure(o) for _, o in branches):
            some, none = (nxt.body, nxt.orelse) if isinstance(nxt.test.ops[0], ast.IsNot) else (nxt.orelse, nxt.body)
            rebinds = {n.id for s in some for n in ast.walk(s) if isinstance(n, ast.Name) and isinstance(n.ctx, (ast.Store, ast.Del))}
            reads = {n.id for _, o in branches for n in ast.walk(o) if isinstance(n, ast.Name)}
            if x not in rebinds and not (rebinds & reads):
                sink = (some, none)

        def assign(v):
            return ast.copy_location(ast.Assign(targets=[ast.Name(id=x, ctx=ast.Store())], value=v, type_comment=None), st)
        tail = [assign(clone(dflt))] + ([clone(s) for s in sink[1]] if sink else [])
        node = tail
        for test, o in reversed(branches):
            body = [assign(o)]
            if sink:
                body += [_Subst({x: o}).visit(clone(s)) for s in sink[0]]
            node = [ast.copy_location(ast.If(test=test, body=body, orelse=node), st)]
        return node, (2 if sink else 1)


def _make_view0(repo, fi: FuncInfo, _level: int = 0) -> FuncInfo:
    interesting = False
    if _level < 4 and _has_cm_with(repo, fi):
        node0 = clone(fi.node)
        set_parents(node0)
        v0 = FuncInfo(fi.name, fi.qualname, node0, fi.module, fi.cls)
        cm = _CmDesugar(repo, v0, node0)
        node0.body = cm.block(node0.body)
        if cm.changed:
            return _make_view0(repo, _derived(fi, node0), _level + 1)
    if _level < 4 and _may_call_foreign(repo, fi):
        node0 = clone(fi.node)
        set_parents(node0)
        v0 = FuncInfo(fi.name, fi.qualname, node0, fi.module, fi.cls)
        inl = _ForeignInliner(repo, v0, node0)
        inl.run()
        if inl.changed:
            return _make_view0(repo, _derived(fi, node0), _level + 1)
    if any(isinstance(n, ast.For) and isinstance(strip_cast(n.iter), (ast.GeneratorExp, ast.ListComp, ast.Call)) or
           isinstance(n, ast.Assign) and isinstance(strip_cast(n.value), (ast.ListComp, ast.Call)) and len(n.targets) == 1 and isinstance(n.targets[0], ast.Name)
           for n in walk_no_nested(fi.node)):
        node0 = clone(fi.node)
        lp = _LoopPipelines(fi, node0)
        node0.body = lp.block(node0.body)
        if lp.changed:
            return _make_view0(repo, _derived(fi, node0))
    if any(isinstance(n, ast.Match) for n in ast.walk(fi.node)):
        node0 = clone(fi.node)
        md = _MatchDesugar(repo, fi)
        node0.body = md.block(node0.body)
        if md.changed:
            ast.fix_missing_locations(node0)
            set_parents(node0)
            v0 = FuncInfo(fi.name, fi.qualname, node0, fi.module, fi.cls)
            node0._info = v0  # type: ignore[attr-defined]
            v1 = _make_view0(repo, v0)
            return v1
    for n in ast.walk(fi.node):
        if isinstance(n, ast.For) and (isinstance(strip_cast(n.iter), (ast.Tuple, ast.List, ast.Dict, ast.Name, ast.Attribute))
                                       or isinstance(n.iter, ast.Call) and isinstance(n.iter.func, ast.Attribute) and isinstance(n.iter.func.value, ast.Dict)):
            interesting = True
        elif isinstance(n, ast.Call) and (isinstance(n.func, ast.Name) and n.func.id in _SIMPLE_CALLS or any(k.arg is None and isinstance(k.value, ast.Dict) for k in n.keywords)):
            interesting = True
        elif isinstance(n, ast.Subscript) and isinstance(n.value, ast.Dict):
            interesting = True
        elif isinstance(n, ast.Call) and isinstance(n.func, ast.Name) and n.func.id in ("any", "all") and _fold_quantifier(n) is not None:
            interesting = True
        elif isinstance(n, ast.Call) and ((_std_callee(fi, n.func) or ("",))[0] in ("operator", "functools", "itertools", "collections") or isinstance(n.func, ast.Call)):
            interesting = True
        elif isinstance(n, ast.Compare) and len(n.ops) == 1 and isinstance(n.ops[0], (ast.In, ast.NotIn)) and not isinstance(strip_cast(n.comparators[0]), (ast.Name, ast.Attribute)):
            interesting = True
    if not interesting:
        return fi
    node = clone(fi.node)
    fs = _FoldStd(repo, fi)
    node = fs.visit(node)
    un = _Unroller(repo, fi, node)
    node.body = un.block(node.body)
    if fs.changed:
        un.changed = True
    if _fold_bool_positions(node, fi):
        un.changed = True

    def has_attr(base: ast.AST, name: str) -> bool:
        if not (isinstance(base, ast.Name) and base.id == "self" and fi.cls is not None):
            return False
        for c in fi.cls.mro():
            init = c.methods.get("__init__")
            if init is not None and any(chain(t) == f"self.{name}" for st, t in stores(init, lambda ch: ch == f"self.{name}")):
                return True
        return False
    fd = _FoldDyn(has_attr)
    node = fd.visit(node)
    if not (un.changed or fd.changed):
        return fi
    ast.fix_missing_locations(node)
    set_parents(node)
    v = FuncInfo(fi.name, fi.qualname, node, fi.module, fi.cls)
    node._info = v  # type: ignore[attr-defined]
    return v


def _selection_candidate(fi: FuncInfo) -> bool:
    for n in ast.walk(fi.node):
        if isinstance(n, ast.Call):
            f = n.func
            if isinstance(f, ast.Name) and f.id == "next" and n.args and isinstance(n.args[0], ast.GeneratorExp) or isinstance(f, ast.Call) \
                    or isinstance(f, ast.Attribute) and f.attr == "get" and isinstance(f.value, ast.Dict):
                return True
    return False


def _make_view(repo, fi: FuncInfo, _level: int = 0) -> FuncInfo:
    v = _make_view0(repo, fi, _level)
    for _ in range(3):
        if not _selection_candidate(v):
            break
        node = clone(v.node)
        set_parents(node)
        sel = _Selections(repo, v, node)
        sel.run()
        if not sel.changed:
            break
        ast.fix_missing_locations(node)
        v = _make_view0(repo, _derived(fi, node), 0)
    return v


def _view(ctx: Ctx, fi: FuncInfo) -> FuncInfo:
    """
    fi with every loop over a literal tuple / list / dict of simple elements unrolled (the loop variable replaced by the
    element) and constant-name getattr / setattr / **{...} / {...}[k] folded: the same statements in the same order, so a
    verdict about the view is a verdict about fi.  fi itself when there is nothing to unroll.
    """
    cache = ctx.__dict__.setdefault("_c09_views", {})
    k = id(fi.node)
    if k not in cache:
        try:
            v = _make_view(ctx.repo, fi)
        except RecursionError:
            v = fi
        cache[k] = (fi, v)
        cache[id(v.node)] = (v, v)
    return cache[k][1]


def _meth(ctx: Ctx, cls: str, name: str, rel: str) -> FuncInfo:
    return _view(ctx, ctx.repo.method(cls, name, rel))


# ------------------------------------------------------------------------------------ facts through fresh aliases / flags
def _between_inert(cfg, dnodes, unodes) -> bool:
    """Every statement that can run between a definition and a use neither calls anything (logging aside) nor stores an attribute."""
    fwd = cfg.reach([v for d in dnodes for v, lab in d.succ if lab != "exc"], cut_nodes=unodes)
    back, todo = set(), list(unodes)
    while todo:
        u = todo.pop()
        for p, _ in u.pred:
            if p not in back and p not in dnodes:
                back.add(p)
                todo.append(p)
    from ..cfg import call_may_raise
    for n in fwd & back:
        if n.ast is None or n in unodes:
            continue
        a = n.ast
        if isinstance(a, (ast.For, ast.AsyncFor, ast.While, ast.Try, ast.ExceptHandler, ast.With, ast.AsyncWith)):
            continue
        for x in ast.walk(a):
            if isinstance(x, ast.Call) and call_may_raise(x):
                return False
            if isinstance(x, (ast.Await, ast.Yield, ast.YieldFrom)):
                return False
            if isinstance(x, (ast.Attribute, ast.Subscript)) and isinstance(x.ctx, (ast.Store, ast.Del)):
                return False
    return True


def _facts(fi: FuncInfo, cfg, site) -> list[Fact]:
    """
    facts_at plus what they say once single-assignment locals are read back: `state = c.state ... if state == READY`
    gives `c.state == READY`, `ready = c.state == READY ... if ready` gives the comparison itself - provided nothing that
    could change the aliased value runs between the assignment and the test.
    """
    base = facts_at(cfg, site)
    out = list(base)

    def fresh_value(name_node: ast.AST, f: Fact):
        if not isinstance(name_node, ast.Name):
            return None
        d = single_def(fi, name_node.id)
        if d is None or d[1] is not None:
            return None
        st = local_defs(fi, name_node.id)[0][0]
        if not _between_inert(cfg, set(cfg.nodes_for(st)), set(cfg.nodes_for(f.atom))):
            return None
        return strip_cast(d[0])

    def atoms(e: ast.AST, pol: bool) -> list[Fact]:
        e = strip_cast(e)
        if isinstance(e, ast.UnaryOp) and isinstance(e.op, ast.Not):
            return atoms(e.operand, not pol)
        if isinstance(e, ast.BoolOp):
            if isinstance(e.op, ast.And) == pol:
                return [g for v in e.values for g in atoms(v, pol)]
            return []
        return [fact_of(e, pol)]

    todo = list(base)
    for _ in range(3):
        nxt = []
        for f in todo:
            if f.op == "truthy":
                v = fresh_value(f.left, f)
                if v is not None and isinstance(v, (ast.Compare, ast.BoolOp, ast.UnaryOp)):
                    nxt.extend(Fact(g.op, g.left, g.right, g.pos, f.atom) for g in atoms(v, f.pos))
            else:
                lv, rv = fresh_value(f.left, f), fresh_value(f.right, f) if f.right is not None else None
                if lv is not None or rv is not None:
                    nxt.append(Fact(f.op, lv if lv is not None else f.left, rv if rv is not None else f.right, f.pos, f.atom))
        out.extend(nxt)
        todo = nxt
        if not todo:
            break
    return out


def _is_increment(st: ast.stmt, target: str) -> bool:
    """`target += 1` or `target = target + 1` / `1 + target`."""
    if isinstance(st, ast.AugAssign):
        return norm(st.target) == target and isinstance(st.op, ast.Add) and const_value(st.value) == 1
    if isinstance(st, ast.Assign) and len(st.targets) == 1 and norm(st.targets[0]) == target and isinstance(st.value, ast.BinOp) \
            and isinstance(st.value.op, ast.Add):
        a, b = st.value.left, st.value.right
        return norm(a) == target and const_value(b) == 1 or norm(b) == target and const_value(a) == 1
    return False


def _increments(fi: FuncInfo, st: ast.stmt, target: str) -> bool:
    """_is_increment with the counter named through a local alias of its owner (`route = self.relays[k]` ... `route.n += 1`)."""
    t = st.target if isinstance(st, ast.AugAssign) else st.targets[0] if isinstance(st, ast.Assign) and len(st.targets) == 1 else None
    if t is None or target not in _texts(fi, t):
        return False
    return any(_is_increment(st, x) for x in _texts(fi, t)[:1])


ROUTE_OF_CELL = "self.relays[cell.circuit_id]"


def _snapshot_items_of(it: ast.AST) -> str | None:
    """`list(T.items())`, `tuple(...)`, `sorted(...)`, `T.copy().items()`, `dict(T).items()` -> chain of T (a copy is iterated)."""
    it = strip_cast(it)
    if isinstance(it, ast.Call) and isinstance(it.func, ast.Name) and it.func.id in ("list", "tuple", "sorted") and len(it.args) == 1:
        inner = strip_cast(it.args[0])
        if isinstance(inner, ast.Call) and isinstance(inner.func, ast.Attribute) and inner.func.attr == "items" and not inner.args:
            base = inner.func.value
            return _snapshot_base(base) or chain(base)
        return None
    if isinstance(it, ast.Call) and isinstance(it.func, ast.Attribute) and it.func.attr == "items" and not it.args:
        return _snapshot_base(it.func.value)
    return None


def _snapshot_base(base: ast.AST) -> str | None:
    if isinstance(base, ast.Call) and isinstance(base.func, ast.Attribute) and base.func.attr == "copy" and not base.args:
        return chain(base.func.value)
    if isinstance(base, ast.Call) and (isinstance(base.func, ast.Name) and base.func.id in ("dict", "copy") or chain(base.func) == "copy.copy") \
            and len(base.args) == 1 and not base.keywords:
        return chain(base.args[0])
    if isinstance(base, ast.Dict) and len(base.keys) == 1 and base.keys[0] is None:                 # {**T}
        return chain(base.values[0])
    return None


def _older_than(fi: FuncInfo, f, stamp: str, limit_ok) -> bool:
    """Fact f says `stamp < time.time() - LIMIT` (or the same inequality as `LIMIT < time.time() - stamp`), limit_ok(LIMIT text)."""
    if f.op != "lt" or not f.pos:
        return False
    for small in _texts(fi, f.left):
        for big in _texts(fi, f.right):
            be = ast.parse(big, mode="eval").body
            if not (isinstance(be, ast.BinOp) and isinstance(be.op, ast.Sub) and norm(be.left) in ("time.time()", "time()")):
                continue
            if small == stamp and limit_ok(norm(be.right)) or norm(be.right) == stamp and limit_ok(small):
                return True
    return False


def _traversal(fi: FuncInfo, it: ast.AST):
    """(table chain, items|keys|values) when `it` walks a *copy* of a table: list(T.items()), tuple(T), T.copy().values(), dict(T) ..."""
    def table_of(base):
        base = strip_cast(base)
        return _snapshot_base(base), rchain(fi, base)

    it = strip_cast(resolve(fi, it))
    if isinstance(it, (ast.List, ast.Tuple)) and len(it.elts) == 1 and isinstance(it.elts[0], ast.Starred):     # [*T.items()]
        it = ast.Call(func=ast.Name(id="list", ctx=ast.Load()), args=[it.elts[0].value], keywords=[])
    if isinstance(it, ast.Call) and isinstance(it.func, ast.Name) and it.func.id in ("list", "tuple", "sorted") and len(it.args) == 1:
        inner = strip_cast(resolve(fi, it.args[0]))
        if isinstance(inner, ast.Call) and isinstance(inner.func, ast.Attribute) and inner.func.attr in ("items", "keys", "values") and not inner.args:
            snap, plain = table_of(inner.func.value)
            return (snap or plain), inner.func.attr
        if isinstance(inner, (ast.Name, ast.Attribute)):
            return rchain(fi, inner), "keys"
        snap = _snapshot_base(inner)
        return (snap, "keys") if snap else None
    if isinstance(it, ast.Call) and isinstance(it.func, ast.Attribute) and it.func.attr in ("items", "keys", "values") and not it.args:
        snap = _snapshot_base(strip_cast(resolve(fi, it.func.value)))
        return (snap, it.func.attr) if snap else None
    snap = _snapshot_base(it)
    return (snap, "keys") if snap else None


def _loop_unpacks(l: ast.For) -> list:
    """`a, b = item` statements of the loop body for a loop `for item in ...` (the pair is unpacked inside instead of in the header)."""
    if not isinstance(l.target, ast.Name):
        return []
    return [st for st in ast.walk(l) if isinstance(st, ast.Assign) and len(st.targets) == 1 and isinstance(st.targets[0], (ast.Tuple, ast.List))
            and len(st.targets[0].elts) == 2 and all(isinstance(e, ast.Name) for e in st.targets[0].elts)
            and isinstance(strip_cast(st.value), ast.Name) and strip_cast(st.value).id == l.target.id]


def _entry_texts(l: ast.For, table: str, kind: str):
    """(texts naming the entry's circuit id, texts naming the entry object, loop variable names) for one sweep loop."""
    t = l.target
    if kind == "items":
        if isinstance(t, ast.Tuple) and len(t.elts) == 2 and all(isinstance(e, ast.Name) for e in t.elts):
            return [t.elts[0].id], [t.elts[1].id], {t.elts[0].id, t.elts[1].id}
        if isinstance(t, ast.Name):
            ups = _loop_unpacks(l)
            return [f"{t.id}[0]", *[u.targets[0].elts[0].id for u in ups]], [f"{t.id}[1]", *[u.targets[0].elts[1].id for u in ups]], {t.id}
    elif kind == "keys" and isinstance(t, ast.Name):
        return [t.id], [f"{table}[{t.id}]", f"{table}.get({t.id})", f"{table}.get({t.id}, None)"], {t.id}
    elif kind == "values" and isinstance(t, ast.Name) and table != "self.relay_from_to":     # a relay's circuit_id is the far side's key
        return [f"{t.id}.circuit_id"], [t.id], {t.id}
    return None


def _is_gen(g: FuncInfo) -> bool:
    return any(isinstance(n, (ast.Yield, ast.YieldFrom)) for n in walk_no_nested(g.node))


def _generator_calls(repo, f: FuncInfo, it: ast.AST, depth: int = 3) -> list:
    """
    [(call, [NEW generator helpers])] for the generator calls all of whose items an iteration over `it` sees: the call itself,
    list() / tuple() / iter() of it, itertools.chain(a, b, ...), chain.from_iterable((a, b, ...)) - also through a once-bound local.
    """
    it = strip_cast(resolve(f, it))
    if not isinstance(it, ast.Call) or depth <= 0:
        return []
    if isinstance(it.func, ast.Name) and it.func.id in ("list", "tuple", "iter") and len(it.args) == 1 and not it.keywords \
            and not is_param(f, it.func.id) and not local_defs(f, it.func.id):
        return _generator_calls(repo, f, it.args[0], depth - 1)
    if _std_callee(f, it.func) == ("itertools", "chain") and not it.keywords and not any(isinstance(a, ast.Starred) for a in it.args):
        return [x for a in it.args for x in _generator_calls(repo, f, a, depth - 1)]
    if isinstance(it.func, ast.Attribute) and it.func.attr == "from_iterable" and _std_callee(f, it.func.value) == ("itertools", "chain") \
            and len(it.args) == 1 and not it.keywords and isinstance(strip_cast(it.args[0]), (ast.Tuple, ast.List)) \
            and not any(isinstance(a, ast.Starred) for a in strip_cast(it.args[0]).elts):
        return [x for a in strip_cast(it.args[0]).elts for x in _generator_calls(repo, f, a, depth - 1)]
    ts = _new_helper_targets(repo, f, it)
    if ts and all(_is_gen(t) for t in ts):
        return [(it, ts)]
    if len(ts) == 1 and not _is_gen(ts[0]) and not ts[0].is_async:
        # a plain helper that only builds the iterable (`return chain(a(x), b(x))`): its generators are consumed by the same loop
        body = _helper_body(ts[0])
        if len(body) == 1 and isinstance(body[0], ast.Return) and body[0].value is not None:
            g = _rebound(ts[0], it)
            if g is not None:
                return [(c2, gs) for c2, gs in _generator_calls(repo, g, g.node.body[-1].value, depth - 1)]
    return []


def _rebound(g: FuncInfo, call: ast.Call):
    """g with every parameter that receives the caller's `self` renamed to `self` (None when that cannot be done by renaming)."""
    try:
        bound = _bind_args(g, call)
    except Exception:  # noqa: BLE001
        return None
    ren = {p_: "self" for p_, a in bound.items() if isinstance(strip_cast(a), ast.Name) and strip_cast(a).id == "self" and p_ != "self"}
    if not ren:
        return g
    if "self" in {n.id for n in ast.walk(g.node) if isinstance(n, ast.Name)} | set(g.params()) or any(local_defs(g, p_) for p_ in ren):
        return None
    node = clone(g.node)
    for n in ast.walk(node):
        if isinstance(n, ast.Name) and n.id in ren:
            n.id = "self"
        elif isinstance(n, ast.arg) and n.arg in ren:
            n.arg = "self"
    return _derived(g, node)


def _bound_view(ctx: Ctx, g: FuncInfo, call: ast.Call) -> FuncInfo:
    """
    The helper g as the caller sees it: a parameter that receives a plain name of the caller (`self` first of all: a method
    turned into a function taking the object) is spelled with that name.  g itself when nothing needs renaming or a name would clash.
    """
    v = _view(ctx, g)
    try:
        bound = _bind_args(g, call)
    except Exception:  # noqa: BLE001
        return v
    ren = {p_: strip_cast(a).id for p_, a in bound.items() if isinstance(strip_cast(a), ast.Name) and strip_cast(a).id == "self" and p_ != "self"}
    if not ren:
        return v
    used = {n.id for n in ast.walk(v.node) if isinstance(n, ast.Name)} | set(g.params())
    if any(t in used for t in ren.values()) or any(local_defs(v, p_) for p_ in ren):
        return v
    cache = ctx.__dict__.setdefault("_c09_bound_views", {})
    key = (id(v.node), tuple(sorted(ren.items())))
    if key not in cache:
        node = clone(v.node)
        for n in ast.walk(node):
            if isinstance(n, ast.Name) and n.id in ren:
                n.id = ren[n.id]
            elif isinstance(n, ast.arg) and n.arg in ren:
                n.arg = ren[n.arg]
        cache[key] = _derived(v, node)
    return cache[key]


def _sweep_sites(ctx: Ctx, fi: FuncInfo):
    """
    (function, loop, table, kind, consumer) for every loop over a copy of a routing table in fi and in the NEW private
    helpers fi runs on every normal path; a loop inside a NEW generator helper is tied to the loop of fi that consumes it:
    consumer = (function, loop, always) where `always` says that the consuming loop runs on every normal path of its function and
    that every generator on the way down (`yield from` / re-yield loops) hands on the inner generator's items on every normal path.
    """
    out = []
    todo, seen = [(fi, None)], set()
    while todo:
        f, consumer = todo.pop(0)
        if f.qualname in seen:
            continue
        seen.add(f.qualname)
        cfg = ctx.cfg(f)

        def passed_always(node, cfg=cfg) -> bool:
            ns = cfg.nodes_for(node)
            return bool(ns) and cfg.exit not in cfg.reach(cut_nodes=ns, follow_exc=False)

        for l in [l for l in walk_no_nested(f.node) if isinstance(l, ast.For)]:
            tr = _traversal(f, l.iter)
            if tr is not None and tr[0] in SWEEP:
                out.append((f, l, tr[0], tr[1], consumer))
                continue
            for _c, gs in _generator_calls(ctx.repo, f, l.iter):
                for g in gs:
                    if consumer is None:
                        todo.append((_bound_view(ctx, g, _c), (f, l, passed_always(l))))
                    elif isinstance(l.target, ast.Name) and len(l.body) == 1 and isinstance(l.body[0], ast.Expr) and isinstance(l.body[0].value, ast.Yield) \
                            and isinstance(l.body[0].value.value, ast.Name) and l.body[0].value.value.id == l.target.id and not l.orelse:
                        # `for x in inner(): yield x` inside a generator: the items go to the same consumer
                        todo.append((_bound_view(ctx, g, _c), (consumer[0], consumer[1], consumer[2] and passed_always(l))))
        if consumer is not None:
            for y in [y for y in walk_no_nested(f.node) if isinstance(y, ast.YieldFrom)]:
                for _c, gs in _generator_calls(ctx.repo, f, y.value):
                    for g in gs:
                        todo.append((_bound_view(ctx, g, _c), (consumer[0], consumer[1], consumer[2] and passed_always(y))))
            continue
        for c in calls(f):
            par = getattr(c, "_parent", None)
            if isinstance(par, ast.For) and par.iter is c:
                continue
            for g in _new_helper_targets(ctx.repo, f, c):
                if _is_gen(g):
                    continue
                ns = cfg.nodes_for(c)
                if ns and cfg.exit not in cfg.reach(cut_nodes=ns, follow_exc=False):
                    todo.append((_bound_view(ctx, g, c), None))
    return out


def _remover_sinks(f: FuncInfo, cfg, within: ast.AST, remover: str, idset: set[str]) -> list:
    out = []
    for c in ast.walk(within):
        if isinstance(c, ast.Call) and chain(c.func) == f"self.{remover}":
            a = arg(c, 0, "circuit_id")
            if a is not None and set(_texts(f, a)) & idset:
                out.extend(cfg.nodes_for(c))
    return out


def _record_slot(f: FuncInfo, value: ast.AST | None, idset: set[str]):
    """Where a record (`cid` or `(cid, reason, ...)`) carries the circuit id: () for the bare id, (k,) for element k; None = not there."""
    if value is None:
        return None
    v = strip_cast(value)
    if set(_texts(f, v)) & idset:
        return ()
    if isinstance(v, (ast.Tuple, ast.List)):
        for k, e in enumerate(v.elts):
            if not isinstance(e, ast.Starred) and set(_texts(f, e)) & idset:
                return (k,)
    return None


def _init_fields(cls) -> dict | None:
    """
    field -> constructor parameter for a small record class with a hand-written __init__ whose top-level statements store
    parameters unchanged (`self.f = p`): only those fields are listed.  None when instances can be something else than what the
    constructor call shows (inherited constructors, attribute hooks, `self` escaping from __init__).
    """
    hooks = ("__new__", "__getattr__", "__getattribute__", "__setattr__", "__post_init__", "__init_subclass__")
    if any(m in c.methods for c in cls.mro() for m in hooks) or any("__init__" in c.methods for c in cls.mro()[1:]) or cls.subclasses:
        return None
    init = cls.methods.get("__init__")
    if init is None or init.node.decorator_list or init.node.args.vararg or init.node.args.kwarg or cls.node.decorator_list:
        return None
    ps = init.params()
    if not ps:
        return None
    me = ps[0]
    for n in ast.walk(init.node):
        if isinstance(n, ast.Name) and n.id == me and not (isinstance(getattr(n, "_parent", None), ast.Attribute) and n._parent.value is n):
            return None                                             # `self` handed to someone else
    stored_params = {n.id for n in ast.walk(init.node) if isinstance(n, ast.Name) and isinstance(n.ctx, (ast.Store, ast.Del))}
    out: dict = {}
    for st in init.node.body:
        if isinstance(st, (ast.Assign, ast.AnnAssign)) and st.value is not None:
            tg = st.targets if isinstance(st, ast.Assign) else [st.target]
            v = strip_cast(st.value)
            if len(tg) == 1 and isinstance(tg[0], ast.Attribute) and isinstance(tg[0].value, ast.Name) and tg[0].value.id == me \
                    and isinstance(v, ast.Name) and v.id in ps[1:] and v.id not in stored_params:
                out[tg[0].attr] = v.id
    # a field is what the constructor stored only if nothing else of the class writes it and it is not shadowed by a descriptor
    for g in cls.methods.values():
        for n in ast.walk(g.node):
            if isinstance(n, ast.Attribute) and isinstance(n.ctx, (ast.Store, ast.Del)) and n.attr in out:
                own = enclosing_stmt(n)
                if not (g is init and own in init.node.body and isinstance(own, (ast.Assign, ast.AnnAssign)) and
                        sum(1 for x in ast.walk(init.node) if isinstance(x, ast.Attribute) and isinstance(x.ctx, (ast.Store, ast.Del)) and x.attr == n.attr) == 1):
                    out.pop(n.attr, None)
    for name in list(out):
        if name in cls.attrs or name in cls.methods:
            out.pop(name)
    return out


def _ctor_fields(repo, f: FuncInfo, call: ast.AST):
    """(field -> argument expression, ordered field names | None, mutable?) for a call that builds a record (NamedTuple / dataclass / small class)."""
    if not isinstance(call, ast.Call) or any(isinstance(a, ast.Starred) for a in call.args) or any(k.arg is None for k in call.keywords):
        return None
    if isinstance(call.func, ast.Name) and (is_param(f, call.func.id) or local_defs(f, call.func.id)):
        return None
    cls = repo.resolve_class_expr(f.module, call.func)
    if cls is None:
        return None
    names = _record_fields(repo, cls)
    if names is not None:
        out = {}
        for k, a in enumerate(call.args):
            if k >= len(names):
                return None
            out[names[k]] = a
        for kw in call.keywords:
            if kw.arg not in names or kw.arg in out:
                return None
            out[kw.arg] = kw.value
        return out, (names if _is_namedtuple(cls) else None), not _is_namedtuple(cls)
    fields = _init_fields(cls)
    if not fields:
        return None
    init = cls.methods["__init__"]
    bound = _bind_args(init, call)
    return {fld: bound[p_] for fld, p_ in fields.items() if p_ in bound}, None, True


def _record_env(repo, f: FuncInfo, rec: ast.AST, l: ast.For):
    """
    consumer-side spelling -> producer-side expression for one yielded / appended record `rec` (an expression of f) received by
    the loop `l`: the loop variable, its elements `v[k]`, its fields `v.name`, or the names of a tuple target.  (env, mutable?)
    """
    rec = strip_cast(rec)
    if isinstance(rec, ast.Name):
        d = single_def(f, rec.id)
        uses = [n for n in ast.walk(f.node) if isinstance(n, ast.Name) and n.id == rec.id]
        if d is not None and d[1] is None and len(uses) == 2 and isinstance(strip_cast(d[0]), (ast.Call, ast.Tuple, ast.List)):
            rec = strip_cast(d[0])
    t = l.target
    env: dict = {}
    mutable = False
    elts = rec.elts if isinstance(rec, (ast.Tuple, ast.List)) and not any(isinstance(e, ast.Starred) for e in rec.elts) else None
    cf = _ctor_fields(repo, f, rec)
    if cf is not None and cf[1] is not None and all(n in cf[0] for n in cf[1]):
        elts = [cf[0][n] for n in cf[1]]
    if isinstance(t, ast.Name):
        env[t.id] = rec
        for k, e in enumerate(elts or ()):
            env[f"{t.id}[{k}]"] = e
        if cf is not None:
            mutable = cf[2]
            for name, e in cf[0].items():
                env[f"{t.id}.{name}"] = e
    elif isinstance(t, (ast.Tuple, ast.List)) and elts is not None and len(elts) == len(t.elts) and all(isinstance(x, ast.Name) for x in t.elts):
        for x, e in zip(t.elts, elts):
            env[x.id] = e
    else:
        return None
    return env, mutable


def _record_removed(ctx: Ctx, f: FuncInfo, rec: ast.AST | None, idset: set[str], remover: str, cf: FuncInfo, cl: ast.For) -> bool:
    """
    Every normal run of the body of the consuming loop `cl` (in cf), started with the record `rec` (built in f for an entry whose id
    is named by idset), calls the remover with that id before the next record is fetched; the remover and the id may both travel in the
    record (`(self.remove_x, cid, ...)`, a small object with such fields) - what the consumer calls is read back through the record.
    """
    if rec is None or any(isinstance(n, (ast.Break, ast.Return)) for n in ast.walk(cl)):
        return False
    r = _record_env(ctx.repo, f, rec, cl)
    if r is None:
        return False
    env, mutable = r
    tnames = {n.id for n in ast.walk(cl.target) if isinstance(n, ast.Name)}
    inner = [n for b in [*cl.body, *cl.orelse] for n in ast.walk(b)]
    if any(isinstance(n, ast.Name) and n.id in tnames and isinstance(n.ctx, (ast.Store, ast.Del)) for n in inner):
        return False
    if mutable:
        for n in inner:
            if isinstance(n, ast.Name) and n.id in tnames:
                par = getattr(n, "_parent", None)
                if not (isinstance(par, ast.Attribute) and par.value is n and isinstance(par.ctx, ast.Load)):
                    return False                                    # the record object itself is stored / changed / handed on

    def produced(e: ast.AST | None) -> set[str]:
        out: set[str] = set()
        if e is None:
            return out
        for t in _texts(cf, e):
            if t in env:
                out |= set(_texts(f, env[t]))
        return out

    cfg = ctx.cfg(cf)
    sinks = []
    for c in inner:
        if not isinstance(c, ast.Call):
            continue
        fn = produced(c.func) | ({chain(c.func)} if not (set(_texts(cf, c.func)) & set(env)) else set())
        if f"self.{remover}" in fn and produced(arg(c, 0, "circuit_id")) & idset:
            sinks.extend(cfg.nodes_for(c))
    loopn = cfg.nodes_for(cl)
    starts = [v for n in loopn for v, lab in n.succ if lab is True]
    reach = cfg.reach(starts, cut_nodes=sinks, follow_exc=False)
    return bool(sinks) and not any(n in reach for n in loopn) and cfg.exit not in reach


def _consumer_removes(ctx: Ctx, f: FuncInfo, l: ast.For, slot, remover: str) -> bool:
    """The loop l hands the id found at `slot` of every record to self.<remover> on every normal path of its body, and never stops early."""
    t = l.target
    ids: set[str] = set()
    if slot == ():
        if isinstance(t, ast.Name):
            ids = {t.id}
    elif isinstance(t, (ast.Tuple, ast.List)) and slot[0] < len(t.elts) and isinstance(t.elts[slot[0]], ast.Name) \
            and not any(isinstance(e, ast.Starred) for e in t.elts[:slot[0] + 1]):
        ids = {t.elts[slot[0]].id}
    elif isinstance(t, ast.Name):
        ids = {f"{t.id}[{slot[0]}]"}
    if not ids or any(isinstance(n, (ast.Break, ast.Return)) for n in ast.walk(l)):
        return False
    cfg = ctx.cfg(f)
    sinks = _remover_sinks(f, cfg, l, remover, ids)
    loopn = cfg.nodes_for(l)
    starts = [v for n in loopn for v, lab in n.succ if lab is True]
    r = cfg.reach(starts, cut_nodes=sinks, follow_exc=False)
    return bool(sinks) and not any(n in r for n in loopn) and cfg.exit not in r


def _deferred_sinks(ctx: Ctx, f: FuncInfo, cfg, l: ast.For, idset: set[str], remover: str, consumer) -> list:
    """
    Statements of the sweep loop that only *record* the entry for removal, where the removal provably follows:
    `todo.append((cid, ...))` with a later unconditional loop over `todo` in the same function that removes each record, and
    `yield (cid, ...)` in a generator helper whose consuming loop removes each record.
    """
    out = []
    if consumer is not None:
        cf, cl = consumer[0], consumer[1]
        for y in ast.walk(l):
            if isinstance(y, ast.Yield):
                slot = _record_slot(f, y.value, idset)
                if slot is not None and _consumer_removes(ctx, cf, cl, slot, remover) or _record_removed(ctx, f, y.value, idset, remover, cf, cl):
                    out.extend(cfg.nodes_for(y))
        return out
    loopn = cfg.nodes_for(l)
    after = [v for n in loopn for v, lab in n.succ if lab is False]
    for c in ast.walk(l):
        if not (isinstance(c, ast.Call) and isinstance(c.func, ast.Attribute) and c.func.attr == "append" and isinstance(c.func.value, ast.Name) and len(c.args) == 1):
            continue
        lst = c.func.value.id
        d = single_def(f, lst)
        if d is None or d[1] is not None or not (isinstance(strip_cast(d[0]), ast.List) and not strip_cast(d[0]).elts
                                                 or isinstance(strip_cast(d[0]), ast.Call) and chain(strip_cast(d[0]).func) == "list" and not strip_cast(d[0]).args):
            continue
        slot = _record_slot(f, c.args[0], idset)
        for l2 in [x for x in walk_no_nested(f.node) if isinstance(x, ast.For) and x is not l]:
            it = strip_cast(l2.iter)
            if isinstance(it, ast.Call) and isinstance(it.func, ast.Name) and it.func.id in ("list", "tuple") and len(it.args) == 1:
                it = strip_cast(it.args[0])
            if not (isinstance(it, ast.Name) and it.id == lst):
                continue
            l2n = cfg.nodes_for(l2)
            # the consuming loop runs on every normal continuation after the sweep loop, and the list is only appended to
            others = [x for x in ast.walk(f.node) if isinstance(x, ast.Name) and x.id == lst and isinstance(getattr(x, "_parent", None), ast.Attribute)
                      and x._parent.attr != "append"]
            if cfg.exit not in cfg.reach(after, cut_nodes=l2n, follow_exc=False) and not others and \
                    (slot is not None and _consumer_removes(ctx, f, l2, slot, remover) or _record_removed(ctx, f, c.args[0], idset, remover, f, l2)):
                out.extend(cfg.nodes_for(c))
    return out


def rule_sweep(ctx: Ctx) -> None:
    repo = ctx.repo
    fi = _meth(ctx, "TunnelCommunity", "do_remove", TC)
    sites = _sweep_sites(ctx, fi)
    for table, (remover, need_age) in SWEEP.items():
        lp = [s for s in sites if s[2] == table]
        ctx.check(len(lp) >= 1, "sweep-coverage", fi, fi.node, f"do_remove iterates a copy of {table}",
                  f"do_remove has no loop over list({table}.items()): entries of that table are never swept")
        if not lp:
            continue
        # the sweep may be split into several passes over (copies of) the table: every pass examines every entry, and for each
        # limit there is a pass, run on every normal path, that removes every entry over the limit
        verdicts = []
        for f, l, _, kind, consumer in lp:
            cfg = ctx.cfg(f)
            names = _entry_texts(l, table, kind)
            if names is None:
                raise AnalysisError(f"undecided: the sweep loop `{norm(l.target)} in {norm(l.iter)}` binds the entries of {table} in a way this rule does not follow")
            ids, objs, pinned_names = names
            idset = set(ids)
            # no early exit from the sweep
            early = [n for n in ast.walk(l) if isinstance(n, (ast.Break, ast.Return))]
            ctx.check(not early, "sweep-coverage", f, l, f"sweep over {table} examines every entry", f"the sweep over {table} can stop early")
            if consumer is not None:
                early2 = [n for n in ast.walk(consumer[1]) if isinstance(n, (ast.Break, ast.Return))]
                ctx.check(not early2, "sweep-coverage", consumer[0], consumer[1], f"consumer of the sweep over {table} handles every entry",
                          f"the loop that removes the swept entries of {table} can stop early")
            loopn = cfg.nodes_for(l)
            starts = [v for n in loopn for v, lab in n.succ if lab is True]
            sinks = _remover_sinks(f, cfg, l, remover, idset) + _deferred_sinks(ctx, f, cfg, l, idset, remover, consumer)
            on_every_path = cfg.exit not in cfg.reach(cut_nodes=loopn, follow_exc=False)
            always = consumer[2] and on_every_path if consumer is not None else len(lp) == 1 or on_every_path

            def removed_under(assume: dict, f=f, l=l, cfg=cfg, loopn=loopn, starts=starts, sinks=sinks, always=always) -> bool:
                """Under the assumption about *this* entry, no normal run of the loop body gets to the next entry without handing it to the remover."""
                if not sinks or not starts or not always:
                    return False
                w = _World(f, cfg, assume, pinned=[*loopn, *[n for u in _loop_unpacks(l) for n in cfg.nodes_for(u)]], ctx=ctx)
                r = w.reach(starts, cut_nodes=sinks, follow_exc=False)
                return not any(n in r for n in loopn) and cfg.exit not in r

            # the inactivity test must be the *only* condition of the removal (besides `state == READY` for own circuits): an
            # extra conjunct is unknown under the assumption, leaves a path around the removal, and is reported
            idle = {}
            for o in objs:
                idle[_K("lt", f"{o}.last_activity", "time.time() - self.settings.max_time_inactive")] = True
                idle[_K("eq", f"{o}.state", "CIRCUIT_STATE_READY")] = True
            old = {_K("lt", f"{o}.creation_time", f"time.time() - self.get_max_time({i})"): True for o in objs for i in ids}
            verdicts.append((f, l, removed_under(idle), removed_under(old) if need_age else True))
        f, l = verdicts[0][0], verdicts[0][1]
        ctx.check(any(v[2] for v in verdicts), "sweep-coverage", f, l, f"{table}: entry removed when last_activity < now - max_time_inactive",
                  f"entries of {table} are not removed by inactivity: an abandoned entry lives forever if the destroy is lost")
        if need_age:
            ctx.check(any(v[3] for v in verdicts), "sweep-coverage", f, l, f"{table}: entry removed when older than get_max_time",
                      f"entries of {table} are not removed by age")
    # do_circuits -> do_remove on every path; registered periodically
    dc = _meth(ctx, "TunnelCommunity", "do_circuits", TC)
    ok = _always_passes(ctx, dc, lambda f, c: chain(c.func) == "self.do_remove")
    ctx.check(ok, "sweep-coverage", dc, dc.node, "do_circuits calls do_remove on every normal path", "do_circuits can finish without running the sweep")
    init = repo.method("TunnelCommunity", "__init__", TC)
    regs = [c for c in calls(init, "self.register_task") if chain(arg(c, 1, "task")) == "self.do_circuits"]
    ok = False
    for c in regs:
        iv = arg(c, None, "interval")
        v = repo.resolve_const(init.module, iv, init.cls) if iv is not None else None
        ok = isinstance(v, (int, float)) and v > 0
    ctx.check(ok, "sweep-coverage", init, init.node, "do_circuits registered with a positive constant interval",
              "the periodic sweep is not scheduled (no register_task(do_circuits, interval>0) in __init__)")
    # max_time_inactive etc. are positive constants in TunnelSettings
    ts = repo.cls("TunnelSettings", TC)
    for name in ("max_time_inactive", "max_time", "remove_tunnel_delay", "max_joined_circuits", "_max_relay_early"):
        v = repo.resolve_const(ts.module, ts.attrs.get(name), ts) if name in ts.attrs else None
        ctx.check(isinstance(v, (int, float)) and (v > 0 or name == "remove_tunnel_delay" and v >= 0), "sweep-coverage", ts.where, name,
                  f"TunnelSettings.{name} = {v} (finite, positive)", f"TunnelSettings.{name} is not a positive finite constant ({v})")
    # last_activity only moves by beat_heart (monotone clock reads), creation_time set once
    for m, f2, a in repo.attribute_uses("creation_time"):
        if isinstance(a.ctx, ast.Store):
            ok = f2 is not None and (f2.name == "__init__" or _only_reached_from(repo, f2, {f"{f2.cls.name}.__init__"} if f2.cls else set()))
            ctx.check(ok, "sweep-coverage", f2 or m.relpath, enclosing_stmt(a),
                      "creation_time assigned only at construction", "creation_time is refreshed after construction (age limit never reached)")


def _pops_entry(f: FuncInfo, c: ast.Call, table: str, cid_texts: set[str]) -> bool:
    """c is `<table>.pop(<cid>[, default])` (the table possibly through a local alias)."""
    return call_name(c) == "pop" and isinstance(c.func, ast.Attribute) and rchain(f, c.func.value) == table \
        and arg(c, 0) is not None and bool(set(_texts(f, arg(c, 0))) & cid_texts)


def _unknown_entry_edge(f: FuncInfo, table: str, cid_texts: set[str]):
    """Edge filter: edges that say "there is no such entry" (`T.get(id) is None`, falsy `T.get(id)`, `id not in T`), however the test is written."""
    def is_get(e) -> bool:
        got = resolve(f, e)
        return isinstance(got, ast.Call) and call_name(got) == "get" and isinstance(got.func, ast.Attribute) and rchain(f, got.func.value) == table \
            and arg(got, 0) is not None and bool(set(_texts(f, arg(got, 0))) & cid_texts)

    def unknown_entry(u, v, lab) -> bool:
        if u.kind != "cond" or not isinstance(lab, bool):
            return False
        g = fact_of(u.ast, lab)
        if g.op == "in":
            return not g.pos and bool(set(_texts(f, g.left)) & cid_texts) and rchain(f, strip_cast(g.right)) == table
        if g.op == "is":
            return g.pos and is_get(g.left) and isinstance(g.right, ast.Constant) and g.right.value is None
        return g.op == "truthy" and not g.pos and is_get(g.left)
    return unknown_entry


def _removal_nodes(ctx: Ctx, f: FuncInfo, table: str, cid: str, depth: int = 1):
    """(removal call / del statements of f, CFG nodes where the entry <table>[cid] is taken out - also inside NEW helpers that always do it)."""
    cfg = ctx.cfg(f)
    cid_texts = {cid}
    pops = [c for c in calls(f) if _pops_entry(f, c, table, cid_texts)]
    dels = [st for st, t in stores(f, lambda ch: ch.endswith("[]")) if isinstance(st, ast.Delete) and isinstance(t, ast.Subscript)
            and rchain(f, t.value) == table and set(_texts(f, t.slice)) & cid_texts]
    nodes = [n for p in pops + dels for n in cfg.nodes_for(p)]
    if depth > 0:
        for c in calls(f):
            for g0 in _new_helper_targets(ctx.repo, f, c):
                g = _view(ctx, g0)
                bound = _bind_args(g, c)
                for pname, a in bound.items():
                    if set(_texts(f, a)) & cid_texts and pname in g.params():
                        sub_sites, sub_nodes = _removal_nodes(ctx, g, table, pname, depth - 1)
                        gcfg = ctx.cfg(g)
                        if sub_nodes and gcfg.exit not in gcfg.reach(cut_nodes=sub_nodes, cut_edge=_unknown_entry_edge(g, table, {pname}), follow_exc=False):
                            pops.append(c)
                            nodes.extend(cfg.nodes_for(c))
    return pops + dels, nodes


def _always_is(ctx: Ctx, fi: FuncInfo, e: ast.AST | None, site: ast.AST, wanted) -> bool:
    """
    Whatever way the value of e at `site` was computed, it is one of the `wanted` expressions: as written, through local
    aliases, or through every definition of a local that can reach the site (a 'no delay' None that is tested away before the
    site does not reach it).
    """
    if e is None:
        return False
    if set(_texts(fi, e)) & set(wanted):
        return True
    cfg = ctx.cfg(fi)
    w = _World(fi, cfg, {}, ctx=ctx)
    for n in cfg.nodes_for(site):
        vals = w.exprs_at(e, n)
        if not vals or not all(set(_texts(fi, x)) & set(wanted) for x, _ in vals):
            return False
    return bool(cfg.nodes_for(site))


def rule_remove_removes(ctx: Ctx) -> None:
    repo = ctx.repo
    for meth, table in (("remove_circuit", "self.circuits"), ("remove_relay", "self.relay_from_to"), ("remove_exit_socket", "self.exit_sockets")):
        fi = _meth(ctx, "TunnelCommunity", meth, TC)
        cfg = ctx.cfg(fi)
        cid = fi.params()[1]
        sites, pn = _removal_nodes(ctx, fi, table, cid)
        ctx.check(bool(sites), "remove-removes", fi, fi.node, f"{meth} pops {table}[{cid}]", f"{meth} never removes the entry from {table}")
        if not sites:
            continue
        # the only edges that may lead around the removal say "there is no such entry": `T.get(id) is None`, a falsy
        # `T.get(id)` (entries are objects), `id not in T` - in whatever form the test is written (guard clause, nesting,
        # if/else, fall-through); they are cut, and the normal exit must then be unreachable without passing the removal
        r = cfg.reach(cut_nodes=pn, cut_edge=_unknown_entry_edge(fi, table, {cid}), follow_exc=False)
        ctx.check(cfg.exit not in r, "remove-removes", fi, sites[0], f"every normal path of {meth} reaches {table}.pop({cid}, None)",
                  f"{meth} can return without removing the entry (a path around the pop)")
        # the sleep is the configured delay
        for s in calls(fi, "sleep"):
            ctx.check(_always_is(ctx, fi, arg(s, 0, "delay"), s, ("self.settings.remove_tunnel_delay",)), "remove-removes", fi, s,
                      "removal delayed by settings.remove_tunnel_delay only", "removal sleeps for something other than the configured delay")
        ctx.check("task" in fi.decorator_names(), "remove-removes", fi, fi.node, f"{meth} runs as a tracked task", f"{meth} is not a @task")
    fi = _meth(ctx, "TunnelCommunity", "remove_exit_socket", TC)
    cfg = ctx.cfg(fi)
    closes = [c for c in calls(fi) if call_name(c) == "close"]
    shuts = [c for c in calls(fi) if call_name(c) == "shutdown_task_manager"]
    popvar, popst = None, None
    cidp = fi.params()[1]
    for st in walk_no_nested(fi.node):
        if isinstance(st, (ast.Assign, ast.AnnAssign)) and isinstance(strip_cast(st.value), ast.Call) and _pops_entry(fi, strip_cast(st.value), "self.exit_sockets", {cidp}):
            t = st.targets[0] if isinstance(st, ast.Assign) else st.target
            if isinstance(t, ast.Name):
                popvar, popst = t.id, st
    if popvar is None:
        pn = _removal_nodes(ctx, fi, "self.exit_sockets", cidp)[1]
        # looked up first (`x = self.exit_sockets.get(id)` / `[id]`) and taken out with `del` / a bare pop: x is the removed socket
        for st in walk_no_nested(fi.node):
            if not (isinstance(st, (ast.Assign, ast.AnnAssign)) and st.value is not None):
                continue
            v = strip_cast(st.value)
            t = st.targets[0] if isinstance(st, ast.Assign) else st.target
            looked = isinstance(v, ast.Call) and call_name(v) == "get" and isinstance(v.func, ast.Attribute) and rchain(fi, v.func.value) == "self.exit_sockets" \
                and arg(v, 0) is not None and cidp in _texts(fi, arg(v, 0)) and (len(v.args) == 1 or isinstance(v.args[1], ast.Constant) and v.args[1].value is None) \
                or isinstance(v, ast.Subscript) and rchain(fi, v.value) == "self.exit_sockets" and cidp in _texts(fi, v.slice)
            if looked and isinstance(t, ast.Name) and single_def(fi, t.id) is not None and any(chain(c.func) == f"{t.id}.close" for c in closes):
                # the entry taken out is the one that was looked up: nothing suspends between the look-up and the removal
                ln = cfg.nodes_for(st)
                if pn and all(cfg.must_complete(x, ln) for x in pn) and not _suspends_between(ctx, fi, ln, pn):
                    popvar, popst = t.id, st
    ok = popvar is not None and any(chain(c.func) == f"{popvar}.close" for c in closes) and any(chain(c.func) == f"{popvar}.shutdown_task_manager" for c in shuts)
    ctx.check(ok, "remove-removes", fi, fi.node, "popped exit socket is closed (if enabled) and its task manager shut down",
              "the removed exit socket's outside sockets / tasks are not released")
    for c in closes + shuts:
        awaited = isinstance(getattr(c, "_parent", None), ast.Await)
        ctx.check(awaited, "remove-removes", fi, c, f"{norm(c)} awaited", "socket release is not awaited")

    def about_popped(g: Fact) -> bool:
        """The condition is about the popped socket: the socket itself, its `enabled` flag, or a local read from it *after* the pop."""
        if chain(g.left) in (popvar, f"{popvar}.enabled"):
            return True
        if isinstance(g.left, ast.Name) and popst is not None:
            d = single_def(fi, g.left.id)
            ds = local_defs(fi, g.left.id)
            if d is not None and d[1] is None and norm(strip_cast(d[0])) in (popvar, f"{popvar}.enabled"):
                return all(cfg.must_complete(n, cfg.nodes_for(popst)) for n in cfg.nodes_for(ds[0][0]))
        return False

    for c in closes:
        fs = facts_at(cfg, c)
        only_enabled = [g for g in fs if g.op == "truthy" and g.pos]
        ctx.check(all(about_popped(g) for g in only_enabled), "remove-removes", fi, c,
                  "close() conditional only on the socket existing and being enabled", "closing the socket depends on an unrelated condition")
    cl = _meth(ctx, "TunnelExitSocket", "close", "ipv8/messaging/anonymization/exit_socket.py")
    tc = sorted(rchain(cl, c.func) or "?" for c in calls(cl) if call_name(c) == "close")
    want = ["self.transport_ipv4.close", "self.transport_ipv6.close"]
    if tc != want and any(not t.startswith("self.transport_") for t in tc):
        raise AnalysisError(f"undecided: TunnelExitSocket.close closes {tc}: which transports these are cannot be read off the code")
    ctx.check(tc == want, "remove-removes", cl, cl.node,
              "TunnelExitSocket.close closes both transports", f"TunnelExitSocket.close closes {tc}")
    _rule_exit_entries_leave_through_remover(ctx)
    _rule_exit_entries_not_overwritten(ctx)


def _table_inserts(f: FuncInfo, table: str):
    """(statement, target) of every `<table>[key] = value` in f (the table possibly through a local alias)."""
    out = []
    for st, t in stores(f, lambda ch: ch.endswith("[]")):
        if isinstance(t, ast.Subscript) and isinstance(t.ctx, ast.Store) and isinstance(st, (ast.Assign, ast.AnnAssign)) and rchain(f, t.value) == table:
            out.append((st, t))
    return out


def _present_keys(f: FuncInfo, key: ast.AST, table: str) -> dict:
    """The assumption "the table already has an entry under this key", in the spellings a test for it can take."""
    out = {}
    for kt in _texts(f, key):
        out[_K("in", kt, table)] = True
        out[_K("in", kt, f"{table}.keys()")] = True
        for g in (f"{table}.get({kt})", f"{table}.get({kt}, None)"):
            out[_K("is", g, "None")] = False
            out[_K("truthy", g)] = True
    return out


def _mentions_table(f: FuncInfo, e: ast.AST, table: str, depth: int = 2) -> bool:
    for x in ast.walk(e):
        if isinstance(x, ast.Attribute) and rchain(f, x) == table:
            return True
        if isinstance(x, ast.Name) and depth > 0 and not is_param(f, x.id):
            if any(v is not None and _mentions_table(f, v, table, depth - 1) for _, v, _i in local_defs(f, x.id)):
                return True
    return False


def _insert_guarded(ctx: Ctx, f: FuncInfo, site: ast.AST, key: ast.AST, table: str, depth: int = 2) -> bool:
    """
    `site` (the insertion, or a call that leads to it) cannot be reached in f while the table holds an entry under `key` -
    the test may also sit in every caller of f (the key followed back through the arguments).  A test on the table that this
    rule cannot read makes the question undecided.
    """
    cfg = ctx.cfg(f)
    w = _World(f, cfg, _present_keys(f, key, table), ctx=ctx)
    if not w.reaches(site):
        return True
    if depth > 0:
        exp = _Expand(f).visit(_clone(key))
        names = {n.id for n in ast.walk(exp) if isinstance(n, ast.Name)}
        users = [(g, c) for m, g, c in ctx.repo.callers_of_name(f.name) if g is not None and m.relpath.startswith("ipv8/") and g.node is not f.node
                 and not (isinstance(c.func, ast.Attribute) and not (isinstance(c.func.value, ast.Name) and c.func.value.id in ("self", "cls", "community", "overlay")))]
        if users and all(n in f.params() or n in ("self",) or n.isupper() for n in names) and not any(local_defs(f, n) for n in names):
            ok = True
            for g, c in users:
                bound = _bind_args(f, c)
                if any(n in f.params() and n not in ("self", "cls") and n not in bound for n in names):
                    ok = False
                    break
                k2 = _Subst({k: v for k, v in bound.items()}).visit(_clone(exp))
                ast.fix_missing_locations(k2)
                if not _insert_guarded(ctx, g, c, k2, table, depth - 1):
                    ok = False
                    break
            if ok:
                return True
    # a test that involves the table but is written in a way this rule does not evaluate, on a way to the site
    live = w.reach()
    sn = set(cfg.nodes_for(site))
    for u in live:
        if u.kind == "cond" and u.ast is not None and _mentions_table(f, u.ast, table) and None in w.ev(u.ast, u) \
                and sn & cfg.reach([v for v, lab in u.succ if lab != "exc"]):
            raise AnalysisError(f"undecided: {f.qualname} tests `{norm(u.ast)[:80]}` before it stores into {table}; whether that excludes an existing "
                                "entry under the same key cannot be read off the code")
    return False


def _rule_exit_entries_not_overwritten(ctx: Ctx) -> None:
    """
    An exit socket can only be closed by remove_exit_socket(), which finds it through exit_sockets[circuit id].  Storing a new
    socket under an id that is still in the table drops the old one from every table without closing it: no destroy, no
    inactivity / age sweep and no unload reaches its outside sockets any more.  So every insertion must be unreachable while
    the key is present (tested in the inserting function or in all of its callers).
    """
    repo = ctx.repo
    rule = "remove-removes"
    table = "self.exit_sockets"
    n = 0
    seen = set()
    for m, fi0, a in repo.attribute_uses("exit_sockets"):
        if fi0 is None or not m.relpath.startswith("ipv8/") or fi0.qualname in seen or fi0.name == "__init__":
            continue
        seen.add(fi0.qualname)
        fi = _view(ctx, fi0)
        for c in calls(fi):
            if call_name(c) in ("update", "__setitem__", "__ior__") and isinstance(c.func, ast.Attribute) and rchain(fi, c.func.value) == table:
                raise AnalysisError(f"undecided: {fi.qualname} stores into exit_sockets through `{norm(c)[:60]}`: which keys that overwrites is not followed")
        for st, t in _table_inserts(fi, table):
            n += 1
            ctx.check(_insert_guarded(ctx, fi, st, t.slice, table), rule, fi, st,
                      f"{fi.qualname}: a new exit socket is stored only under an id that is not in exit_sockets",
                      f"{fi.qualname} stores a new entry into exit_sockets (`{norm(st)[:70]}`) although an entry under the same circuit id may still be there "
                      "(no `id in self.exit_sockets` refusal on the way, here or in the callers): the socket that was there drops out of the table without "
                      "remove_exit_socket(), so its outside sockets are never closed - not by a destroy, not by the inactivity/age sweep, not by unload")
    ctx.floor("remove-removes.exit-table-inserts", n, 1)


EXIT_TABLE_REMOVERS = ("TunnelCommunity.remove_exit_socket",)
_DROPPING = {"pop", "popitem", "clear"}


def _rule_exit_entries_leave_through_remover(ctx: Ctx) -> None:
    """
    remove_exit_socket() is the only code that closes an exit's outside UDP sockets (TunnelExitSocket.close), and it finds the
    socket through the exit_sockets table.  So an entry may leave that table nowhere else: an exit socket that is popped,
    deleted or overwritten by other code is out of reach of the destroy message, of the inactivity / age sweep and of unload,
    and its transports stay open for good.
    """
    repo = ctx.repo
    rule = "remove-removes"
    n = 0
    for m, fi, a in repo.attribute_uses("exit_sockets"):
        if not m.relpath.startswith("ipv8/"):
            continue
        p = getattr(a, "_parent", None)
        what = None
        if isinstance(p, ast.Attribute) and p.value is a and p.attr in _DROPPING and isinstance(getattr(p, "_parent", None), ast.Call) and p._parent.func is p:
            what = p._parent
        elif isinstance(p, ast.Subscript) and p.value is a and isinstance(p.ctx, ast.Del):
            what = enclosing_stmt(p)
        elif isinstance(a.ctx, ast.Del):
            what = enclosing_stmt(a)
        elif isinstance(a.ctx, ast.Store) and not (fi is not None and fi.name == "__init__"):
            what = enclosing_stmt(a)
        elif fi is not None and isinstance(p, (ast.Assign, ast.AnnAssign)) and p.value is a:
            # a local alias of the table: the same forms through the alias
            t = p.targets[0] if isinstance(p, ast.Assign) else p.target
            if isinstance(t, ast.Name):
                for x in walk_no_nested(fi.node):
                    if isinstance(x, ast.Name) and x.id == t.id and x is not t:
                        px = getattr(x, "_parent", None)
                        if isinstance(px, ast.Attribute) and px.attr in _DROPPING and isinstance(getattr(px, "_parent", None), ast.Call) \
                                or isinstance(px, ast.Subscript) and px.value is x and isinstance(px.ctx, ast.Del):
                            what = enclosing_stmt(x)
        if what is None:
            continue
        n += 1
        ok = fi is not None and (fi.qualname in EXIT_TABLE_REMOVERS or _only_reached_from(repo, fi, EXIT_TABLE_REMOVERS))
        ctx.check(ok, rule, fi or m.relpath, what, f"exit_sockets entry dropped by {fi.qualname if fi else m.relpath} (the remover that closes the socket)",
                  f"{fi.qualname if fi else m.relpath} takes an entry out of exit_sockets (`{norm(what)[:80]}`) without going through remove_exit_socket(): that is the "
                  "only place that closes the exit's outside sockets (TunnelExitSocket.close), so an enabled exit socket dropped here keeps its UDP "
                  "transports open and is unreachable for the destroy message, the inactivity/age sweep and unload")
    ctx.floor("remove-removes.exit-table-drops", n, 1)


def _argval(c: ast.Call, index: int, name: str):
    """Argument of a call by position or keyword (None when not passed)."""
    return arg(c, index, name)


def rule_destroy_propagates(ctx: Ctx) -> None:
    repo = ctx.repo
    fi = _meth(ctx, "TunnelCommunity", "on_destroy", TC)
    payload = fi.params()[2]
    rr = [c for c in calls(fi, "self.remove_relay")]
    own = [c for c in rr if f"{payload}.circuit_id" in _texts(fi, arg(c, 0, "circuit_id"))]
    other = [c for c in rr if c not in own]

    def destroy_of(c):
        d = _argval(c, 3, "destroy")
        return None if d is None or isinstance(d, ast.Constant) and not d.value else d
    ok = len(own) == 1 and len(other) == 1 and destroy_of(own[0]) is not None and f"{payload}.reason" in _texts(fi, destroy_of(own[0])) \
        and destroy_of(other[0]) is None and not any(k.arg is None for k in other[0].keywords)
    ctx.check(ok, "destroy-propagates", fi, fi.node, "relay branch removes both directions and forwards destroy on exactly the far side",
              "a destroy received by a relay is not forwarded onward exactly once (or one direction is left in the table)")
    for meth, helper in (("remove_relay", "destroy_relay"), ("remove_circuit", "destroy_circuit"), ("remove_exit_socket", "destroy_exit_socket")):
        f2 = _meth(ctx, "TunnelCommunity", meth, TC)
        cfg = ctx.cfg(f2)
        hc = [c for c in calls(f2, f"self.{helper}")]
        ctx.check(len(hc) == 1, "destroy-propagates", f2, f2.node, f"{meth} sends destroy via {helper} when asked", f"{meth} no longer sends destroy")
        for c in hc:
            fs = _facts(f2, cfg, c)
            ok = any(g.op == "truthy" and g.pos and chain(g.left) == "destroy" for g in fs)
            if not ok and "destroy" in f2.params() and not local_defs(f2, "destroy"):
                # any other shape of the test, here or at the top of the sending helper (guard moved into the callee): with a
                # falsy `destroy` no destroy message can be sent
                off = {_K("truthy", "destroy"): False}
                ok = _World(f2, cfg, off, ctx=ctx).reaches(c) is False
                if not ok:
                    hf = _meth(ctx, "TunnelCommunity", helper, TC)
                    sends = [[(f2, c), (hf, sc_)] for sc_ in calls(hf, "self.send_destroy")]
                    ok = bool(sends) and all(_blocked_under(ctx, chn, off) == (True, True) for chn in sends)
            ctx.check(ok, "destroy-propagates", f2, c,
                      f"{helper} under truthy destroy", "destroy sending is not controlled by the destroy argument")
            # before the entry is popped
            pops = [n for p in calls(f2) if call_name(p) == "pop" and "request_cache" not in (chain(p.func) or "") for n in cfg.nodes_for(p)]
            hn = cfg.nodes_for(c)
            after = cfg.reach([v for p in pops for v, lab in p.succ])
            ctx.check(not any(h in after for h in hn), "destroy-propagates", f2, c, "destroy is sent before the entry is popped",
                      "destroy would be sent after the entry is gone (nothing to address it to)")
    dr = _meth(ctx, "TunnelCommunity", "destroy_relay", TC)
    sd = [c for c in calls(dr, "self.send_destroy")]
    cid = dr.params()[1]
    far = [f"self.relay_from_to.get({cid})", f"self.relay_from_to.get({cid}, None)", f"self.relay_from_to[{cid}]"]
    ok = len(sd) == 1 and any(f"{b}.hop.address" in _texts(dr, arg(sd[0], 0)) for b in far) and any(f"{b}.circuit_id" in _texts(dr, arg(sd[0], 1)) for b in far)
    ctx.check(ok, "destroy-propagates", dr, dr.node, "destroy_relay addresses the far side (relay.hop.address, relay.circuit_id)",
              "destroy_relay sends the destroy to the wrong neighbour / under the wrong circuit id")
    # our own end of a tunnel: the destroy goes to the tunnel's first hop - for a circuit that is `circuit.hop`, which is the
    # neighbour the CREATE went to also while no hop has answered yet (the verified path `hops` is empty then: indexing it raises
    # inside remove_circuit before the table pop, and the half-built circuit and the neighbour's state stay behind)
    for helper in ("destroy_circuit", "destroy_exit_socket"):
        hf = _meth(ctx, "TunnelCommunity", helper, TC)
        obj = hf.params()[1]
        for ch in ctx.anchor(_site_chains(ctx, hf, "self.send_destroy"), f"send_destroy in {helper}"):
            f, c = ch[-1]
            addr, cid = arg(c, 0, "target"), arg(c, 1, "circuit_id")
            back = {}
            if len(ch) == 2:
                back = _bind_args(f, ch[0][1])
            elif len(ch) > 2:
                raise AnalysisError(f"undecided: {helper} sends the destroy {len(ch) - 1} helpers down; the address is not followed that far")

            def spelled(e, f=f, back=back, hf=hf) -> set[str]:
                if e is None:
                    return set()
                out = set(_texts(f, e)) if f.node is hf.node or not back else set()
                if back:
                    e2 = _Subst({k: v for k, v in back.items() if not local_defs(f, k)}).visit(clone(strip_cast(e)))
                    out |= set(_texts(hf, e2))
                return out
            a_ok = f"{obj}.hop.address" in spelled(addr) or addr is not None and len(ch) == 1 and _always_is(ctx, f, addr, c, (f"{obj}.hop.address",))
            i_ok = f"{obj}.circuit_id" in spelled(cid) or cid is not None and len(ch) == 1 and _always_is(ctx, f, cid, c, (f"{obj}.circuit_id",))
            if not a_ok and addr is not None:
                shown = " / ".join(sorted(spelled(addr))) or norm(addr)
                verified_only = any(isinstance(n, ast.Subscript) and (chain(n.value) or "").endswith(("hops", "_hops")) for t in spelled(addr) | {norm(addr)}
                                    for n in ast.walk(_parse(t) or ast.Pass()))
                plain = any(isinstance(n, ast.Attribute) and n.attr in ("hop", "unverified_hop") for t in spelled(addr) for n in ast.walk(_parse(t) or ast.Pass()))
                if not verified_only and plain:
                    raise AnalysisError(f"undecided: {helper} addresses the destroy to `{shown}`: whether that is the first hop of the tunnel in every state is not decided")
            ctx.check(a_ok and i_ok, "destroy-propagates", f, c, f"{helper} addresses the tunnel's first hop ({obj}.hop.address, {obj}.circuit_id)",
                      f"{helper} does not address the destroy to the tunnel's first hop under its circuit id (for a circuit without a verified hop "
                      "`hops[0]` raises inside remove_circuit before the entry is popped: the half-built circuit stays in the table and its neighbour is never told)")
    sdf = _meth(ctx, "TunnelCommunity", "send_destroy", TC)
    pk = [c for c in calls(sdf, "self.ezr_pack")]
    ok = len(pk) == 1 and not any(k.arg == "sig" and isinstance(k.value, ast.Constant) and k.value.value is False for k in pk[0].keywords)
    ctx.check(ok, "destroy-propagates", sdf, sdf.node, "destroy messages are signed (ezr_pack default sig)", "destroy is sent unsigned: the neighbour will reject it")


def _site_chains(ctx: Ctx, fi: FuncInfo, pattern, depth: int = 2, _stack=()):
    """
    Where fi performs the call `pattern`: [[(fi, call)]] for calls written in fi, [(fi, call of helper), (helper, call)] when
    the call was moved into a NEW private helper (followed `depth` levels).
    """
    out = [[(fi, c)] for c in calls(fi, pattern)]
    if depth > 0:
        for c in calls(fi):
            for g0 in _new_helper_targets(ctx.repo, fi, c):
                if g0.qualname in _stack:
                    continue
                g = _view(ctx, g0)
                for ch in _site_chains(ctx, g, pattern, depth - 1, _stack + (fi.qualname,)):
                    out.append([(fi, c), *ch])
    return out


def _rename_key(key, mapping: dict[str, str]):
    """The assumption key re-expressed in a helper's parameter names (None when it mentions a caller local the helper does not get)."""
    op, l, r, integer = key.raw

    def ren(text: str):
        if not text:
            return text
        e = _parse(text)
        if e is None:
            return None
        for n in ast.walk(e):
            if isinstance(n, ast.Name):
                if n.id in mapping:
                    n.id = mapping[n.id]
                elif n.id not in ("self", "time", "len") and not n.id.isupper():
                    return None
        return norm(e)
    l2, r2 = ren(l), ren(r)
    return None if l2 is None or r2 is None else _K(op, l2, r2, integer)


def _blocked_under(ctx: Ctx, ch, assume: dict) -> tuple[bool, bool]:
    """(site is live at all, site cannot be reached when the assumption holds) for a site chain; the assumption follows the arguments into helpers."""
    live, blocked = True, False
    cur = dict(assume)
    for i, (f, c) in enumerate(ch):
        cfg = ctx.cfg(f)
        live = live and any(n in cfg.reach() for n in cfg.nodes_for(c))
        if _World(f, cfg, cur, ctx=ctx).reaches(c) is False:
            blocked = True
        if i + 1 < len(ch):
            g = ch[i + 1][0]
            mapping = {}
            for pname, a in _bind_args(g, c).items():
                a = strip_cast(a)
                if isinstance(a, ast.Name):
                    mapping[a.id] = pname
            nxt = {}
            for k, v in cur.items():
                k2 = _rename_key(k, mapping) if getattr(k, "raw", None) else None
                if k2 is not None:
                    nxt[k2] = v
            cur = nxt
    return live, blocked


# ------------------------------------------------------------------------------------ check-then-act without suspension
def _node_awaits(n) -> list:
    """Suspension points evaluated at CFG node n: await expressions, `async for` / `async with` headers."""
    a = n.ast
    if a is None or n.kind not in ("stmt", "cond", "loop"):
        return []
    if n.kind == "loop":
        return [a] if isinstance(a, ast.AsyncFor) else []
    if isinstance(a, (ast.With, ast.AsyncWith)):
        out = [a] if isinstance(a, ast.AsyncWith) else []
        for i in a.items:
            out += [x for x in walk_no_nested(i.context_expr) if isinstance(x, ast.Await)]
        return out
    if isinstance(a, (ast.FunctionDef, ast.AsyncFunctionDef, ast.ClassDef, ast.Try, ast.ExceptHandler)):
        return []
    return [x for x in walk_no_nested(a) if isinstance(x, ast.Await)]


def _is_generator(fi: FuncInfo) -> bool:
    return any(isinstance(n, (ast.Yield, ast.YieldFrom)) for n in walk_no_nested(fi.node))


def _may_suspend(ctx: Ctx, fi: FuncInfo, aw: ast.AST, depth: int = 2) -> bool:
    """
    Can the event loop run something else at this await?  Awaiting a coroutine function of the repository whose body never
    suspends runs it to completion synchronously; everything else (futures, sleep, executors, unknown callees) may suspend.
    """
    if not isinstance(aw, ast.Await):
        return True
    v = strip_cast(aw.value)
    if isinstance(v, ast.Call) and depth > 0:
        try:
            ts = ctx.repo.resolve_call(fi, v)
        except Exception:  # noqa: BLE001
            ts = []
        if ts and all(t.is_async and not _is_generator(t) and "task" not in t.decorator_names() and not _suspends_between(ctx, _view(ctx, t), None, None, depth=depth - 1)
                      for t in ts):
            return False
    return True


def _suspends_between(ctx: Ctx, f: FuncInfo, starts, targets, skip=(), depth: int = 2) -> list:
    """
    Suspension points on a way from `starts` (CFG nodes; None = function entry) to `targets` (None = any way out), the start
    nodes themselves and the awaits that wrap a call in `skip` excluded.
    """
    cfg = ctx.cfg(f)
    fwd = cfg.reach() if starts is None else cfg.reach([v for s_ in starts for v, lab in s_.succ])
    if targets is None:
        mid = fwd
    else:
        back, todo = set(), list(targets)
        while todo:
            u = todo.pop()
            if u in back:
                continue
            back.add(u)
            todo.extend(p_ for p_, _ in u.pred)
        mid = fwd & back
    out = []
    for n in sorted(mid, key=lambda n: n.id):
        if starts is not None and n in starts and n not in (targets or ()):
            continue
        for aw in _node_awaits(n):
            if isinstance(aw, ast.Await) and any(strip_cast(aw.value) is c for c in skip):
                continue
            if _may_suspend(ctx, f, aw, depth):
                out.append(aw)
    return out


def _leads_to(ctx: Ctx, f: FuncInfo, is_site, depth: int = 2, _stack=()) -> list:
    """[(node of f, (helper, ...) | None)]: statements of f that are such a site, or call a NEW helper that (transitively) contains one."""
    out = []
    for st in walk_no_nested(f.node):
        if isinstance(st, (ast.stmt, ast.expr)) and is_site(f, st):
            out.append((st, None))
    if depth > 0:
        for c in calls(f):
            for g0 in _new_helper_targets(ctx.repo, f, c):
                if g0.qualname in _stack:
                    continue
                g = _view(ctx, g0)
                if _leads_to(ctx, g, is_site, depth - 1, _stack + (f.qualname,)):
                    out.append((c, g))
    return out


def _rule_limit_atomic(ctx: Ctx) -> None:
    """
    The joined-circuit limit only holds if "count the joined circuits - admit - put the new one into the table" happens without
    giving the event loop a chance to run another CREATE in between: every request that is checked during such a gap sees the
    same, not yet updated, count, and all of them are admitted (a burst pushes the node over its limit).  So from the place the
    tables are counted to the place the new exit socket is stored there must be no suspension point (an await of anything
    but a repository coroutine that never suspends, `async for`, `async with`), across should_join_circuit -> on_create ->
    join_circuit and the NEW helpers they use.
    """
    rule = "join-limit"
    why = ("a CREATE that arrives while this one is suspended is checked against the same, not yet updated, number of joined circuits: a burst of "
           "requests is admitted beyond max_joined_circuits")
    sj = _meth(ctx, "TunnelCommunity", "should_join_circuit", TC)
    oc = _meth(ctx, "TunnelCommunity", "on_create", TC)
    jc = _meth(ctx, "TunnelCommunity", "join_circuit", TC)

    def counts_tables(f: FuncInfo, st: ast.AST) -> bool:
        return isinstance(st, ast.Attribute) and st.attr in ("relay_from_to", "exit_sockets") and rchain(f, st) in ("self.relay_from_to", "self.exit_sockets")

    def is_insert(f: FuncInfo, st: ast.AST) -> bool:
        return isinstance(st, ast.stmt) and any(s_ is st for s_, _ in _table_inserts(f, "self.exit_sockets"))

    def verdict_call(f: FuncInfo, st: ast.AST) -> bool:
        return isinstance(st, ast.Call) and chain(st.func) == "self.should_join_circuit"

    def prefix_atomic(f: FuncInfo, starts, sites, what: str, depth: int = 2) -> None:
        """No suspension from `starts` (None = entry of f) to the sites of f; a site that is a helper call is followed into the helper."""
        cfg = ctx.cfg(f)
        tn = [n for st, _ in sites for n in cfg.nodes_for(st)]
        bad = _suspends_between(ctx, f, starts, tn, skip=[st for st, _ in sites if isinstance(st, ast.Call)])
        ctx.check(not bad, rule, f, bad[0] if bad else f.node, f"{f.qualname}: no suspension point {what}",
                  f"{f.qualname} can suspend (`{norm(bad[0])[:70]}`) {what}: {why}" if bad else "")
        for st, g in sites:
            if g is not None and depth > 0:
                prefix_atomic(g, None, _leads_to(ctx, g, is_insert), "before the new exit socket is stored", depth - 1)

    # (A) inside the verdict: from the place the tables are counted to the return
    cfg = ctx.cfg(sj)
    cn = [n for st, _ in _leads_to(ctx, sj, counts_tables, depth=0) for n in cfg.nodes_for(st)]
    if cn:
        bad = _suspends_between(ctx, sj, cn, None)
        ctx.check(not bad, rule, sj, bad[0] if bad else sj.node, "should_join_circuit: no suspension point between counting the joined circuits and returning the verdict",
                  f"should_join_circuit can suspend (`{norm(bad[0])[:70]}`) after it has counted the joined circuits: {why}" if bad else "")
    # (B) from the verdict to the join, (C) from there to the insertion
    for ch in _site_chains(ctx, oc, "self.join_circuit"):
        seen_verdict = False
        for lvl, (f, c) in enumerate(ch):
            cfgf = ctx.cfg(f)
            vs = _leads_to(ctx, f, verdict_call, depth=1)
            vn = [n for st, _ in vs for n in cfgf.nodes_for(st)]
            if vn and not seen_verdict:
                seen_verdict = True
                prefix_atomic(f, vn, [(c, None)], "between the verdict of should_join_circuit and the join", 0)
                for st, g in vs:
                    if g is not None:                               # the verdict is obtained inside a helper: nothing may suspend after it there
                        gv = [n for s2, _ in _leads_to(ctx, g, verdict_call, depth=0) for n in ctx.cfg(g).nodes_for(s2)]
                        bad = _suspends_between(ctx, g, gv, None) if gv else []
                        ctx.check(not bad, rule, g, bad[0] if bad else g.node, f"{g.qualname}: no suspension point after the verdict",
                                  f"{g.qualname} can suspend (`{norm(bad[0])[:70]}`) after the verdict of should_join_circuit: {why}" if bad else "")
            elif seen_verdict:
                prefix_atomic(f, None, [(c, None)], "before it joins the circuit", 0)
        f, c = ch[-1]
        awaited = isinstance(getattr(c, "_parent", None), ast.Await)
        ctx.check(awaited == bool(jc.is_async), rule, f, c, "join_circuit runs to its table update as part of the handler (called, or awaited when a coroutine)",
                  f"join_circuit is {'a coroutine that is only scheduled here' if jc.is_async else 'not a coroutine but awaited'}: the table is updated at some later time; {why}")
    sites = _leads_to(ctx, jc, is_insert)
    ctx.anchor(sites, "insertion into exit_sockets in join_circuit")
    prefix_atomic(jc, None, sites, "between its entry (the request was admitted) and storing the new exit socket")


def _return_sites(fi: FuncInfo):
    return [r for r in walk_no_nested(fi.node) if isinstance(r, ast.Return)]


def rule_limits(ctx: Ctx) -> None:
    repo = ctx.repo
    oc = _meth(ctx, "TunnelCommunity", "on_create", TC)
    for ch in ctx.anchor(_site_chains(ctx, oc, "self.join_circuit"), "join_circuit in on_create"):
        fs = [g for f, c in ch for g in _facts(f, ctx.cfg(f), c)]
        ok = False
        for g in fs:
            if g.op == "truthy" and g.pos:
                r = resolve(ch[0][0], g.left)
                if isinstance(r, ast.Await):
                    r = r.value
                if isinstance(r, ast.Call) and chain(r.func) == "self.should_join_circuit":
                    ok = True
        f, c = ch[-1]
        if not ok:
            # the verdict travels in another form (a record field, a tag, a helper's return value): with a falsy verdict the join
            # must be out of reach, whatever shape the test has
            assume = {}
            for f0, _c0 in ch:
                for vc in calls(f0, "self.should_join_circuit"):
                    par = getattr(vc, "_parent", None)
                    assume[_K("truthy", norm(par if isinstance(par, ast.Await) else vc))] = False
            if assume:
                live, blocked = _blocked_under(ctx, ch, assume)
                ok = live and blocked
        ctx.check(ok, "join-limit", f, c, "join_circuit dominated by a truthy should_join_circuit", "a create is joined without consulting the join limit",
                  [str(g) for g in fs])
    sj = _meth(ctx, "TunnelCommunity", "should_join_circuit", TC)
    cfgs = ctx.cfg(sj)
    # at the limit (`not relays + exits < max_joined_circuits`, in any spelling) every verdict that can be returned is False
    at_limit = {_K("lt", "len(self.relay_from_to) + len(self.exit_sockets)", "self.settings.max_joined_circuits", integer=True): False}
    full = _World(sj, cfgs, at_limit, ctx=ctx)
    rets = _return_sites(sj)
    refuses = False
    chains = _site_chains(ctx, oc, "self.join_circuit")
    if chains and all(_blocked_under(ctx, ch, at_limit) == (True, True) for ch in chains):
        # the limit test sits in the handler itself (guard moved from the verdict function to its caller): at the limit no join is reachable
        ctx.instance("join-limit", oc.where, "on_create cannot reach join_circuit at relays+exits >= max_joined_circuits", line=oc.node.lineno)
        rets = []
        refuses = None
    for r in rets:
        if not full.reaches(r):
            ctx.instance("join-limit", sj.where, "return not taken at the limit", line=r.lineno)
            continue
        vals = set()
        if r.value is not None:
            for n in cfgs.nodes_for(r):
                vals |= full.ev(r.value, n)
        else:
            vals = {False}
        refuses = refuses or vals == {False}
        const = isinstance(r.value, ast.Constant)
        ctx.check(vals == {False}, "join-limit", sj, r, "at relays+exits >= max_joined_circuits the verdict is False",
                  "should_join_circuit admits a circuit at or above the joined-circuit limit" if const or True in vals else
                  "should_join_circuit returns a non-constant verdict", [f"verdict at the limit: {sorted(map(str, vals))}"])
    ctx.check(refuses is None or refuses and cfgs.exit not in full.reach(cut_nodes=[n for r in rets for n in cfgs.nodes_for(r)], follow_exc=False),
              "join-limit", sj, sj.node, "a refusing branch exists", "should_join_circuit never refuses")
    _rule_limit_atomic(ctx)
    # ---- relay_early
    rc = _meth(ctx, "PythonCryptoEndpoint", "relay_cell", CR)
    cfgr = ctx.cfg(rc)
    # assumption "the cell carries relay_early and the route's budget is used up": the send must be unreachable, whatever
    # else is tested on the way (an extra conjunct such as a direction test leaves the send reachable and is reported)
    k_early = _K("truthy", "cell.relay_early")
    k_left = _K("lt", "next_relay.relay_early_count", "self.max_relay_early", integer=True)
    # the same budget named through the table the route comes from (the rule below pins the route to exactly this entry)
    k_left_entry = _K("lt", f"{ROUTE_OF_CELL}.relay_early_count", "self.max_relay_early", integer=True)
    for ch in ctx.anchor(_site_chains(ctx, rc, "self.endpoint.send"), "send in relay_cell"):
        f, s = ch[-1]
        cfgf = ctx.cfg(f)
        live, blocked = _blocked_under(ctx, ch, {k_early: True, k_left: False, k_left_entry: False})
        ctx.check(live and blocked, "relay-early-budget", f, s,
                  "no path forwards a relay_early cell once the relay's budget is used up",
                  "a relay forwards relay_early cells beyond max_relay_early (the send is reachable with relay_early set and "
                  "relay_early_count >= max_relay_early)")
        ok = False
        for lvl in range(len(ch) - 1, -1, -1):                      # counted in the function that sends, or by its caller right after
            f2, c2 = ch[lvl]
            cfg2 = ctx.cfg(f2)
            route = "next_relay"
            if lvl > 0:
                back = {strip_cast(a).id: p for p, a in _bind_args(f2, ch[lvl - 1][1]).items() if isinstance(strip_cast(a), ast.Name)}
                route = back.get("next_relay", "next_relay") if lvl == 1 else route
            incs = [n for st in walk_no_nested(f2.node) if isinstance(st, ast.stmt) and
                    (_is_increment(st, f"{route}.relay_early_count") or lvl == 0 and _increments(f2, st, f"{ROUTE_OF_CELL}.relay_early_count"))
                    for n in cfg2.nodes_for(st)]
            if incs and all(cfg2.always_followed_by(sn, incs) for sn in cfg2.nodes_for(c2)):
                ok = True
                break
        ctx.check(ok, "relay-early-budget", f, s, "every forwarded cell increments the relay's relay_early counter",
                  "forwarded relay_early cells are not counted")
    d = single_def(rc, "next_relay")
    ok = d is not None and d[1] is None and ROUTE_OF_CELL in _texts(rc, d[0])
    if not ok and local_defs(rc, "next_relay"):
        # several definitions (decide-then-act, a verdict record unpacked into the local): wherever the local is read for the
        # forwarding - the send / the helper that sends, the counter - every value that can get there is that table entry
        uses = [c for chn in _site_chains(ctx, rc, "self.endpoint.send") for c in [chn[0][1]]
                if any(isinstance(n, ast.Name) and n.id == "next_relay" for n in ast.walk(c))]
        probe = ast.Name(id="next_relay", ctx=ast.Load())
        ok = bool(uses) and all(_always_is(ctx, rc, probe, c, (ROUTE_OF_CELL,)) for c in uses)
    ctx.check(ok, "relay-early-budget", rc, rc.node,
              "budget is the one of the route the cell is relayed over", "the relay_early budget of a different route is consulted")
    mre = repo.cls("PythonCryptoEndpoint", CR).methods.get("max_relay_early")
    ok = mre is not None
    if mre is not None:
        cfgm = ctx.cfg(mre)
        for has, want in ((True, lambda e: norm(strip_cast(e)) == "self.settings.max_relay_early"),
                          (False, lambda e: isinstance(const_value(e), int) and not isinstance(const_value(e), bool) and const_value(e) > 0)):
            w = _World(mre, cfgm, {_K("truthy", "self.settings"): has}, ctx=ctx)
            seen = 0
            for r in _return_sites(mre):
                if not w.reaches(r) or r.value is None:
                    continue
                seen += 1
                vs = [r.value]
                while any(isinstance(strip_cast(v), ast.IfExp) for v in vs):
                    nv = []
                    for v in vs:
                        v = strip_cast(v)
                        if isinstance(v, ast.IfExp):
                            t = set()
                            for n in cfgm.nodes_for(r):
                                t |= w.ev(v.test, n)
                            nv += ([v.body] if t - {False} else []) + ([v.orelse] if t - {True} else [])
                        else:
                            nv.append(v)
                    vs = nv
                ok = ok and all(want(resolve(mre, v)) for v in vs)
            ok = ok and seen > 0
    ctx.check(ok, "relay-early-budget", mre or rc, (mre or rc).node, "max_relay_early is the configured setting (default 8)",
              "the relay_early budget is not the configured number")
    if mre is not None:
        # the getter is evaluated on every use: TunnelSettings.max_relay_early has a setter for run-time changes, a memoised getter
        # keeps the number that was configured when the first cell was handled
        memo = []
        for d in mre.node.decorator_list:
            f = d.func if isinstance(d, ast.Call) else d
            nm = chain(f) or ""
            if isinstance(f, ast.Name) and f.id in mre.module.imports and mre.module.imports[f.id][1] is not None:
                nm = ".".join(x for x in mre.module.imports[f.id] if x)
            if nm.rsplit(".", 1)[-1] in ("cached_property", "lru_cache", "cache", "cached", "memoize", "memoized"):
                memo.append(norm(d))
        ctx.check(not memo, "relay-early-budget", mre, mre.node, "max_relay_early is read from the settings on every use (not memoised)",
                  f"PythonCryptoEndpoint.max_relay_early is memoised (@{', @'.join(memo)}): the budget tests in relay_cell / process_cell / send_cell keep the value of "
                  "the first use, so a budget lowered at run time through TunnelSettings.max_relay_early's setter is ignored and the relay keeps forwarding "
                  "relay_early cells up to the old number per circuit")
    # ---- originator: flag == (extend or budget left), decided as a truth table over the two conditions
    sc = _meth(ctx, "PythonCryptoEndpoint", "send_cell", CR)
    cfgs2 = ctx.cfg(sc)
    sts = [s for s, t in stores(sc, "cell.relay_early")]
    cnt = [s for s, t in stores(sc, "circuit.relay_early_count")]
    k_ext = _K("eq", "cell.message[0]", "4")
    k_own = _K("lt", "circuit.relay_early_count", "self.max_relay_early", integer=True)
    k_circ = _K("truthy", "circuit")
    sendn = [n for c in calls(sc, "self.endpoint.send") for n in cfgs2.nodes_for(c)]
    marks = bool(sts) and bool(sendn)
    counts = marks and bool(cnt) and all(_is_increment(c, "circuit.relay_early_count") for c in cnt)
    incn = [n for c in cnt for n in cfgs2.nodes_for(c)]
    probe = ast.parse("cell.relay_early", mode="eval").body
    if marks:
        for ext in (True, False):
            for own in (True, False):
                # for a cell sent over one of our own circuits: the flag that goes out is exactly (extend or budget left)
                w = _World(sc, cfgs2, {k_ext: ext, k_own: own, k_circ: True}, ctx=ctx)
                vals = set()
                for n in sendn:
                    if n in w.reach():
                        vals |= w.value_at("cell.relay_early", probe, n)
                marks = marks and vals == {ext or own}
                if not counts:
                    continue
                if ext or own:
                    # no normal run  entry -> send -> exit  that avoids the increment, and none that counts twice
                    r1 = w.reach(cut_nodes=incn, follow_exc=False)
                    for sn in [n for n in sendn if n in r1]:
                        if cfgs2.exit in w.reach([v for v, lab in sn.succ if lab != "exc"], cut_nodes=incn, follow_exc=False):
                            counts = False
                    for i in incn:
                        if any(j in w.reach([v for v, lab in i.succ if lab != "exc"], follow_exc=False) for j in incn):
                            counts = False
                elif any(n in w.reach(follow_exc=False) for n in incn):
                    counts = False
    ctx.check(marks, "relay-early-budget", sc, sc.node, "originator marks relay_early exactly for extend or while its own budget lasts",
              "the originator marks cells relay_early without budget")
    ctx.check(counts, "relay-early-budget", sc, sc.node, "originator counts every relay_early cell it sends (and only those)",
              "originator's relay_early cells are not counted")
    pc = _meth(ctx, "PythonCryptoEndpoint", "process_cell", CR)
    for ch in ctx.anchor(_site_chains(ctx, pc, "self.tunnel_community.on_packet"), "on_packet in process_cell"):
        f, s = ch[-1]
        live, blocked = _blocked_under(ctx, ch, {k_early: False, k_ext: True})
        ctx.check(live and blocked, "relay-early-budget", f, s,
                  "an extend that arrives without relay_early is dropped", "extend cells are accepted without the relay_early flag")


def rule_retry(ctx: Ctx) -> None:
    repo = ctx.repo
    ot = _meth(ctx, "RetryRequestCache", "on_timeout", CA)
    cfg = ctx.cfg(ot)

    def gives_up(f, c) -> bool:
        return call_name(c) == "remove_circuit" and "self.circuit.circuit_id" in _texts(f, arg(c, 0, "circuit_id"))
    rm = _passes_always(ctx, ot, gives_up, depth=1)
    ctx.check(bool(rm), "retry-gives-up", ot, ot.node, "on_timeout removes the circuit when it gives up", "a failed circuit build is never removed")
    # the retry passes the remaining candidates / tries on (closure, or a method of the cache handed to the task)
    rcls = repo.cls("RetryRequestCache", CA)
    retry = [c for f2 in ot.module.all_functions if f2.qualname.startswith("RetryRequestCache.") and (f2.qualname.startswith("RetryRequestCache.on_timeout.") or _is_new(f2))
             for c in calls(f2) if chain(c.func) == "self.retry_func"]
    retry += [c for c in calls(ot) if chain(c.func) == "self.retry_func"]
    ok = len(retry) == 1 and [norm(a) for a in retry[0].args] == ["self.circuit", "self.candidates", "self.max_tries"] and not retry[0].keywords
    if not retry:
        # the retry lives in a NEW function outside the cache class (a small callable object, a module-level helper) that only
        # on_timeout uses, or is bound with functools.partial: <cache>.retry_func(<cache>.circuit, <cache>.candidates, <cache>.max_tries)
        cands = []
        for f2 in ot.module.all_functions:
            if not (f2.node is ot.node or _within(f2, ("RetryRequestCache.on_timeout",)) or _is_new(f2) and _only_reached_from(repo, f2, ("RetryRequestCache.on_timeout",))):
                continue
            for c in calls(f2):
                fn, args = c.func, list(c.args)
                if isinstance(fn, ast.Name) and fn.id == "partial" or chain(fn) == "functools.partial":
                    if not args:
                        continue
                    fn, args = args[0], args[1:]
                fn = strip_cast(fn)
                if isinstance(fn, ast.Attribute) and fn.attr == "retry_func" and not c.keywords:
                    base = _texts(f2, fn.value)[-1]
                    cands.append((f2, c, base, [_texts(f2, a)[-1] for a in args]))
        ok = len(cands) == 1 and cands[0][3] == [f"{cands[0][2]}.circuit", f"{cands[0][2]}.candidates", f"{cands[0][2]}.max_tries"] \
            and (cands[0][2] == "self" and _within(cands[0][0], ("RetryRequestCache",)) or cands[0][2] != "self" and not _within(cands[0][0], ("RetryRequestCache",))
                 or cands[0][2].startswith("self."))
        retry = [c for _, c, _, _ in cands]
    ctx.check(ok, "retry-gives-up", ot, ot.node,
              "retry passes (circuit, remaining candidates, remaining tries)", "retry does not pass the remaining tries on")
    # with no tries left, or no candidate left, (and the circuit not already closing) nothing is scheduled and the circuit is removed
    k_closing = _K("eq", "self.circuit.state", "CIRCUIT_STATE_CLOSING")
    worlds = (("max_tries < 1", {_K("lt", "self.max_tries", "1", integer=True): True, k_closing: False}),
              ("no candidates", {_K("truthy", "self.candidates"): False, k_closing: False}))
    reg = [c for c in calls(ot) if call_name(c) in ("register_anonymous_task", "register_task", "ensure_future", "create_task")] + \
          [c for c in calls(ot) if chain(c.func) == "self.retry_func"]
    ctx.anchor(reg, "retry scheduling in RetryRequestCache.on_timeout")
    for c in reg:
        bad = [name for name, a in worlds if _World(ot, cfg, a, ctx=ctx).reaches(c)]
        ctx.check(not bad, "retry-gives-up", ot, c, "retry scheduled only while max_tries >= 1 and candidates remain",
                  "the build retry is scheduled without tries left: it can retry forever", [f"reachable with {b}" for b in bad])
    for name, a in worlds:
        w = _World(ot, cfg, a, ctx=ctx)
        ctx.check(bool(rm) and cfg.exit not in w.reach(cut_nodes=rm, follow_exc=False), "retry-gives-up", ot, ot.node,
                  f"on_timeout removes the circuit when it gives up ({name})",
                  f"on_timeout can finish without retrying and without removing the circuit ({name}): the half-built circuit is left to the one-hour age limit")
    for meth in ("send_initial_create", "send_extend"):
        fi = _meth(ctx, "TunnelCommunity", meth, TC)
        for c in calls(fi, "RetryRequestCache"):
            ok = "max_tries - 1" in _texts(fi, arg(c, 3, "max_tries")) and "max_tries" in fi.params() and not local_defs(fi, "max_tries")
            ctx.check(ok, "retry-gives-up", fi, c, f"{meth}: the new retry cache gets max_tries - 1", f"{meth} does not decrease the remaining tries")
            ctx.check("self.settings.next_hop_timeout" in _texts(fi, arg(c, 5, "timeout")), "retry-gives-up", fi, c, "attempt timeout is settings.next_hop_timeout",
                      "attempt timeout is not the configured one")
    _rule_watchdog(ctx)
    td = rcls.methods.get("timeout_delay")
    ok = td is not None and bool(_return_sites(td)) and all(r.value is not None and _texts(td, r.value)[-1] in ("float(self.timeout)", "self.timeout")
                                                            for r in _return_sites(td))
    ctx.check(ok, "retry-gives-up", td or ot, (td or ot).node, "retry cache times out after the given timeout", "retry cache timeout is not the configured one")


def _retry_cache_pops(repo):
    """(function, call) of every `<request cache>.pop(RetryRequestCache, ...)` in the anonymization package."""
    for m, fi, c in repo.callers_of_name("pop"):
        if fi is None or not m.relpath.startswith("ipv8/messaging/anonymization/"):
            continue
        if arg(c, 0) is not None and chain(resolve(fi, arg(c, 0))) == "RetryRequestCache":
            yield fi, c


def _rule_watchdog(ctx: Ctx) -> None:
    """
    The RetryRequestCache of a circuit under construction is the only timer that gives up on it (the inactivity sweep looks at
    READY circuits only, an unanswered or rejected hop produces no message at all; what remains is the one-hour age limit).  So it may be taken out of the
    request cache only (a) by remove_circuit itself, (b) when the circuit is READY, or (c) when every normal continuation
    arms a new one (request_cache.add of a fresh RetryRequestCache, directly or through send_initial_create/send_extend) or
    removes the circuit; and, where the hop's answer is authenticated in the same function, only after that succeeded.
    """
    repo = ctx.repo
    rule = "retry-gives-up"

    def settle_call(rearm):
        def is_target(fi: FuncInfo, c: ast.Call) -> bool:
            nm = call_name(c)
            if nm == "remove_circuit":
                return True
            if nm == "add" and (chain(c.func) or "").endswith("request_cache.add"):
                v = resolve(fi, arg(c, 0))
                return isinstance(v, ast.Call) and chain(v.func) == "RetryRequestCache"
            return nm in rearm and chain(c.func) == f"self.{nm}"
        return is_target

    def settles(fi: FuncInfo, cfg, rearm) -> list:
        """CFG nodes of fi after which the circuit is watched again or being removed (also through helpers that always do so)."""
        return _passes_always(ctx, fi, settle_call(rearm), depth=1)

    # functions that, on every normal path, arm a new retry cache or remove the circuit
    rearm: set[str] = set()
    makers = {fi.qualname: fi for m, fi, c in repo.callers_of_name("RetryRequestCache")
              if fi is not None and m.relpath.startswith("ipv8/messaging/anonymization/") and fi.cls is not None}
    changed = True
    while changed:
        changed = False
        for fi in makers.values():
            if fi.name in rearm:
                continue
            cfg = ctx.cfg(fi)
            if cfg.exit not in cfg.reach(cut_nodes=settles(fi, cfg, rearm), follow_exc=False):
                rearm.add(fi.name)
                changed = True

    def judge(fi: FuncInfo, site: ast.AST, depth: int = 2):
        """(ready, followed, verified, facts) for taking the watchdog out at `site` of fi; a NEW private helper is judged at its call sites too."""
        cfg = ctx.cfg(fi)
        fs = _facts(fi, cfg, site)
        ready = any(g.op == "eq" and g.pos and "CIRCUIT_STATE_READY" in (norm(g.left), norm(g.right)) and
                    (norm(g.left).endswith(".state") or norm(g.right).endswith(".state")) for g in fs)
        tg = settles(fi, cfg, rearm)
        # decided on the plain CFG first; otherwise with the values of verdict locals followed along the paths (a sentinel such as
        # `keys = None ... if keys is None: return` that tells whether a guarded block was abandoned)
        w = _World(fi, cfg, {}, ctx=ctx)

        def followed_from(pn) -> bool:
            rest = [t for t in tg if t is not pn]
            return cfg.always_followed_by(pn, rest) or cfg.exit not in w.reach([v for v, lab in pn.succ if lab != "exc"], cut_nodes=rest, follow_exc=False)

        followed = bool(tg) and all(pn in tg or followed_from(pn) for pn in cfg.nodes_for(site))
        ver = [x for v in calls(fi) if call_name(v) == "verify_and_generate_shared_secret" for x in cfg.nodes_for(v)]
        verified = None if not ver else all(cfg.must_complete(pn, ver) or pn not in w.reach(cut_out_normal=[t for t in ver if t is not pn])
                                            for pn in cfg.nodes_for(site))
        if depth > 0 and _is_new(fi) and _private(fi) and not (ready or followed) or depth > 0 and _is_new(fi) and _private(fi) and verified is None:
            users = [(g, c) for m, g, c in repo.callers_of_name(fi.name) if g is not None and g.node is not fi.node]
            values = [a for m, g, a in repo.attribute_uses(fi.name) if not (isinstance(getattr(a, "_parent", None), ast.Call) and a._parent.func is a)]
            if values or not users:
                if not (ready or followed):
                    raise AnalysisError(f"undecided: {fi.qualname} pops the RetryRequestCache and is reached through a table / callback: its callers cannot be judged")
            else:
                sub = [judge(g, c, depth - 1) for g, c in users]
                ready = ready or all(s[0] for s in sub)
                followed = followed or all(s[1] for s in sub)
                if verified is None and any(s[2] is not None for s in sub):
                    verified = all(s[2] is not False for s in sub)
                fs = fs + [g for s in sub for g in s[3]]
        return ready, followed, verified, fs

    n = 0
    sites, seen_fn = [], set()
    for fi0, c0 in _retry_cache_pops(repo):
        v = _view(ctx, fi0)
        if v is fi0:
            sites.append((fi0, c0))
        elif id(fi0.node) not in seen_fn:
            # the function as the interpreter runs it (private context managers / helpers of other modules pasted in): its pops
            seen_fn.add(id(fi0.node))
            sites.extend((v, c) for c in calls(v, "pop") if arg(c, 0) is not None and chain(resolve(v, arg(c, 0))) == "RetryRequestCache")
    for fi, c in sites:
        n += 1
        if fi.name == "remove_circuit" or _only_reached_from(repo, fi, ("TunnelCommunity.remove_circuit",)):
            ctx.instance(rule, fi.where, "retry cache dropped by remove_circuit itself", line=c.lineno)
            continue
        ready, followed, verified, fs = judge(fi, c)
        ctx.check(ready or followed, rule, fi, c,
                  f"{fi.name}: the build watchdog is taken out only for a READY circuit or when a new one is armed / the circuit removed on every continuation",
                  f"{fi.qualname} pops the circuit's RetryRequestCache although a normal continuation neither arms a new one nor removes the circuit: "
                  "a circuit that is still being built loses the only timer that gives up on it (the inactivity sweep skips non-READY circuits), so its "
                  "entry outlives the build timeout and is left to the one-hour age limit",
                  [str(g) for g in fs])
        if verified is not None:
            ctx.check(verified, rule, fi, c, f"{fi.name}: the watchdog is released only after the hop's answer was verified",
                      f"{fi.qualname} pops the RetryRequestCache before verify_and_generate_shared_secret has succeeded: if verification fails or raises, "
                      "nothing times the half-built circuit out any more")
    ctx.floor("retry-gives-up.watchdog-pops", n, 4)


HEARTBEAT_CALLERS = {
    # function -> why refreshing activity there is legitimate (traffic was received and authenticated / accepted)
    "PythonCryptoEndpoint.process_cell": "cell received for this circuit / relay",
    "TunnelCommunity.on_data": "data received over our own circuit",
    "TunnelCommunity.on_ping": "ping received on an exit socket",
    "TunnelCommunity.on_pong": "pong received for our circuit",
    "TunnelCommunity.on_test_request": "speed-test request received on an exit socket",
    "TunnelExitSocket.sendto": "data left through the exit socket",
    "HiddenTunnelCommunity.on_raw_data": "e2e data received",
}


def rule_heartbeat(ctx: Ctx) -> None:
    repo = ctx.repo
    n = 0
    for m, fi, c in repo.callers_of_name("beat_heart"):
        if fi is None or not m.relpath.startswith("ipv8/messaging/anonymization/"):
            continue
        n += 1
        # a NEW private helper / closure that only the receive paths below use acts on their behalf
        ok = fi.qualname in HEARTBEAT_CALLERS or _only_reached_from(repo, fi, HEARTBEAT_CALLERS)
        ctx.check(ok, "sweep-coverage", fi, c, f"beat_heart in {fi.qualname}: {HEARTBEAT_CALLERS.get(fi.qualname, 'helper of a receive path')}",
                  f"{fi.qualname} refreshes last_activity (`{norm(c)}`) although it is not a receive path: own traffic (e.g. periodic pings sent every 7.5 s) keeps "
                  "an abandoned entry 'active', so the inactivity sweep never reclaims it")
    ctx.floor("sweep-coverage.heartbeat-sites", n, 5)
    writers = ("RoutingObject.__init__", "RoutingObject.beat_heart")
    for m, fi, a in repo.attribute_uses("last_activity"):
        if isinstance(a.ctx, ast.Store) and fi is not None:
            ctx.check(fi.qualname in writers or _only_reached_from(repo, fi, writers), "sweep-coverage", fi, enclosing_stmt(a),
                      "last_activity written only by the constructor and beat_heart", "last_activity is written outside beat_heart")
    rule_transports_stored(ctx)


def rule_transports_stored(ctx: Ctx, rule: str = "remove-removes") -> None:
    """Opened outside sockets are stored on the exit socket in the statement that opens them (so close() can always find them)."""
    repo = ctx.repo
    n = 0
    for fi0 in repo.module("ipv8/messaging/anonymization/exit_socket.py").all_functions:
        if not fi0.qualname.startswith("TunnelExitSocket."):
            continue
        fi = _view(ctx, fi0)
        for c in calls(fi):
            base = resolve(fi, c.func.value) if call_name(c) == "open" and isinstance(c.func, ast.Attribute) else None
            if isinstance(base, ast.Call) and chain(base.func) == "TunnelProtocol":
                n += 1
                st = enclosing_stmt(c)
                ok = isinstance(st, ast.Assign) and len(st.targets) == 1 and (chain(st.targets[0]) or "").startswith("self.transport_") and \
                    isinstance(st.value, ast.Await) and st.value.value is c
                ctx.check(ok, rule, fi, st, "each opened transport is assigned to self.transport_* in the statement that awaits its open()",
                          "an opened outside socket is held only in a local/gather result until later: if the task is cancelled (circuit removed, unload) or the other "
                          "open fails, close() never sees it and the UDP socket leaks")
    ctx.floor(f"{rule}.transport-opens", n, 2)


def run(ctx: Ctx) -> None:
    rule_heartbeat(ctx)
    rule_sweep(ctx)
    rule_remove_removes(ctx)
    rule_destroy_propagates(ctx)
    rule_limits(ctx)
    rule_retry(ctx)
    ctx.assume("asyncio timers fire; RequestCache timeouts fire once (C10); TaskManager keeps @task coroutines alive until unload (C11)")
    ctx.assume("the bound `max_time_inactive + sweep interval + remove_tunnel_delay` follows from the checked structure; it is not measured")


WITNESSES = [
    {"name": "relay_early budget getter memoised", "file": CR, "rule": "relay-early-budget",
     "old": "    @property\n    def max_relay_early(self) -> int:", "new": "    @cached_property\n    def max_relay_early(self) -> int:"},
    {"name": "destroy of an own circuit addressed to the verified path only", "file": TC, "rule": "destroy-propagates",
     "old": "        sock_addr = circuit.hop.address\n        self.send_destroy(sock_addr, circuit.circuit_id, reason)",
     "new": "        sock_addr = circuit.hops[0].address\n        self.send_destroy(sock_addr, circuit.circuit_id, reason)"},
    {"name": "relay sweep dropped", "file": TC, "rule": "sweep-coverage",
     "old": "        for circuit_id, relay in list(self.relay_from_to.items()):\n            if relay.last_activity < time.time() - self.settings.max_time_inactive:\n                self.remove_relay(circuit_id, \"no activity\")\n            elif",
     "new": "        for circuit_id, relay in list(self.relay_from_to.items()):\n            if relay.bytes_up + relay.bytes_down == 0 and relay.last_activity < time.time() - self.settings.max_time_inactive:\n                self.remove_relay(circuit_id, \"no activity\")\n            elif"},
    {"name": "exit sweep stops at first live socket", "file": TC, "rule": "sweep-coverage",
     "old": "            elif exit_socket.bytes_up + exit_socket.bytes_down > self.settings.max_traffic:\n                self.remove_exit_socket(circuit_id, \"traffic limit exceeded\", destroy=True)\n",
     "new": "            elif exit_socket.bytes_up + exit_socket.bytes_down > self.settings.max_traffic:\n                self.remove_exit_socket(circuit_id, \"traffic limit exceeded\", destroy=True)\n            else:\n                break\n"},
    {"name": "sweep skipped when nothing to build", "file": TC, "rule": "sweep-coverage",
     "old": "            if not num_to_build:\n                continue\n", "new": "            if not num_to_build:\n                return\n"},
    {"name": "exit inactivity compares creation time only", "file": TC, "rule": "sweep-coverage",
     "old": "            if exit_socket.last_activity < time.time() - self.settings.max_time_inactive:\n                self.remove_exit_socket(circuit_id, \"no activity\")\n            elif exit_socket.creation_time",
     "new": "            if exit_socket.last_activity < time.time() - self.get_max_time(circuit_id):\n                self.remove_exit_socket(circuit_id, \"no activity\")\n            elif exit_socket.creation_time"},
    {"name": "remove_relay keeps entry when destroy requested", "file": TC, "rule": "remove-removes",
     "old": "        self.logger.info(\"Removing relay %d %s\", circuit_id, additional_info)\n\n        return self.relay_from_to.pop(circuit_id, None)",
     "new": "        self.logger.info(\"Removing relay %d %s\", circuit_id, additional_info)\n        if destroy and remove_now:\n            return None\n\n        return self.relay_from_to.pop(circuit_id, None)"},
    {"name": "exit socket not closed", "file": TC, "rule": "remove-removes",
     "old": "            if exit_socket.enabled:\n                await exit_socket.close()\n            await exit_socket.shutdown_task_manager()",
     "new": "            await exit_socket.shutdown_task_manager()"},
    {"name": "close forgets ipv6 transport", "file": "ipv8/messaging/anonymization/exit_socket.py", "rule": "remove-removes",
     "old": "        if self.transport_ipv6:\n            self.transport_ipv6.close()\n            self.transport_ipv6 = None", "new": "        self.transport_ipv6 = None"},
    {"name": "exit entry popped outside remove_exit_socket", "file": TC, "rule": "remove-removes",
     "old": "            self.remove_exit_socket(request.from_circuit_id, remove_now=True)\n",
     "new": "            dropped = self.exit_sockets.pop(request.from_circuit_id)\n            self.register_anonymous_task(\"shutdown_exit_socket\", dropped.shutdown_task_manager)\n"},
    {"name": "join limit decided on a stale spelling (admits at the limit)", "file": TC, "rule": "join-limit",
     "old": "if self.settings.max_joined_circuits <= len(self.relay_from_to) + len(self.exit_sockets):",
     "new": "if self.settings.max_joined_circuits < len(self.relay_from_to) + len(self.exit_sockets):"},
    {"name": "retry gives up without removing the circuit", "file": CA, "rule": "retry-gives-up",
     "old": "            self.community.remove_circuit(self.circuit.circuit_id, reason)\n            return\n",
     "new": "            if self.candidates:\n                self.community.remove_circuit(self.circuit.circuit_id, reason)\n            return\n"},
    {"name": "destroy bounced instead of forwarded", "file": TC, "rule": "destroy-propagates",
     "old": "            self.remove_relay(circuit_id, f\"got destroy with reason {payload.reason}\", destroy=payload.reason)\n            self.remove_relay(cast(\"RelayRoute\", next_relay).circuit_id, f\"got destroy with reason {payload.reason}\")",
     "new": "            self.remove_relay(circuit_id, f\"got destroy with reason {payload.reason}\")\n            self.remove_relay(cast(\"RelayRoute\", next_relay).circuit_id, f\"got destroy with reason {payload.reason}\", destroy=payload.reason)"},
    {"name": "relay removes one direction only", "file": TC, "rule": "destroy-propagates",
     "old": "            self.remove_relay(cast(\"RelayRoute\", next_relay).circuit_id, f\"got destroy with reason {payload.reason}\")\n", "new": ""},
    {"name": "join limit off by table", "file": TC, "rule": "join-limit",
     "old": "if self.settings.max_joined_circuits <= len(self.relay_from_to) + len(self.exit_sockets):",
     "new": "if self.settings.max_joined_circuits <= len(self.exit_sockets):"},
    {"name": "join ignores verdict", "file": TC, "rule": "join-limit",
     "old": "        result = await self.should_join_circuit(payload, source_address)\n        if result:\n            self.join_circuit(payload, source_address)",
     "new": "        result = await self.should_join_circuit(payload, source_address)\n        if result is not None:\n            self.join_circuit(payload, source_address)"},
    {"name": "relay_early budget not enforced", "file": CR, "rule": "relay-early-budget",
     "old": "        if cell.relay_early and next_relay.relay_early_count >= self.max_relay_early:\n            self.logger.warning(\"Dropping cell (too many relay_early cells)\")\n            return\n",
     "new": "        if cell.relay_early and next_relay.relay_early_count >= self.max_relay_early:\n            self.logger.warning(\"Dropping cell (too many relay_early cells)\")\n"},
    {"name": "relay_early counter only on rendezvous", "file": CR, "rule": "relay-early-budget",
     "old": "        next_relay.bytes_up += len(packet)\n        next_relay.relay_early_count += 1",
     "new": "        next_relay.bytes_up += len(packet)\n        if next_relay.rendezvous_relay:\n            next_relay.relay_early_count += 1"},
    {"name": "relay_early budget only for forward routes", "file": CR, "rule": "relay-early-budget",
     "old": "        if cell.relay_early and next_relay.relay_early_count >= self.max_relay_early:",
     "new": "        if cell.relay_early and next_relay.direction == FORWARD and next_relay.relay_early_count >= self.max_relay_early:"},
    {"name": "originator budget off by one", "file": CR, "rule": "relay-early-budget",
     "old": "circuit.relay_early_count < self.max_relay_early", "new": "circuit.relay_early_count <= self.max_relay_early"},
    {"name": "retry cache released before the hop is verified", "file": TC, "rule": "retry-gives-up",
     "old": "        try:\n            shared_secret = self.crypto.verify_and_generate_shared_secret(",
     "new": "        self.request_cache.pop(RetryRequestCache, circuit.circuit_id)\n        try:\n            shared_secret = self.crypto.verify_and_generate_shared_secret("},
    {"name": "retry does not decrease tries", "file": TC, "rule": "retry-gives-up",
     "old": "        cache = RetryRequestCache(self, circuit, alt_first_hops, max_tries - 1,", "new": "        cache = RetryRequestCache(self, circuit, alt_first_hops, max_tries,"},
    {"name": "repeated create overwrites a live exit socket", "file": TC, "rule": "remove-removes",
     "old": "if circuit_id in self.circuits or circuit_id in self.relay_from_to or circuit_id in self.exit_sockets:",
     "new": "if circuit_id in self.circuits or circuit_id in self.relay_from_to:"},
    {"name": "join suspends between the admission and the table update", "rule": "join-limit", "edits": [
        {"file": TC, "old": "    def join_circuit(self, create_payload: CreatePayload, previous_node_address: Address) -> None:",
         "new": "    async def join_circuit(self, create_payload: CreatePayload, previous_node_address: Address) -> None:"},
        {"file": TC, "old": "        shared_secret, key, auth = self.crypto.generate_diffie_shared_secret(create_payload.key)\n        session_keys = self.crypto.generate_session_keys(shared_secret)\n\n        # In order to remain compatible",
         "new": "        await sleep(0)\n        shared_secret, key, auth = self.crypto.generate_diffie_shared_secret(create_payload.key)\n        session_keys = self.crypto.generate_session_keys(shared_secret)\n\n        # In order to remain compatible"},
        {"file": TC, "old": "            self.join_circuit(payload, source_address)\n", "new": "            await self.join_circuit(payload, source_address)\n"}]},
    {"name": "verdict suspends after counting", "file": TC, "rule": "join-limit",
     "old": "            return False\n        return True\n\n    def join_circuit(",
     "new": "            return False\n        await sleep(0)\n        return True\n\n    def join_circuit("},
    {"name": "retry scheduled without tries", "file": CA, "rule": "retry-gives-up",
     "old": "        if not self.candidates or self.max_tries < 1:", "new": "        if not self.candidates:"},
]
